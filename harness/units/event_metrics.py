"""beat.f_measure, onset.f_measure, segment.detection (trim False/True), segment.deviation vs ME.Model.EventMetrics.

Scores are compared inside Coq with Qclose (1#1000000000); NaN is compared as NaN; exceptions by class.
Event times are k/64; interval times k/32 (np.round(., 5) is the identity there) plus a "rounding" stream on k/256
(np.round really rounds, half to even).  Windows: lattice values and the exact values of the float defaults
0.07 / 0.05 / 0.5.  A case with a pair of (rounded) times whose distance is within 1e-9 of, but not equal to, the
window is skipped and counted; in the rounding stream also the ones exactly on the window (float subtraction of two
non-dyadic boundaries is not exact)."""
from fractions import Fraction
from lib import core
from harness.units.match_events import frac_of, greedy_size

EV_DEN = 64
TOL = Fraction(1, 10 ** 9)


def round5(x):
    """np.round(x, 5) in exact arithmetic (round half to even)."""
    y = x * 100000
    f = y.numerator // y.denominator
    d = y - f
    if d > Fraction(1, 2) or (d == Fraction(1, 2) and f % 2 == 1):
        f += 1
    return Fraction(f, 100000)


def boundaries(ivs, den):
    return sorted(set(round5(Fraction(k, den)) for iv in ivs for k in iv))


def pair_stats(ref, est, w):
    """(#near-threshold pairs, #exact-threshold pairs) for Fraction lists."""
    near = exact = 0
    for r in ref:
        for e in est:
            d = abs(r - e) - w
            if d == 0:
                exact += 1
            elif abs(d) < TOL:
                near += 1
    return near, exact


def gen_events(rng, w, wl):
    nr = rng.choice([0, 1, 1, 2, 3, 4, 5, 6, 8, 12])
    span = rng.choice([8, 32, 128, 640, 2000])
    base = rng.choice([0, 0, 64 * 5, 64 * 100, 64 * 29980])
    ref = sorted(base + rng.randint(0, span) for _ in range(nr))
    if ref and rng.random() < 0.3:
        for _ in range(rng.randint(1, 3)):
            ref.append(rng.choice(ref))
        ref.sort()
    est = []
    if rng.random() < 0.12:
        est = sorted(base + rng.randint(0, span) for _ in range(rng.choice([0, 1, 2, 5])))
    else:
        for r in ref:
            c = rng.random()
            if c < 0.3:
                est.append(r + rng.choice([-1, 1]) * wl)
            elif c < 0.45:
                est.append(r + rng.choice([-1, 1]) * (wl + 1))
            elif c < 0.65:
                est.append(r)
            elif c < 0.8:
                est.append(r + rng.randint(-wl - 2, wl + 2))
            elif c < 0.9:
                est.append(base + rng.randint(0, span))
        for _ in range(rng.choice([0, 0, 1, 2])):
            est.append(rng.choice(est) if est and rng.random() < 0.5 else base + rng.randint(0, span))
        est.sort()
    m = rng.random()
    if m < 0.03 and len(est) > 1:
        rng.shuffle(est)            # malformed: not increasing
    elif m < 0.05 and len(ref) > 1:
        rng.shuffle(ref)
    elif m < 0.07:
        (ref if rng.random() < 0.5 else est).append(64 * 30000 + rng.choice([0, 1, 64]))  # at / above MAX_TIME
    return ref, est


def window(rng, floats, lattice):
    if rng.random() < 0.5:
        wk = rng.choice(lattice)
        return [wk, EV_DEN], wk
    wf = rng.choice(floats)
    return frac_of(wf), int(wf * EV_DEN)


def gen_intervals(rng, den, wl):
    """(ref intervals, est intervals) as lists of [a, b] integers over 1/den."""
    n = rng.choice([0, 1, 1, 2, 3, 4, 5, 6, 8])
    step = rng.choice([den // 2, den, 4 * den, 16 * den])
    start = rng.choice([0, 0, 0, den, 10 * den])

    def contiguous(bs):
        bs = sorted(set(b for b in bs if b >= 0))
        return [[bs[i], bs[i + 1]] for i in range(len(bs) - 1)]

    rb = [start]
    for _ in range(n):
        rb.append(rb[-1] + rng.randint(1, step))
    ref = contiguous(rb) if n else []
    c = rng.random()
    if c < 0.1:
        k = rng.choice([0, 1, 2, 4])
        eb = [start]
        for _ in range(k):
            eb.append(eb[-1] + rng.randint(1, step))
        est = contiguous(eb) if k else []
    else:
        eb = []
        for b in rb:
            t = rng.random()
            if t < 0.3:
                eb.append(b + rng.choice([-1, 1]) * wl)
            elif t < 0.45:
                eb.append(b + rng.choice([-1, 1]) * (wl + 1))
            elif t < 0.7:
                eb.append(b)
            elif t < 0.85:
                eb.append(b + rng.randint(-wl - 2, wl + 2))
        if rng.random() < 0.5:
            eb.append(start)
        if rng.random() < 0.5:
            eb.append(rb[-1])
        est = contiguous(eb)
    s = rng.random()
    if s < 0.15 and ref:
        # arbitrary (overlapping, unordered) but valid intervals: ravel order is then not sorted
        ref = [[a, a + rng.randint(1, step)] for a in (rng.randint(0, 6 * step) for _ in range(len(ref)))]
    elif s < 0.25 and est:
        rng.shuffle(est)
    m = rng.random()
    tgt = ref if rng.random() < 0.5 else est
    if m < 0.03:
        tgt.append([-rng.randint(1, 5), rng.randint(0, 5)])     # negative time
    elif m < 0.06:
        a = rng.randint(0, 100)
        tgt.append([a, a - rng.choice([0, 1])])                   # non-positive duration
    return ref, est


class U(core.Unit):
    name = 'event_metrics'
    requires = ['ME.Model.Prelude', 'ME.Model.Dict', 'ME.Model.Matching', 'ME.Model.Events', 'ME.Model.EventMetrics']
    mirrors = ([('mir_eval/util.py', f) for f in ['f_measure', 'match_events', '_fast_hit_windows', '_bipartite_match', 'validate_events',
                                                  'validate_intervals', 'intervals_to_boundaries']]
               + [('mir_eval/beat.py', 'f_measure'), ('mir_eval/beat.py', 'validate'), ('mir_eval/beat.py', 'MAX_TIME'),
                  ('mir_eval/onset.py', 'f_measure'), ('mir_eval/onset.py', 'validate'), ('mir_eval/onset.py', 'MAX_TIME'),
                  ('mir_eval/segment.py', 'detection'), ('mir_eval/segment.py', 'deviation'), ('mir_eval/segment.py', 'validate_boundary')])
    counts = {'quick': 1600, 'thorough': 16000}
    shard = 250
    header = '''
Definition tol : Q := 1#1000000000.
Definition q3close (a b : Q * Q * Q) : bool :=
  let '(a1, a2, a3) := a in let '(b1, b2, b3) := b in Qclose tol a1 b1 && Qclose tol a2 b2 && Qclose tol a3 b3.
Definition x2close (a b : xval * xval) : bool := xval_eqb tol (fst a) (fst b) && xval_eqb tol (snd a) (snd b).
Definition res_opt_eqb {A} (eqb : A -> A -> bool) (m : res (option A)) (i : res A) : bool :=
  match m, i with Ok (Some a), Ok b => eqb a b | Raise e, Raise f => exn_eqb e f | _, _ => false end.
Inductive ecase :=
| CBeat (ref est : list Q) (w : Q) (out : res Q)
| COnset (ref est : list Q) (w : Q) (out : res (Q * Q * Q))
| CDet (ref est : list (Q * Q)) (w beta : Q) (trim : bool) (out : res (Q * Q * Q))
| CDev (ref est : list (Q * Q)) (trim : bool) (out : res (xval * xval)).
Definition check_case (c : ecase) : bool :=
  match c with
  | CBeat ref est w out => res_opt_eqb (Qclose tol) (beat_f_measure_v ref est w) out
  | COnset ref est w out => res_opt_eqb q3close (onset_f_measure_v ref est w) out
  | CDet ref est w beta trim out => res_opt_eqb q3close (detection ref est w beta trim) out
  | CDev ref est trim out => res_eqb x2close (deviation ref est trim) out
  end.
'''

    def __init__(self):
        self.skipped_near = 0
        self.skipped_round_exact = 0

    def exhaustive(self, tier):
        w7, w5 = frac_of(0.07), frac_of(0.05)
        half = [1, 2]
        cs = []
        for kind, w in (('beat', w7), ('onset', w5), ('beat', [4, 64]), ('onset', [0, 1])):
            for ref, est in ([[], []], [[64], []], [[], [64]], [[64], [64]], [[64], [68]], [[64], [69]], [[64, 64], [64]],
                             [[64, 128, 192], [64, 128, 192]], [[64, 128], [60, 124, 300]], [[320, 321, 322], [324, 325, 326]],
                             [[128, 64], [64]], [[64], [128, 64]], [[64 * 30000], [64 * 30000]], [[64 * 30000 + 1], [64]],
                             [[64], [64 * 30001]]):
                cs.append({'kind': kind, 'ref': ref, 'est': est, 'w': w})
        ivs = [([], []), ([[0, 32]], []), ([], [[0, 32]]), ([[0, 32]], [[0, 32]]), ([[0, 32], [32, 64]], [[0, 48], [48, 64]]),
               ([[0, 32], [32, 64], [64, 96]], [[0, 16], [16, 80], [80, 96]]), ([[0, 32], [32, 64]], [[0, 32], [32, 64]]),
               ([[0, 320], [320, 640]], [[0, 336], [336, 640]]), ([[0, 320], [320, 640]], [[0, 337], [337, 640]]),
               ([[0, 32]], [[32, 32]]), ([[-1, 32]], [[0, 32]]), ([[0, 32]], [[5, 4]]), ([[10, 20], [5, 40], [0, 7]], [[0, 7], [7, 21]])]
        for ref, est in ivs:
            for trim in (False, True):
                cs.append({'kind': 'dev', 'den': 32, 'ref': ref, 'est': est, 'trim': trim})
                for w, beta in ((half, [1, 1]), ([3, 1], [1, 1]), (half, [2, 1]), ([0, 1], [1, 2])):
                    cs.append({'kind': 'det', 'den': 32, 'ref': ref, 'est': est, 'w': w, 'beta': beta, 'trim': trim})
        # np.round really rounds: 1/64 -> 0.01562, 3/64 -> 0.04688 (half to even), both collapse with neighbours
        cs.append({'kind': 'dev', 'den': 256, 'ref': [[4, 12], [12, 300]], 'est': [[5, 11], [11, 290]], 'trim': False})
        cs.append({'kind': 'det', 'den': 256, 'ref': [[4, 12], [12, 300]], 'est': [[5, 11], [11, 290]], 'w': frac_of(0.01), 'beta': [1, 1], 'trim': False})
        return cs

    def gen(self, rng, n):
        out = []
        while len(out) < n:
            k = rng.random()
            if k < 0.28:
                w, wl = window(rng, [0.07, 0.07, 0.05, 0.2], [0, 1, 4, 5, 32])
                ref, est = gen_events(rng, w, wl)
                c = {'kind': 'beat', 'ref': ref, 'est': est, 'w': w}
            elif k < 0.56:
                w, wl = window(rng, [0.05, 0.05, 0.07, 0.1], [0, 1, 3, 4, 32])
                ref, est = gen_events(rng, w, wl)
                c = {'kind': 'onset', 'ref': ref, 'est': est, 'w': w}
            else:
                den = 256 if rng.random() < 0.15 else 32
                if rng.random() < 0.6:
                    wk = rng.choice([16, 16, 96, 0, 1, 8])      # 0.5 and 3.0 are lattice values
                    w, wl = [wk, 32], wk * den // 32
                else:
                    wf = rng.choice([0.07, 0.05, 0.3, 1.1])
                    w, wl = frac_of(wf), int(wf * den)
                ref, est = gen_intervals(rng, den, wl)
                trim = rng.random() < 0.5
                if k < 0.82:
                    beta = rng.choice([[1, 1], [1, 1], [2, 1], [1, 2], frac_of(0.58), frac_of(1.7)])
                    c = {'kind': 'det', 'den': den, 'ref': ref, 'est': est, 'w': w, 'beta': beta, 'trim': trim}
                else:
                    c = {'kind': 'dev', 'den': den, 'ref': ref, 'est': est, 'trim': trim}
            if not self.admissible(c):
                continue
            out.append(c)
        return out

    def admissible(self, c):
        if c['kind'] == 'dev':
            return True
        wq = Fraction(*c['w'])
        if c['kind'] in ('beat', 'onset'):
            near, _ = pair_stats([Fraction(k, EV_DEN) for k in c['ref']], [Fraction(k, EV_DEN) for k in c['est']], wq)
            if near:
                self.skipped_near += 1
                return False
            return True
        rb, eb = boundaries(c['ref'], c['den']), boundaries(c['est'], c['den'])
        near, exact = pair_stats(rb, eb, wq)
        if near:
            self.skipped_near += 1
            return False
        if exact and c['den'] != 32:
            # exact threshold between boundaries that are not all dyadic: float subtraction may be off by an ulp
            lat = lambda x: (x * 32).denominator == 1
            for r in rb:
                for e in eb:
                    if abs(r - e) == wq and not (lat(r) and lat(e)):
                        self.skipped_round_exact += 1
                        return False
        return True

    def run(self, case):
        import numpy as np
        import mir_eval
        k = case['kind']
        if k in ('beat', 'onset'):
            ref = np.array([x / EV_DEN for x in case['ref']], dtype=float)
            est = np.array([x / EV_DEN for x in case['est']], dtype=float)
            w = case['w'][0] / case['w'][1]
            assert Fraction(w) == Fraction(*case['w'])
            fn = mir_eval.beat.f_measure if k == 'beat' else mir_eval.onset.f_measure
            t, v = core.call_impl(fn, ref, est, w)
            if t != 'ok':
                return ['exc', v]
            out = ['ok', float(v) if k == 'beat' else [float(x) for x in v]]
            h = mir_eval.util._fast_hit_windows(ref, est, w)
            m = mir_eval.util.match_events(ref, est, w)
            return out + [greedy_size([int(a) for a in h[0]], [int(b) for b in h[1]]), len(m)]
        den = case['den']
        arr = lambda ivs: (np.array([[a / den, b / den] for a, b in ivs], dtype=float) if ivs else np.zeros((0, 2)))
        ref, est = arr(case['ref']), arr(case['est'])
        if k == 'det':
            w = case['w'][0] / case['w'][1]
            beta = case['beta'][0] / case['beta'][1]
            assert Fraction(w) == Fraction(*case['w']) and Fraction(beta) == Fraction(*case['beta']), case
            t, v = core.call_impl(mir_eval.segment.detection, ref, est, window=w, beta=beta, trim=case['trim'])
        else:
            t, v = core.call_impl(mir_eval.segment.deviation, ref, est, trim=case['trim'])
        if t != 'ok':
            return ['exc', v]
        return ['ok', [float(x) for x in v]]

    def emit(self, case, out):
        k = case['kind']
        qf = lambda x: core.cq_Q(Fraction(x))
        xv = lambda x: 'NaN' if x != x else ('PInf' if x == float('inf') else ('NInf' if x == float('-inf') else '(Fin %s)' % qf(x)))
        if k in ('beat', 'onset'):
            ql = lambda l: core.cq_list([core.cq_Q(Fraction(x, EV_DEN)) for x in l])
            if k == 'beat':
                o = core.cq_res(out, qf)
                return '(CBeat %s %s %s %s)' % (ql(case['ref']), ql(case['est']), core.cq_Q(Fraction(*case['w'])), o)
            o = core.cq_res(out, lambda v: '(%s,%s,%s)' % tuple(qf(x) for x in v))
            return '(COnset %s %s %s %s)' % (ql(case['ref']), ql(case['est']), core.cq_Q(Fraction(*case['w'])), o)
        den = case['den']
        il = lambda ivs: core.cq_list(['(%s,%s)' % (core.cq_Q(Fraction(a, den)), core.cq_Q(Fraction(b, den))) for a, b in ivs])
        if k == 'det':
            o = core.cq_res(out, lambda v: '(%s,%s,%s)' % tuple(qf(x) for x in v))
            return '(CDet %s %s %s %s %s %s)' % (il(case['ref']), il(case['est']), core.cq_Q(Fraction(*case['w'])),
                                                 core.cq_Q(Fraction(*case['beta'])), core.cq_bool(case['trim']), o)
        o = core.cq_res(out, lambda v: '(%s,%s)' % (xv(v[0]), xv(v[1])))
        return '(CDev %s %s %s %s)' % (il(case['ref']), il(case['est']), core.cq_bool(case['trim']), o)

    def nontrivial(self, case, out):
        if out[0] != 'ok':
            return False
        v = out[1]
        if case['kind'] == 'beat':
            return v > 0
        return any(x == x and x > 0 for x in v)

    def shrink(self, case):
        for key in ('ref', 'est'):
            l = case[key]
            for i in range(len(l)):
                c = dict(case)
                c[key] = l[:i] + l[i + 1:]
                yield c

    def distribution(self, pairs):
        d = {'skipped_near_threshold': self.skipped_near, 'skipped_rounded_exact_threshold': self.skipped_round_exact,
             'exact_threshold_pairs': 0, 'cases_with_exact_threshold': 0, 'greedy_lt_maximum(beat,onset)': 0}
        kinds, outs, sizes = {}, {}, {}
        for c, o in pairs:
            k = c['kind'] + (('/trim' if c['trim'] else '/notrim') if 'trim' in c else '') + ('/round' if c.get('den') == 256 else '')
            kinds[k] = kinds.get(k, 0) + 1
            if o[0] != 'ok':
                key = c['kind'] + ':' + o[1]
            elif c['kind'] == 'dev':
                key = 'dev:nan' if o[1][0] != o[1][0] else ('dev:zero' if o[1] == [0.0, 0.0] else 'dev:pos')
            else:
                f = o[1] if c['kind'] == 'beat' else (o[1][0] if c['kind'] == 'onset' else o[1][2])
                key = c['kind'] + (':F=0' if f == 0 else (':F=1' if f == 1 else ':0<F<1'))
            outs[key] = outs.get(key, 0) + 1
            if c['kind'] in ('beat', 'onset'):
                _, x = pair_stats([Fraction(a, EV_DEN) for a in c['ref']], [Fraction(a, EV_DEN) for a in c['est']], Fraction(*c['w']))
                if o[0] == 'ok' and len(o) > 3 and o[2] < o[3]:
                    d['greedy_lt_maximum(beat,onset)'] += 1
                n1, n2 = len(c['ref']), len(c['est'])
            elif c['kind'] == 'det':
                rb, eb = boundaries(c['ref'], c['den']), boundaries(c['est'], c['den'])
                if c['trim']:
                    rb, eb = rb[1:-1], eb[1:-1]
                _, x = pair_stats(rb, eb, Fraction(*c['w']))
                n1, n2 = len(rb), len(eb)
            else:
                x = 0
                n1, n2 = 2 * len(c['ref']), 2 * len(c['est'])
            d['exact_threshold_pairs'] += x
            d['cases_with_exact_threshold'] += 1 if x else 0
            s = 'n<=%d,m<=%d' % (4 * ((n1 + 3) // 4), 4 * ((n2 + 3) // 4))
            sizes[s] = sizes.get(s, 0) + 1
        d['kinds'] = kinds
        d['outcomes'] = outs
        d['sizes'] = sizes
        return d


UNIT = U()
