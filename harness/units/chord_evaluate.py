"""chord.evaluate end to end (all 15 scores, in the order of the returned OrderedDict) vs ME.Model.ChordPipeline.chord_evaluate.

Every case carries a randomly RE-CUT twin: some reference and some estimated intervals are cut at interior lattice points
(preferably at points that are boundaries of the other annotation) into consecutive pieces with the same label.  Coq
checks  model(case) ~ implementation(case),  model(twin) ~ implementation(twin)  and, for the cases the generator built
as valid annotations, model(case) ~ model(twin) (an instance of chord_evaluate_split_invariant).
Scores are compared with Qclose 1e-9 (lattice times: everything but the final divisions is exact in binary64)."""
from lib import core
from harness.units.chord_segmentation import gen_case, arr, fl, cq_x, cq_ivs, cq_labels, q, EQUIV

NAMES = ['thirds', 'thirds_inv', 'triads', 'triads_inv', 'tetrads', 'tetrads_inv', 'root', 'mirex', 'majmin', 'majmin_inv',
         'sevenths', 'sevenths_inv', 'underseg', 'overseg', 'seg']


def recut(rng, ivs, labels, den, other, p=0.5):
    """cut rows at interior points of the lattice 1/den; `other` = boundaries of the other annotation (preferred)"""
    oi, ol = [], []
    for k, (a, b) in enumerate(ivs):
        lab = labels[k] if k < len(labels) else None
        ia, ib = int(round(a * den)), int(round(b * den))
        cuts = []
        if ib - ia >= 2 and rng.random() < p:
            inside = [int(round(x * den)) for x in other if a < x < b]
            for _ in range(rng.choice([1, 1, 2, 3])):
                if inside and rng.random() < 0.5:
                    cuts.append(rng.choice(inside))
                else:
                    cuts.append(rng.randrange(ia + 1, ib))
        pts = [a] + [c / den for c in sorted(set(cuts))] + [b]
        for u, v in zip(pts[:-1], pts[1:]):
            oi.append([u, v])
            if lab is not None:
                ol.append(lab)
    # labels beyond the rows (count mismatch) are kept as they are
    ol += labels[len(ivs):]
    return oi, ol


def den_of(c):
    d = 4
    for k in ('ri', 'ei'):
        for r in c[k]:
            for x in r:
                while (x * d) != int(x * d) and d < 64:
                    d *= 2
    return d


def is_valid_annotation(ivs, labels):
    return (len(ivs) == len(labels) and len(ivs) > 0 and all(0 <= s < e for s, e in ivs)
            and all(ivs[i][1] <= ivs[i + 1][0] for i in range(len(ivs) - 1)))


VALID_LABELS = set(l for g in EQUIV for l in g)

EXHAUSTIVE = [
    {'ri': [[0.0, 1.0], [1.0, 2.0]], 'rl': ['C', 'G'], 'ei': [[0.0, 2.0]], 'el': ['C']},
    {'ri': [[0.0, 2.0]], 'rl': ['C'], 'ei': [[0.0, 1.0], [1.0, 2.0]], 'el': ['C', 'C:maj']},
    {'ri': [[0.0, 2.0], [2.0, 4.0]], 'rl': ['C:maj', 'X'], 'ei': [[0.0, 4.0]], 'el': ['C']},
    {'ri': [[0.0, 2.0], [2.0, 4.0]], 'rl': ['C:9', 'C:7(9)'], 'ei': [[0.0, 4.0]], 'el': ['C:9']},
    {'ri': [[1.0, 3.0]], 'rl': ['C'], 'ei': [[0.0, 2.0], [2.0, 5.0]], 'el': ['C', 'G']},              # cropped both sides
    {'ri': [[0.0, 4.0]], 'rl': ['C'], 'ei': [[1.0, 2.0], [2.0, 3.0]], 'el': ['C', 'G']},              # N fill both sides
    {'ri': [[0.0, 4.0]], 'rl': ['N'], 'ei': [[1.0, 2.0]], 'el': ['N']},                               # fill fuses with N
    {'ri': [[2.0, 4.0]], 'rl': ['C'], 'ei': [[0.0, 2.0]], 'el': ['C']},                               # estimate ends at t_min
    {'ri': [[2.0, 4.0]], 'rl': ['C'], 'ei': [[0.0, 1.0]], 'el': ['C']},                               # estimate below t_min
    {'ri': [[0.0, 2.0]], 'rl': ['C'], 'ei': [[2.0, 3.0]], 'el': ['C']},                               # estimate starts at t_max
    {'ri': [[0.0, 2.0]], 'rl': ['C'], 'ei': [[3.0, 4.0]], 'el': ['C']},
    {'ri': [[0.0, 2.0]], 'rl': ['C'], 'ei': [], 'el': []},
    {'ri': [], 'rl': [], 'ei': [[0.0, 1.0]], 'el': ['C']},
    {'ri': [[0.0, 2.0]], 'rl': ['X'], 'ei': [[0.0, 2.0]], 'el': ['C']},                               # nothing comparable
    {'ri': [[0.0, 1.0], [1.5, 2.0]], 'rl': ['C', 'G'], 'ei': [[0.0, 2.0]], 'el': ['C']},              # gap in the reference
    {'ri': [[0.0, 2.0]], 'rl': ['C', 'G'], 'ei': [[0.0, 2.0]], 'el': ['C']},
    {'ri': [[0.0, 2.0]], 'rl': ['C'], 'ei': [[0.0, 2.0]], 'el': []},
    {'ri': [[0.0, 2.0]], 'rl': ['H'], 'ei': [[0.0, 2.0]], 'el': ['C']},
    {'ri': [[0.0, 2.0]], 'rl': ['C'], 'ei': [[0.0, 2.0]], 'el': ['C:foo']},
    {'ri': [[-1.0, 2.0]], 'rl': ['C'], 'ei': [[0.0, 2.0]], 'el': ['C']},
    {'ri': [[0.0, 2.0], [1.0, 3.0]], 'rl': ['C', 'G'], 'ei': [[0.0, 3.0]], 'el': ['C']},
    {'ri': [[2.0, 2.0]], 'rl': ['C'], 'ei': [[0.0, 3.0]], 'el': ['C']},
]


class U(core.Unit):
    name = 'chord_evaluate'
    requires = ['ME.Model.Prelude', 'ME.Model.Intervals', 'ME.Model.ChordPipeline']
    mirrors = [('mir_eval/chord.py', f) for f in ('evaluate', 'merge_chord_intervals', 'directional_hamming_distance', 'overseg',
                                                   'underseg', 'weighted_accuracy', 'validate', 'encode_many', 'encode', 'thirds',
                                                   'thirds_inv', 'triads', 'triads_inv', 'tetrads', 'tetrads_inv', 'root', 'mirex',
                                                   'majmin', 'majmin_inv', 'sevenths', 'sevenths_inv')] + \
              [('mir_eval/util.py', f) for f in ('adjust_intervals', 'merge_labeled_intervals', 'intervals_to_durations',
                                                 'validate_intervals')]
    counts = {'quick': 900, 'thorough': 9000}
    shard = 75
    header = '''
Open Scope Q_scope.
Definition tol := (1#1000000000).
Definition scores_eqb (t : Q) (a b : res (list xval)) : bool := res_eqb (list_eqb (xval_eqb t)) a b.
Record case := { ri : list (Q * Q); rl : list str; ei : list (Q * Q); el : list str; out : res (list xval);
                 tri : list (Q * Q); trl : list str; tei : list (Q * Q); tel : list str; tout : res (list xval);
                 same : bool }.
Definition check_case (c : case) : bool :=
  let m := chord_evaluate (ri c) (rl c) (ei c) (el c) in
  let t := chord_evaluate (tri c) (trl c) (tei c) (tel c) in
  scores_eqb tol m (out c) && scores_eqb tol t (tout c) && (if same c then scores_eqb tol m t else true).
'''

    def exhaustive(self, tier):
        import random
        rng = random.Random(12)
        out = []
        for c in EXHAUSTIVE:
            out.append(self.with_twin(rng, dict(c)))
        return out

    def with_twin(self, rng, c):
        den = den_of(c)
        rb = [x for r in c['ri'] for x in r]
        eb = [x for r in c['ei'] for x in r]
        c['tri'], c['trl'] = recut(rng, c['ri'], c['rl'], den, eb, p=rng.choice([0.0, 0.5, 0.8]))
        c['tei'], c['tel'] = recut(rng, c['ei'], c['el'], den, rb, p=rng.choice([0.0, 0.5, 0.8]))
        if c['tri'] == c['ri'] and c['tei'] == c['ei']:
            c['tri'], c['trl'] = recut(rng, c['ri'], c['rl'], den, eb, p=1.0)
            c['tei'], c['tel'] = recut(rng, c['ei'], c['el'], den, rb, p=1.0)
        c['same'] = bool(is_valid_annotation(c['ri'], c['rl']) and is_valid_annotation(c['ei'], c['el'])
                         and all(l in VALID_LABELS for l in c['rl'] + c['el']))
        return c

    def gen(self, rng, n):
        out = []
        for _ in range(n):
            c = gen_case(rng, malformed=0.08)
            if rng.random() < 0.65 and len(c['rl']) == len(c['ri']) and len(c['el']) == len(c['ei']):
                # an estimate that is partly right: most rows take (a label equivalent to) the reference label at their midpoint
                for k, (a, b) in enumerate(c['ei']):
                    mid = (a + b) / 2
                    hit = [l for (s, e), l in zip(c['ri'], c['rl']) if s <= mid < e]
                    if hit and rng.random() < 0.7:
                        grp = [g for g in EQUIV if hit[0] in g]
                        c['el'][k] = rng.choice(grp[0]) if grp and rng.random() < 0.5 else hit[0]
            out.append(self.with_twin(rng, c))
        return out

    def evaluate(self, ri, rl, ei, el):
        from mir_eval import chord as C
        t, v = core.call_impl(C.evaluate, arr(ri), list(rl), arr(ei), list(el))
        if t != 'ok':
            return ['exc', v]
        if list(v.keys()) != NAMES:
            return ['exc', 'BadKeys']
        vals = [fl(('ok', v[k])) for k in NAMES]
        return ['ok', [x[1] for x in vals]]

    def run(self, case):
        return {'out': self.evaluate(case['ri'], case['rl'], case['ei'], case['el']),
                'tout': self.evaluate(case['tri'], case['trl'], case['tei'], case['tel'])}

    def emit(self, case, out):
        def sc(o):
            if o[0] != 'ok':
                return '(Raise %s)' % core.cq_exn(o[1])
            return '(Ok %s)' % core.cq_list([cq_x(['ok', v])[4:-1] for v in o[1]])
        return ('{| ri := %s; rl := %s; ei := %s; el := %s; out := %s; tri := %s; trl := %s; tei := %s; tel := %s; tout := %s; '
                'same := %s |}') % (
            cq_ivs(case['ri']), cq_labels(case['rl']), cq_ivs(case['ei']), cq_labels(case['el']), sc(out['out']),
            cq_ivs(case['tri']), cq_labels(case['trl']), cq_ivs(case['tei']), cq_labels(case['tel']), sc(out['tout']),
            core.cq_bool(case['same']))

    def nontrivial(self, case, out):
        o = out['out']
        return o[0] == 'ok' and any(isinstance(x, float) and 0 < x < 1 for x in o[1][:12]) and \
            (len(case['tri']) > len(case['ri']) or len(case['tei']) > len(case['ei']))

    def shrink(self, case):
        for iv, lb in (('ri', 'rl'), ('ei', 'el')):
            for i in range(len(case[iv])):
                c = dict(case)
                c[iv] = case[iv][:i] + case[iv][i + 1:]
                c[lb] = case[lb][:i] + case[lb][i + 1:]
                # twin := the case itself (shrinks towards model-vs-implementation disagreements)
                c['tri'], c['trl'], c['tei'], c['tel'] = c['ri'], c['rl'], c['ei'], c['el']
                yield c
        c = dict(case)
        c['ri'], c['rl'], c['ei'], c['el'] = case['tri'], case['trl'], case['tei'], case['tel']
        yield c

    def distribution(self, pairs):
        d = {}

        def inc(k):
            d[k] = d.get(k, 0) + 1
        for c, o in pairs:
            a, t = o['out'], o['tout']
            if a[0] == 'exc':
                inc('raises ' + a[1])
            else:
                acc = a[1][:12]
                inc('ok')
                if any(isinstance(x, float) and 0 < x < 1 for x in acc):
                    inc('some accuracy strictly inside (0,1)')
                if any(x == 'nan' for x in a[1]):
                    inc('nan score')
                if isinstance(a[1][14], float) and a[1][14] < 1:
                    inc('seg < 1')
            if c['same']:
                inc('valid annotations (model twin invariance checked)')
            if a[0] == 'ok' and t[0] == 'ok' and all(
                    (x == y) if isinstance(x, str) or isinstance(y, str) else abs(x - y) <= 1e-9 for x, y in zip(a[1], t[1])):
                inc('implementation: twin scores equal')
            elif a[0] == 'exc' and t == a:
                inc('implementation: twin raises the same')
            else:
                inc('implementation: twin DIFFERS')
            inc('twin cuts ref rows: %d' % min(len(c['tri']) - len(c['ri']), 4))
            inc('twin cuts est rows: %d' % min(len(c['tei']) - len(c['ei']), 4))
            rb = set(x for r in c['ri'] for x in r)
            eb = set(x for r in c['ei'] for x in r)
            if (set(x for r in c['tri'] for x in r) - rb) & eb or (set(x for r in c['tei'] for x in r) - eb) & rb:
                inc('twin cut at a boundary of the other annotation')
            if c['ri'] and c['ei']:
                if c['ei'][-1][1] > max(x for r in c['ri'] for x in r):
                    inc('estimate cropped at t_max')
                if c['ei'][-1][1] < max(x for r in c['ri'] for x in r):
                    inc('estimate filled at the end')
                if c['ei'][0][0] > min(x for r in c['ri'] for x in r):
                    inc('estimate filled at the start')
                if c['ei'][0][0] < min(x for r in c['ri'] for x in r):
                    inc('estimate cropped at t_min')
        return d


UNIT = U()
