"""transcription.{precision_recall_f1_overlap, onset_precision_recall_f1, offset_precision_recall_f1,
average_overlap_ratio, evaluate, validate, validate_intervals} and transcription_velocity.{match_notes,
precision_recall_f1_overlap, evaluate, validate} vs ME.Model.Transcription.

Scores are compared with |model - impl| <= 1e-9 (non-finite values by class), matchings and exception classes exactly.
The velocity filter decides `|slope*e + intercept - r| < tolerance` after a floating-point least-squares fit; the model
fits exactly over Q, so cases where some |...| is within 1e-7 of the tolerance are recognised on the implementation
side (same formulas, NumPy values) and skipped (counted in the distribution)."""
from fractions import Fraction
from lib import core
from harness.units.note_matching import gen_times, perturb, gen_pitch, detune, LAT_TOLS


def _arr2(x):
    import numpy as np
    return np.array(x, dtype=float).reshape(-1, 2)


def _arr1(x):
    import numpy as np
    return np.array(x, dtype=float)


def xv(x):
    """float -> ['fin', float] | ['nan'] | ['pinf'] | ['ninf']"""
    import math
    x = float(x)
    if math.isnan(x):
        return ['nan']
    if math.isinf(x):
        return ['pinf'] if x > 0 else ['ninf']
    return ['fin', x]


def cq_xv(v):
    return {'nan': 'NaN', 'pinf': 'PInf', 'ninf': 'NInf'}.get(v[0]) or '(Fin %s)' % core.cq_Q(v[1])


class U(core.Unit):
    name = 'transcription_scores'
    requires = ['ME.Model.Prelude', 'ME.Model.Dict', 'ME.Model.Matching', 'ME.Model.Events', 'ME.Model.Transcription']
    mirrors = [('mir_eval/transcription.py', f) for f in (
        'validate', 'validate_intervals', 'match_note_onsets', 'match_note_offsets', 'match_notes', 'precision_recall_f1_overlap',
        'average_overlap_ratio', 'onset_precision_recall_f1', 'offset_precision_recall_f1', 'evaluate', 'N_DECIMALS')] + \
        [('mir_eval/transcription_velocity.py', f) for f in ('validate', 'match_notes', 'precision_recall_f1_overlap', 'evaluate')] + \
        [('mir_eval/util.py', f) for f in ('f_measure', '_bipartite_match', 'intervals_to_durations', 'validate_intervals', 'filter_kwargs')]
    counts = {'quick': 1500, 'thorough': 16000}
    shard = 200
    header = '''
Definition par := (Q * Q * option Q * Q * bool)%type.
Inductive tcase :=
| CPrf (ri : list ivl) (rp : list pitch) (ei : list ivl) (ep : list pitch) (p : par) (beta : Q) (exp : res (Q * Q * Q * xval))
| COnset (ri ei : list ivl) (tol : Q) (strict : bool) (beta : Q) (exp : res (Q * Q * Q))
| COffset (ri ei : list ivl) (ratio mintol : Q) (strict : bool) (beta : Q) (exp : res (Q * Q * Q))
| CAor (ri ei : list ivl) (m : list (nat * nat)) (exp : res xval)
| CEval (ri : list ivl) (rp : list pitch) (ei : list ivl) (ep : list pitch) (p : par) (beta : Q) (exp : res (list xval))
| CVMatch (ref : list note) (rv : list Q) (est : list note) (ev : list Q) (p : par) (vtol : Q) (exp : res (list (nat * nat)))
| CVPrf (ri : list ivl) (rp : list pitch) (rv : list Q) (ei : list ivl) (ep : list pitch) (ev : list Q) (p : par) (vtol beta : Q)
        (exp : res (Q * Q * Q * xval))
| CVEval (ri : list ivl) (rp : list pitch) (rv : list Q) (ei : list ivl) (ep : list pitch) (ev : list Q) (p : par) (vtol beta : Q)
        (exp : res (list xval))
| CSkip.
Definition tol9 : Q := 1 # 1000000000.
Definition eqnn (a b : nat * nat) : bool := Nat.eqb (fst a) (fst b) && Nat.eqb (snd a) (snd b).
Definition q3_eqb (a b : Q * Q * Q) : bool :=
  let '(p, r, f) := a in let '(p', r', f') := b in Qclose tol9 p p' && Qclose tol9 r r' && Qclose tol9 f f'.
Definition q4_eqb (a b : Q * Q * Q * xval) : bool :=
  let '(x, a1) := a in let '(x', a2) := b in q3_eqb x x' && xval_eqb tol9 a1 a2.
(* the model says Ok (Some x) exactly when the implementation returned, with x close; same exception otherwise *)
Definition ro_eqb {A} (eqb : A -> A -> bool) (model : res (option A)) (impl : res A) : bool :=
  match model, impl with
  | Ok (Some a), Ok b => eqb a b
  | Raise e, Raise f => exn_eqb e f
  | _, _ => false
  end.
Definition mk_args (p : par) (beta : Q) : targs :=
  let '(otol, ptol, ratio, mintol, strict) := p in
  {| a_otol := otol; a_ptol := ptol; a_ratio := ratio; a_mintol := mintol; a_strict := strict; a_beta := beta |}.
Definition check_case (c : tcase) : bool :=
  match c with
  | CPrf ri rp ei ep (otol, ptol, ratio, mintol, strict) beta exp =>
      ro_eqb q4_eqb (precision_recall_f1_overlap ri rp ei ep otol ptol ratio mintol strict beta) exp
  | COnset ri ei tol strict beta exp => ro_eqb q3_eqb (onset_precision_recall_f1 ri ei tol strict beta) exp
  | COffset ri ei ratio mintol strict beta exp => ro_eqb q3_eqb (offset_precision_recall_f1 ri ei ratio mintol strict beta) exp
  | CAor ri ei m exp => res_eqb (xval_eqb tol9) (average_overlap_ratio ri ei m) exp
  | CEval ri rp ei ep p beta exp => ro_eqb (list_eqb (xval_eqb tol9)) (evaluate ri rp ei ep (mk_args p beta)) exp
  | CVMatch ref rv est ev (otol, ptol, ratio, mintol, strict) vtol exp =>
      ro_eqb (list_eqb eqnn) (vel_match_notes ref rv est ev otol ptol ratio mintol strict vtol) exp
  | CVPrf ri rp rv ei ep ev (otol, ptol, ratio, mintol, strict) vtol beta exp =>
      ro_eqb q4_eqb (vel_precision_recall_f1_overlap ri rp rv ei ep ev otol ptol ratio mintol strict vtol beta) exp
  | CVEval ri rp rv ei ep ev p vtol beta exp =>
      ro_eqb (list_eqb (xval_eqb tol9)) (vel_evaluate ri rp rv ei ep ev (mk_args p beta) vtol) exp
  | CSkip => true
  end.
'''

    FNS = ['prf', 'prf', 'onset', 'offset', 'aor', 'eval', 'vmatch', 'vprf', 'vprf', 'veval']

    def mk(self, fn, ref, est, otol=0.05, ptol=50.0, ratio=0.2, mintol=0.05, strict=False, beta=1.0, vtol=0.1, matching=None):
        """ref/est: [[on, off, hz, vel]]"""
        c = {'fn': fn, 'ri': [[x[0], x[1]] for x in ref], 'rp': [x[2] for x in ref], 'rv': [x[3] for x in ref],
             'ei': [[x[0], x[1]] for x in est], 'ep': [x[2] for x in est], 'ev': [x[3] for x in est],
             'otol': otol, 'ptol': ptol, 'ratio': ratio, 'mintol': mintol, 'strict': strict, 'beta': beta, 'vtol': vtol}
        if fn == 'aor':
            c['m'] = matching if matching is not None else []
        if fn == 'offset' and ratio is None:     # offset_precision_recall_f1(offset_ratio=None) is a TypeError: not modelled
            c['ratio'] = 0.2
        return c

    def exhaustive(self, tier):
        out = []
        A = 440.0
        one = [[0.0, 1.0, A, 64.0]]
        tri = [[0.0, 1.0, A, 30.0], [0.125, 1.125, A, 60.0], [0.0625, 1.0625, A, 90.0]]
        for fn in ('prf', 'onset', 'offset', 'eval', 'vprf', 'veval', 'vmatch'):
            for strict in (False, True):
                out.append(self.mk(fn, [], [], strict=strict))
                out.append(self.mk(fn, one, [], strict=strict))
                out.append(self.mk(fn, [], one, strict=strict))
                out.append(self.mk(fn, one, one, strict=strict))
                # perfect estimate whose maximum matching is not the identity: AOR < 1
                out.append(self.mk(fn, tri, tri, otol=1 / 16., mintol=0.25, strict=strict))
                out.append(self.mk(fn, tri, tri, otol=1 / 16., mintol=0.25, ratio=None, strict=strict))
                # negative overlap ratio: matched but disjoint notes
                out.append(self.mk(fn, [[0.0, 1 / 64., A, 64.0]], [[3 / 64., 4 / 64., A, 64.0]], strict=strict))
                # beta
                for beta in (0.5, 2.0, 0.0):
                    out.append(self.mk(fn, tri, tri[:2] + [[5.0, 6.0, A, 10.0]], beta=beta, strict=strict))
                # invalid inputs
                out.append(self.mk(fn, [[1.0, 1.0, A, 1.0]], one, strict=strict))
                out.append(self.mk(fn, one, [[2.0, 1.0, A, 1.0]], strict=strict))
                out.append(self.mk(fn, [[-1.0, 1.0, A, 1.0]], one, strict=strict))
                if fn != 'vmatch':      # np.log2 of a non-positive pitch: outside the model of match_notes
                    out.append(self.mk(fn, [[0.0, 1.0, 0.0, 1.0]], one, strict=strict))
                    out.append(self.mk(fn, one, [[0.0, 1.0, -5.0, 1.0]], strict=strict))
                out.append(self.mk(fn, [[0.0, 1.0, A, -1.0]], one, strict=strict))
                out.append(self.mk(fn, one, [[0.0, 1.0, A, -1.0]], strict=strict))
                for key in (('rv', 'ev') if fn == 'vmatch' else ('rp', 'ep', 'rv', 'ev')):
                    c = self.mk(fn, tri, tri, strict=strict)
                    c[key] = c[key][:-1]
                    out.append(c)
                    c = self.mk(fn, tri, tri, strict=strict)
                    c[key] = c[key] + [100.0]
                    out.append(c)
        # velocities: regression cases
        base = [[float(i), float(i) + 0.5, A, 0.0] for i in range(4)]
        for rv, ev in (([10, 50, 90, 127], [10, 50, 90, 127]), ([10, 50, 90, 127], [20, 60, 100, 120]), ([0, 0, 0, 0], [5, 6, 7, 8]),
                       ([10, 50, 90, 127], [64, 64, 64, 64]), ([10, 10, 10, 10], [64, 64, 64, 64]), ([10, 50, 90, 127], [127, 90, 50, 10]),
                       ([10, 50, 90, 127], [0, 0, 0, 127]), ([10, 11, 10, 11], [3, 100, 3, 100]), ([0, 127, 64, 64], [0, 0, 0, 0])):
            for fn in ('vmatch', 'vprf', 'veval'):
                for vtol in (0.1, 0.3, 0.02):
                    ref = [b[:3] + [float(v)] for b, v in zip(base, rv)]
                    est = [b[:3] + [float(v)] for b, v in zip(base, ev)]
                    out.append(self.mk(fn, ref, est, vtol=vtol))
                    out.append(self.mk(fn, ref[:1], est[:1], vtol=vtol))
                    out.append(self.mk(fn, ref[:2], est[:2], vtol=vtol))
        # average_overlap_ratio on its own (no validation: zero denominators, bad indices)
        iv = [[0.0, 1.0, A, 1.0], [0.5, 2.0, A, 1.0], [3.0, 3.0, A, 1.0], [2.0, 1.0, A, 1.0]]
        for m in ([], [[0, 0]], [[0, 1], [1, 0]], [[2, 2]], [[0, 0], [2, 2]], [[3, 3]], [[0, 4]], [[4, 0]], [[0, 0], [9, 9]], [[2, 2], [3, 2], [2, 3]]):
            out.append(self.mk('aor', iv, iv, matching=m))
        out.append(self.mk('aor', [[1.0, 1.0, A, 1.0], [0.0, 2.0, A, 1.0]], [[1.0, 1.0, A, 1.0], [3.0, 3.0, A, 1.0]], matching=[[0, 0], [1, 1]]))
        # zero denominator with negative numerator: -inf; mixed with a finite ratio and with nan
        out.append(self.mk('aor', [[1.0, 1.0, A, 1.0]], [[2.0, 1.0, A, 1.0]], matching=[[0, 0]]))
        out.append(self.mk('aor', [[1.0, 1.0, A, 1.0], [0.0, 1.0, A, 1.0]], [[2.0, 1.0, A, 1.0], [0.0, 2.0, A, 1.0]], matching=[[0, 0], [1, 1]]))
        out.append(self.mk('aor', [[1.0, 1.0, A, 1.0], [0.0, 1.0, A, 1.0]], [[2.0, 1.0, A, 1.0], [1.0, 1.0, A, 1.0]], matching=[[0, 0], [0, 1]]))
        out.append(self.mk('aor', [[1.0, 1.0, A, 1.0], [3.0, 4.0, A, 1.0]], [[1.0, 1.0, A, 1.0], [0.0, 0.0, A, 1.0]], matching=[[1, 1], [0, 0]]))
        return out

    def gen(self, rng, n):
        out = []
        for _ in range(n):
            fn = rng.choice(self.FNS)
            mode = rng.choice(['lattice', 'lattice', 'decimal', 'float'])
            pmode = rng.choice(['exact', 'semitone', 'few', 'few', 'float'])
            nr = rng.choice([0, 1, 2, 3, 3, 4, 4, 5, 6, 7])
            if rng.random() < 0.3 and nr > 0:
                b = gen_times(rng, 1, mode)[0]
                times = [[perturb(rng, b[0], mode), perturb(rng, b[1], mode)] for _ in range(nr)]
                times = [t if t[1] > t[0] else [t[0], t[0] + 0.5] for t in times]
            else:
                times = gen_times(rng, nr, mode)
            p0 = gen_pitch(rng, pmode)
            vmode = rng.choice(['same', 'linear', 'random', 'random', 'const'])
            ref = [[t[0], t[1], p0 if rng.random() < 0.6 else gen_pitch(rng, pmode), float(rng.randint(0, 127))] for t in times]
            est = []
            a, b = rng.choice([(1, 0), (0.5, 10), (2, -5), (1, 20)])
            cv = float(rng.randint(0, 127))
            for r in ref:
                for _ in range(rng.choice([0, 1, 1, 1, 1, 2])):
                    on = perturb(rng, r[0], mode)
                    off = perturb(rng, r[1], mode)
                    if off <= on:
                        off = on + (r[1] - r[0])
                    if vmode == 'same':
                        v = r[3]
                    elif vmode == 'linear':
                        v = float(max(0, min(127, round(a * r[3] + b + rng.choice([0, 0, 0, 3, -3, 30, -30])))))
                    elif vmode == 'const':
                        v = cv
                    else:
                        v = float(rng.randint(0, 127))
                    est.append([on, off, detune(rng, r[2], pmode), v])
            for _ in range(rng.choice([0, 0, 0, 1, 2])):
                t = gen_times(rng, 1, mode)[0]
                est.append([t[0], t[1], gen_pitch(rng, pmode), float(rng.randint(0, 127))])
            rng.shuffle(est)
            est = est[:8]
            if mode == 'lattice':
                otol, mintol, ratio = rng.choice(LAT_TOLS + [0.05]), rng.choice(LAT_TOLS + [0.05]), rng.choice([0.25, 0.5, 0.125, 0.2])
            elif mode == 'decimal':
                otol, mintol, ratio = rng.choice([0.05, 0.05, 0.1, 0.3]), rng.choice([0.05, 0.05, 0.1]), rng.choice([0.2, 0.2, 0.1, 0.3])
            else:
                otol, mintol, ratio = rng.choice([0.05, rng.uniform(0.01, 0.2)]), rng.choice([0.05, rng.uniform(0.01, 0.2)]), rng.choice([0.2, rng.uniform(0.01, 0.6)])
            ptol = rng.choice([18.75, 37.5, 75.0, 50.0]) if pmode == 'exact' else rng.choice([50.0, 50.0, 100.0, 25.0])
            if fn not in ('offset',) and rng.random() < 0.3:
                ratio = None
            c = self.mk(fn, ref, est, otol=otol, ptol=ptol, ratio=ratio, mintol=mintol, strict=rng.random() < 0.5,
                        beta=rng.choice([1.0, 1.0, 0.5, 2.0]), vtol=rng.choice([0.1, 0.1, 0.05, 0.2, 0.5]))
            if fn == 'aor':
                k = rng.randint(0, 4)
                c['m'] = [[rng.randrange(len(ref)), rng.randrange(len(est))] for _ in range(k)] if ref and est else []
                if rng.random() < 0.1:
                    c['m'].append([len(ref) + rng.randint(0, 1), 0])
            # malformed stream
            if rng.random() < 0.1:
                kind = rng.choice(['len', 'len', 'pitch', 'vel', 'ivl', 'ivl'])
                side = rng.choice(['r', 'e'])
                if kind == 'len':
                    key = side + rng.choice(['p', 'v'])
                    c[key] = c[key][:-1] if (c[key] and rng.random() < 0.5) else c[key] + [64.0]
                elif kind == 'pitch' and c[side + 'p']:
                    c[side + 'p'][rng.randrange(len(c[side + 'p']))] = rng.choice([0.0, -440.0])
                elif kind == 'vel' and c[side + 'v']:
                    c[side + 'v'][rng.randrange(len(c[side + 'v']))] = -1.0
                elif kind == 'ivl' and c[side + 'i']:
                    i = rng.randrange(len(c[side + 'i']))
                    x = c[side + 'i'][i]
                    c[side + 'i'][i] = rng.choice([[x[0], x[0]], [x[1], x[0]], [-0.5, x[1]]])
            if fn == 'vmatch':
                # the model of match_notes takes zipped notes: keep intervals and pitches of equal length
                c['rp'] = (c['rp'] + [440.0] * len(c['ri']))[:len(c['ri'])]
                c['ep'] = (c['ep'] + [440.0] * len(c['ei']))[:len(c['ei'])]
                c['rp'] = [p if p > 0 else 440.0 for p in c['rp']]
                c['ep'] = [p if p > 0 else 440.0 for p in c['ep']]
            out.append(c)
        return out

    def _near_threshold(self, c, _second=False):
        """True when the floating-point velocity decision is within 1e-7 of the tolerance (same formulas as the code)."""
        if c['fn'] == 'veval' and c['ratio'] is not None and not _second:
            # evaluate() also runs the matching without offsets
            if self._near_threshold(dict(c, ratio=None), True):
                return True
        import numpy as np
        from mir_eval import transcription as T
        try:
            m = T.match_notes(_arr2(c['ri']), _arr1(c['rp']), _arr2(c['ei']), _arr1(c['ep']), c['otol'], c['ptol'], c['ratio'], c['mintol'], c['strict'])
            rv, ev = _arr1(c['rv']), _arr1(c['ev'])
            mn, mx = np.min(rv), np.max(rv)
            rv = (rv - mn) / float(max(1, mx - mn))
            m = np.array(m)
            if m.size == 0:
                return False
            r, e = rv[m[:, 0]], ev[m[:, 1]]
            s, i = np.linalg.lstsq(np.vstack([e, np.ones(len(e))]).T, r, rcond=None)[0]
            d = np.abs(s * e + i - r)
            return bool(np.any(np.abs(d - c['vtol']) < 1e-7))
        except Exception:  # noqa
            return False

    def run(self, c):
        import warnings
        import numpy as np
        from mir_eval import transcription as T, transcription_velocity as TV
        ri, ei, rp, ep, rv, ev = _arr2(c['ri']), _arr2(c['ei']), _arr1(c['rp']), _arr1(c['ep']), _arr1(c['rv']), _arr1(c['ev'])
        kw = dict(onset_tolerance=c['otol'], pitch_tolerance=c['ptol'], offset_ratio=c['ratio'], offset_min_tolerance=c['mintol'], strict=c['strict'])
        fn = c['fn']
        with warnings.catch_warnings():
            warnings.simplefilter('ignore')
            with np.errstate(all='ignore'):
                lr = [float(np.log2(rp)[k]) if rp[k] > 0 else 0.0 for k in range(len(rp))]
                le = [float(np.log2(ep)[k]) if ep[k] > 0 else 0.0 for k in range(len(ep))]
                if fn in ('vmatch', 'vprf', 'veval') and self._near_threshold(c):
                    return {'skip': True}
                if fn == 'prf':
                    t, v = core.call_impl(T.precision_recall_f1_overlap, ri, rp, ei, ep, beta=c['beta'], **kw)
                    val = [float(v[0]), float(v[1]), float(v[2]), xv(v[3])] if t == 'ok' else v
                elif fn == 'onset':
                    t, v = core.call_impl(T.onset_precision_recall_f1, ri, ei, onset_tolerance=c['otol'], strict=c['strict'], beta=c['beta'])
                    val = [float(x) for x in v] if t == 'ok' else v
                elif fn == 'offset':
                    t, v = core.call_impl(T.offset_precision_recall_f1, ri, ei, offset_ratio=c['ratio'], offset_min_tolerance=c['mintol'],
                                          strict=c['strict'], beta=c['beta'])
                    val = [float(x) for x in v] if t == 'ok' else v
                elif fn == 'aor':
                    t, v = core.call_impl(T.average_overlap_ratio, ri, ei, [tuple(p) for p in c['m']])
                    val = xv(v) if t == 'ok' else v
                elif fn == 'eval':
                    t, v = core.call_impl(T.evaluate, ri, rp, ei, ep, beta=c['beta'], **kw)
                    val = [[k, xv(x)] for k, x in v.items()] if t == 'ok' else v
                elif fn == 'vmatch':
                    t, v = core.call_impl(TV.match_notes, ri, rp, rv, ei, ep, ev, velocity_tolerance=c['vtol'], **kw)
                    val = [[int(a), int(b)] for a, b in v] if t == 'ok' else v
                elif fn == 'vprf':
                    t, v = core.call_impl(TV.precision_recall_f1_overlap, ri, rp, rv, ei, ep, ev, velocity_tolerance=c['vtol'], beta=c['beta'], **kw)
                    val = [float(v[0]), float(v[1]), float(v[2]), xv(v[3])] if t == 'ok' else v
                else:
                    t, v = core.call_impl(TV.evaluate, ri, rp, rv, ei, ep, ev, velocity_tolerance=c['vtol'], beta=c['beta'], **kw)
                    val = [[k, xv(x)] for k, x in v.items()] if t == 'ok' else v
        return {'lr': lr, 'le': le, 'res': [t, val]}

    def emit(self, c, out):
        if out.get('skip'):
            return 'CSkip'
        q = core.cq_Q
        L = core.cq_list
        ivs = lambda l: L(['(%s,%s)' % (q(x[0]), q(x[1])) for x in l])
        ps = lambda l, lp: L(['(%s,%s)' % (q(x), q(y)) for x, y in zip(l, lp)])
        qs = lambda l: L([q(x) for x in l])
        notes = lambda iv, lp: L(['((%s,%s),%s)' % (q(x[0]), q(x[1]), q(y)) for x, y in zip(iv, lp)])
        par = '(%s,%s,%s,%s,%s)' % (q(c['otol']), q(c['ptol']), core.cq_opt(c['ratio'], q), q(c['mintol']), core.cq_bool(c['strict']))
        r = out['res']
        f4 = lambda v: '(%s,%s,%s,%s)' % (q(v[0]), q(v[1]), q(v[2]), cq_xv(v[3]))
        f3 = lambda v: '(%s,%s,%s)' % (q(v[0]), q(v[1]), q(v[2]))
        fl = lambda v: L([cq_xv(x) for _, x in v])
        fm = lambda v: L(['(%d,%d)' % (a, b) for a, b in v]) + '%nat'
        fn = c['fn']
        ri, ei, rp, ep = ivs(c['ri']), ivs(c['ei']), ps(c['rp'], out['lr']), ps(c['ep'], out['le'])
        rv, ev = qs(c['rv']), qs(c['ev'])
        if fn == 'prf':
            return '(CPrf %s %s %s %s %s %s %s)' % (ri, rp, ei, ep, par, q(c['beta']), core.cq_res(r, f4))
        if fn == 'onset':
            return '(COnset %s %s %s %s %s %s)' % (ri, ei, q(c['otol']), core.cq_bool(c['strict']), q(c['beta']), core.cq_res(r, f3))
        if fn == 'offset':
            return '(COffset %s %s %s %s %s %s %s)' % (ri, ei, q(c['ratio']), q(c['mintol']), core.cq_bool(c['strict']), q(c['beta']), core.cq_res(r, f3))
        if fn == 'aor':
            return '(CAor %s %s %s %s)' % (ri, ei, fm(c['m']), core.cq_res(r, cq_xv))
        if fn == 'eval':
            return '(CEval %s %s %s %s %s %s %s)' % (ri, rp, ei, ep, par, q(c['beta']), core.cq_res(r, fl))
        if fn == 'vmatch':
            return '(CVMatch %s %s %s %s %s %s %s)' % (notes(c['ri'], out['lr']), rv, notes(c['ei'], out['le']), ev, par, q(c['vtol']), core.cq_res(r, fm))
        if fn == 'vprf':
            return '(CVPrf %s %s %s %s %s %s %s %s %s %s)' % (ri, rp, rv, ei, ep, ev, par, q(c['vtol']), q(c['beta']), core.cq_res(r, f4))
        return '(CVEval %s %s %s %s %s %s %s %s %s %s)' % (ri, rp, rv, ei, ep, ev, par, q(c['vtol']), q(c['beta']), core.cq_res(r, fl))

    def nontrivial(self, c, out):
        if out.get('skip') or out['res'][0] != 'ok':
            return False
        v = out['res'][1]
        if c['fn'] in ('prf', 'vprf', 'onset', 'offset'):
            return v[0] > 0
        return bool(v)

    def shrink(self, c):
        n, m = len(c['ri']), len(c['ei'])
        for i in range(n):
            d = dict(c)
            for k in ('ri', 'rp', 'rv'):
                d[k] = c[k][:i] + c[k][i + 1:]
            if c['fn'] != 'aor':
                yield d
        for i in range(m):
            d = dict(c)
            for k in ('ei', 'ep', 'ev'):
                d[k] = c[k][:i] + c[k][i + 1:]
            if c['fn'] != 'aor':
                yield d
        if c['fn'] == 'aor':
            for i in range(len(c['m'])):
                d = dict(c)
                d['m'] = c['m'][:i] + c['m'][i + 1:]
                yield d

    def distribution(self, pairs):
        d = {}

        def inc(k):
            d[k] = d.get(k, 0) + 1
        for c, o in pairs:
            inc('fn=' + c['fn'])
            if o.get('skip'):
                inc('skipped (velocity decision within 1e-7 of tolerance)')
                continue
            r = o['res']
            if r[0] == 'exc':
                inc('exc=' + r[1])
                continue
            v = r[1]
            if c['fn'] in ('prf', 'vprf'):
                inc('P=0' if v[0] == 0 else 'P=1' if v[0] == 1 else '0<P<1')
                a = v[3]
                inc('AOR ' + ('nonfinite' if a[0] != 'fin' else '<0' if a[1] < 0 else '=0' if a[1] == 0 else '=1' if a[1] == 1 else 'in (0,1)'))
            if c['fn'] in ('vmatch',):
                inc('vmatch kept=%s' % ('0' if not v else '1-2' if len(v) <= 2 else '3+'))
            if c['fn'] == 'aor':
                inc('aor ' + v[0])
            if c['fn'] in ('eval', 'veval'):
                inc('%s keys=%d' % (c['fn'], len(v)))
        return d


UNIT = U()
