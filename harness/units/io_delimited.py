"""io.load_delimited vs ME.Model.IO.load_delimited on generated annotation text, through io.StringIO AND through a real
path under /verif/build/tmpfiles.

What is compared, all inside Coq:
  * the returned columns: floats bit-identically (IEEE-754 bit pattern as an integer, plus the exact rational value),
    strings by character codes, the list-vs-tuple shape of the result ("Single" / "Cols");
  * exceptions: class, and the row number that the message names (`...:<row>:\\n\\t<line>`);
  * the sub-models directly against the Python runtime: `lines text` = list(StringIO(text)),
    `is_comment` = commenter.match(line), `re_split d maxsplit (strip line)` = splitter.split(line.strip(), maxsplit).
`float()` is not mir_eval code: the converter handed to load_delimited is a recording wrapper around `float`
(`__name__ == 'float'`), and the recorded (token -> result) table is the model's `conv`. A token the model asks for
that Python never converted evaluates to a poison value, so a different tokenisation cannot go unnoticed.
Universal-newline translation is outside the model: texts containing "\\r" are only run through StringIO."""
import io as pyio
import os
import re
import shutil
import struct
from fractions import Fraction
from lib import core

TMP = os.path.join(core.BUILD, 'tmpfiles')

WS_CODES = [9, 10, 11, 12, 13, 28, 29, 30, 31, 32, 133, 160, 5760] + list(range(8192, 8203)) + [8232, 8233, 8239, 8287, 12288]
WS_RE = '(Star (oneof (n2s [%s]%%N)))' % ';'.join(map(str, WS_CODES))

# name -> (python regex, Coq delim)
DELIMS = {
    'ws+': (r'\s+', 'DPlus CWs'),
    'comma': (',', 'DOne (CLit 44)'),
    'tab': ('\t', 'DOne (CLit 9)'),
    'tab_esc': (r'\t', 'DOne (CLit 9)'),
    'ws1': (r'\s', 'DOne CWs'),
    'comma+': (',+', 'DPlus (CLit 44)'),
    'semi': (';', 'DOne (CLit 59)'),
    'space': (' ', 'DOne (CLit 32)'),
    'pipe': (r'\|', 'DOne (CLit 124)'),
    'space+': (' +', 'DPlus (CLit 32)'),
}
# name -> (python comment argument, Coq option re)
COMMENTS = {
    '#': ('#', '(Some (Chr 35))'),
    'none': (None, 'None'),
    '%': ('%', '(Some (Chr 37))'),
    '//': ('//', '(Some (Cat (Chr 47) (Chr 47)))'),
    '#|%': ('#|%', '(Some (Alt (Chr 35) (Chr 37)))'),
    'ws*#': (r'\s*#', '(Some (Cat %s (Chr 35)))' % WS_RE),
    'empty': ('', '(Some Eps)'),
}
CONVS = ['f', 's', 'ff', 'fs', 'fff', 'ffs', 'ss', 'sf', 'fsf', 'sss', 'ffff', 'fffs', '']
MAIN_DELIMS = ['ws+', 'ws+', 'ws+', 'comma', 'comma', 'tab', 'tab_esc']


def bits(x):
    return int.from_bytes(struct.pack('>d', x), 'big')


def cq_s(s):
    """a str as character codes, written as binary numbers (unary nat literals make coqc crawl) and converted in Coq"""
    return '(n2s [%s]%%N)' % ';'.join(str(ord(c)) for c in s)


def cq_xval(x):
    if x != x:
        return 'NaN'
    if x == float('inf'):
        return 'PInf'
    if x == float('-inf'):
        return 'NInf'
    return '(Fin %s)' % core.cq_Q(Fraction(x))


def cq_num(x):
    return '(%d%%Z,%s)' % (bits(x), cq_xval(x))


def cq_num_enc(e):
    """e = [bits, 'nan'|'inf'|'-inf'|[num, den]] (JSON-able encoding of a float)"""
    b, v = e
    if v == 'nan':
        xv = 'NaN'
    elif v == 'inf':
        xv = 'PInf'
    elif v == '-inf':
        xv = 'NInf'
    else:
        xv = '(Fin (%d#%d))' % (v[0], v[1])
    return '(%d%%Z,%s)' % (b, xv)


def enc_float(x):
    x = float(x)
    if x != x:
        v = 'nan'
    elif x in (float('inf'), float('-inf')):
        v = 'inf' if x > 0 else '-inf'
    else:
        f = Fraction(x)
        v = [f.numerator, f.denominator]
    return [bits(x), v]


class Recorder:
    """float with a memory; load_delimited only needs a callable with a __name__"""

    def __init__(self):
        self.table = {}
        self.__name__ = 'float'

    def __call__(self, s):
        try:
            v = float(s)
        except ValueError:
            self.table[s] = None
            raise
        self.table[s] = enc_float(v)
        return v


ROW_RE = re.compile(r':(\d+):\n\t')


def outcome_of(fn):
    """('ok', value) | ('exc', class, row or None)"""
    try:
        return ['ok', fn()]
    except Exception as e:  # noqa
        m = ROW_RE.search(str(e)) if e.args and isinstance(e.args[0], str) else None
        return ['exc', type(e).__name__, int(m.group(1)) if m else None]


def enc_columns(res, nconv):
    """the value load_delimited returned -> ['single'|'cols', [[enc value]]]"""
    def ev(v):
        if isinstance(v, float):
            return ['f', enc_float(v)]
        assert isinstance(v, str), type(v)
        return ['s', v]
    if isinstance(res, list):
        assert nconv == 1
        return ['single', [[ev(v) for v in res]]]
    assert isinstance(res, tuple) and all(isinstance(c, list) for c in res)
    return ['cols', [[ev(v) for v in c] for c in res]]


def cq_value(v):
    return '(VNum %s)' % cq_num_enc(v[1]) if v[0] == 'f' else '(VStr %s)' % cq_s(v[1])


def cq_ldret(r):
    kind, cols = r
    cs = [core.cq_list([cq_value(v) for v in c]) for c in cols]
    return '(Single %s)' % cs[0] if kind == 'single' else '(Cols %s)' % core.cq_list(cs)


def cq_rres(out, f):
    if out[0] == 'ok':
        return '(ROk %s)' % f(out[1])
    if out[2] is None:
        return '(RaiseNoRow %s)' % core.cq_exn(out[1])
    return '(RaiseAt %d %s)' % (out[2], core.cq_exn(out[1]))


def cq_table(tab):
    return core.cq_list(['(%s,%s)' % (cq_s(k), 'None' if v is None else '(Some %s)' % cq_num_enc(v))
                         for k, v in tab])


def tmp_path(tag):
    d = os.path.join(TMP, '%s_%d' % (tag, os.getpid()))
    os.makedirs(d, exist_ok=True)
    return d


def write_text(path, text):
    with open(path, 'w', encoding='utf-8', newline='') as f:
        f.write(text)


# ------------------------------------------------------------------------------------------------
# generators (shared with io_wrappers)
# ------------------------------------------------------------------------------------------------
def rnd_float_text(rng, lattice=False):
    r = rng.random()
    if lattice or r < 0.3:
        x = rng.randint(-40, 4000) / rng.choice([1, 2, 4, 8, 64])
        return repr(x)
    if r < 0.4:
        return str(rng.randint(-50, 5000))
    if r < 0.55:
        return repr(struct.unpack('>d', struct.pack('>Q', rng.getrandbits(64)))[0]).replace('nan', '1e-320').replace('inf', '2e+300')
    if r < 0.65:
        return '%.*e' % (rng.randint(0, 17), rng.uniform(-1, 1) * 10 ** rng.randint(-300, 300))
    if r < 0.72:
        return rng.choice(['-', '+', '']) + rng.choice(['1E5', '2.5e-3', '1e+2', '.5', '5.', '0', '-0.0', '1_000.25', '00012.50',
                                                         '4.9e-324', '1.7976931348623157e308', '0.1000000000000000055511151231257827',
                                                         '123456789012345678901234567890', '9007199254740993', '1e-400', '0.30000000000000004'])
    if r < 0.95:
        return repr(round(rng.uniform(0, 600), rng.randint(0, 6)))
    return rng.choice(['inf', 'nan', '-inf', 'Infinity', 'NaN', '1e999', '-1e999'])


LABEL_WORDS = ['C:maj', 'N', 'verse', 'chorus', 'A', 'b', 'Silence', 'E:min7/b3', 'intro', 'café', 'αβ', 'ж',
               '1', '2.5', '#', '#1', 'a#b', ',', 'x,y', ';', '|', '%', '//', '"q"', "'", '(1)', 'naïve', 'ü', '1e5', '-']
INNER_WS = [' ', '  ', '\t', ' \t', '\u00a0', '\u2003', '\u3000', '\x0b', '\x0c', '\x1c', '\x85', '\u2028', '\u1680']


def rnd_label(rng):
    k = rng.choice([1, 1, 1, 2, 2, 3])
    s = rng.choice(LABEL_WORDS)
    for _ in range(k - 1):
        s += rng.choice(INNER_WS if rng.random() < 0.85 else [',', ', ', ';']) + rng.choice(LABEL_WORDS)
    return s


def sep_for(rng, dname):
    if dname == 'ws+':
        r = rng.random()
        if r < 0.45:
            return ' '
        if r < 0.7:
            return '\t'
        return rng.choice(['  ', ' \t ', '\t\t', '\u00a0', '\u2003', '\u3000', '\x0b', '\x0c', ' \x1c', '\x85', '\u2028', ' \u1680 ', '\x1f'])
    if dname == 'ws1':
        return rng.choice([' ', '\t', '\u00a0', '\x0c'])
    if dname in ('comma', 'comma+'):
        return ',' if dname == 'comma' or rng.random() < 0.6 else ',,'
    if dname in ('tab', 'tab_esc'):
        return '\t'
    if dname == 'semi':
        return ';'
    if dname in ('space', 'space+'):
        return ' ' if dname == 'space' or rng.random() < 0.6 else '   '
    if dname == 'pipe':
        return '|'
    raise KeyError(dname)


def rnd_token(rng, c, lattice=False):
    return rnd_float_text(rng, lattice) if c == 'f' else rnd_label(rng)


def rnd_row(rng, convs, dname, lattice=False):
    toks = [rnd_token(rng, c, lattice) for c in convs]
    if not toks:
        return ''
    s = toks[0]
    for t in toks[1:]:
        s += sep_for(rng, dname) + t
    return s


def comment_line(rng, cname):
    mark = {'#': '#', 'none': '#', '%': '%', '//': '//', '#|%': rng.choice('#%'), 'ws*#': rng.choice(['#', ' #', '\t #']),
            'empty': ''}[cname]
    return mark + rng.choice(['', ' a comment', ' 1.0 2.0 x', 'comment', ' onset\toffset\tlabel', '#', ' café'])


CORRUPTIONS = ['drop_col', 'add_col', 'damage_num', 'comment_mid', 'lead_ws', 'lead_ws_comment', 'blank', 'ws_only',
               'merge_rows', 'insert_char', 'trail_delim', 'lead_delim', 'double_delim', 'trail_ws', 'cr']


def corrupt(rng, kind, rows, convs, dname, cname):
    """rows: list of line strings (without newline); returns a new list with one fault in one row"""
    rows = list(rows)
    if not rows:
        rows = ['']
    i = rng.randrange(len(rows))
    line = rows[i]
    sep = sep_for(rng, dname)
    mark = COMMENTS[cname][0] or '#'
    if '|' in mark or '\\' in mark:
        mark = '#'
    if kind == 'drop_col':
        parts = re.split(DELIMS[dname][0], line)
        if len(parts) > 1:
            j = rng.randrange(len(parts))
            del parts[j]
            line = sep.join(parts)
        else:
            line = ''
    elif kind == 'add_col':
        j = rng.choice(['front', 'back', 'mid'])
        extra = rnd_float_text(rng, True) if rng.random() < 0.7 else rnd_label(rng)
        if j == 'front':
            line = extra + sep + line
        elif j == 'back':
            line = line + sep + extra
        else:
            k = rng.randrange(len(line) + 1)
            line = line[:k] + sep + extra + sep + line[k:]
    elif kind == 'damage_num':
        k = rng.randrange(len(line) + 1)
        line = line[:k] + rng.choice(['x', '..', 'e', '-', '--', 'O', ':', '0x', '_', '__', 'e+', ' ', 'f']) + line[k:]
    elif kind == 'comment_mid':
        k = rng.randrange(1, len(line) + 1) if line else 0
        line = line[:k] + rng.choice([mark, ' ' + mark, mark + ' rest', ' ' + mark + ' rest']) + line[k:]
    elif kind == 'lead_ws':
        line = rng.choice([' ', '\t', '   ', '\u00a0', '\x0c']) + line
    elif kind == 'lead_ws_comment':
        line = rng.choice([' ', '\t', '  ']) + mark + ' ' + line
    elif kind == 'blank':
        rows.insert(i, '')
        return rows
    elif kind == 'ws_only':
        rows.insert(i, rng.choice([' ', '\t', ' \t ', '\x0c']))
        return rows
    elif kind == 'merge_rows':
        if len(rows) > 1:
            i = min(i, len(rows) - 2)
            rows[i:i + 2] = [rows[i] + rng.choice(['', ' ', sep]) + rows[i + 1]]
            return rows
        line = line + sep + line
    elif kind == 'insert_char':
        k = rng.randrange(len(line) + 1)
        line = line[:k] + rng.choice(' \t,;#%/|.-e1\u00a0\x0c') + line[k:]
    elif kind == 'trail_delim':
        line = line + sep
    elif kind == 'lead_delim':
        line = sep + line
    elif kind == 'double_delim':
        k = line.find(sep)
        if k >= 0:
            line = line[:k] + sep + line[k:]
        else:
            line = line + sep + sep
    elif kind == 'trail_ws':
        line = line + rng.choice([' ', '\t', '  ', '\u00a0'])
    elif kind == 'cr':
        line = line + '\r'
    rows[i] = line
    return rows


def assemble(rng, rows):
    """lines -> text; the last line sometimes lacks its newline"""
    if not rows:
        return ''
    text = '\n'.join(rows)
    if rng.random() < 0.75:
        text += '\n'
    return text


def rnd_file(rng, convs, dname, cname, lattice=False, max_rows=5):
    """a well-formed file (as list of lines) with comment lines interleaved"""
    n = rng.choice([0, 1, 1, 2, 2, 3, 3, 4, max_rows])
    rows = []
    for _ in range(n):
        if rng.random() < 0.2 and cname != 'none':
            rows.append(comment_line(rng, cname))
        rows.append(rnd_row(rng, convs, dname, lattice))
        if rng.random() < 0.3:
            rows[-1] = rows[-1] + rng.choice([' ', '\t', ''])            # trailing blanks are stripped
    if rng.random() < 0.15 and cname != 'none':
        rows.append(comment_line(rng, cname))
    return rows


# ------------------------------------------------------------------------------------------------
class U(core.Unit):
    name = 'io_delimited'
    requires = ['ME.Model.Prelude', 'ME.Model.Regex', 'ME.Model.ChordParse', 'ME.Model.IO']
    mirrors = [('mir_eval/io.py', 'load_delimited'), ('mir_eval/io.py', '_open')]
    counts = {'quick': 2400, 'thorough': 16000}
    shard = 150
    header = '''
Definition n2s (l : list N) : str := map N.to_nat l.
Definition num := (Z * xval)%type.
Definition poison : num := ((-1)%Z, NaN).
Fixpoint tab_conv (tab : list (str * option num)) (s : str) : option num :=
  match tab with [] => Some poison | (k, v) :: t => if seqb k s then v else tab_conv t s end.
Definition xv_eqb (a b : xval) : bool :=
  match a, b with Fin x, Fin y => Qeq_bool x y | PInf, PInf | NInf, NInf | NaN, NaN => true | _, _ => false end.
Definition num_eqb (a b : num) : bool := Z.eqb (fst a) (fst b) && xv_eqb (snd a) (snd b).
Definition value_eqb (a b : value num) : bool :=
  match a, b with VNum x, VNum y => num_eqb x y | VStr s, VStr t => seqb s t | _, _ => false end.
Definition ldret_eqb (a b : ldret num) : bool :=
  match a, b with
  | Single x, Single y => list_eqb value_eqb x y
  | Cols x, Cols y => list_eqb (list_eqb value_eqb) x y
  | _, _ => false end.
Definition out_eqb := rres_eqb ldret_eqb.
Definition osplit_eqb (a b : option (list str)) := opt_eqb (list_eqb seqb) a b.
Record case := mk { text : str; convs : list cv; dl : delim; cm : option re; tab : list (str * option num);
                    pylines : list str; pycomment : list bool; pysplit : list (list str);
                    out_sio : rres (ldret num); out_path : option (rres (ldret num)) }.
Definition check_case (c : case) : bool :=
  let m := load_delimited num (tab_conv (tab c)) (convs c) (dl c) (cm c) (text c) in
  let ms := (Z.of_nat (List.length (convs c)) - 1)%Z in
  list_eqb seqb (lines (text c)) (pylines c)
  && list_eqb Bool.eqb (map (is_comment (cm c)) (pylines c)) (pycomment c)
  && list_eqb osplit_eqb (map (fun l => re_split (dl c) ms (pystrip l)) (pylines c)) (map Some (pysplit c))
  && out_eqb m (out_sio c)
  && match out_path c with Some o => out_eqb m o | None => true end.
'''

    # -------- cases: {'text','convs','delim','comment','kind'}
    def exhaustive(self, tier):
        out = []

        def add(text, convs='f', delim='ws+', comment='#', kind='fixed'):
            out.append({'text': text, 'convs': convs, 'delim': delim, 'comment': comment, 'kind': kind})
        for t in ['', '\n', '1.0', '1.0\n', '1.0\n2.0', '1.0\n\n2.0\n', '1 2\n', '#c\n1\n', ' #c\n1\n', '1 #c\n', '  1.5  \n',
                  '#\n', '#', '\n\n', ' ', '1\n#\n2\n#x', 'abc\n', '1.0\nabc\n', '1.0\n2.0 3.0\n', 'nan\ninf\n-inf\n',
                  '1e5\n-2.5E-3\n+.5\n5.\n', '1_0\n', '0x10\n', '١٢\n', '1\x0b2\n', '1\x1c2\n', '1\x852\n', '1\u20282\n',
                  '1.0\r\n2.0\r\n', '1.0\r2.0']:
            add(t, 'f')
        for t in ['1.0 a\n', '1.0 a b\n', '1.0  a  b  \n', '1.0\ta b\tc\n', '1.0\n', '1.0 \n', ' 1.0 a\n', '1.0 #\n', '# 1.0 a\n',
                  '1.0 a\n2.0\n', 'a 1.0\n', '1.0 a\n\n', '1.0 a\n#\n2.0 b', '1.0 café α\u3000β\n', '1.0\u00a0x y\n',
                  '1.0\u2003x\u2003y\n']:
            add(t, 'fs')
            add(t, 'ffs')
            add(t, 'ss')
        for t in ['1,2\n', '1, 2\n', '1 ,2\n', ' 1,2 \n', '1,2,3\n', '1,\n', ',2\n', ',\n', '1,,2\n', '1 2\n', '#1,2\n', '1,2 #c\n', '1,a b,c\n']:
            add(t, 'ff', 'comma')
            add(t, 'fs', 'comma')
            add(t, 'ff', 'comma+')
            add(t, 'fs', 'comma+')
            add(t, 'f', 'comma')
        for t in ['1\t2\n', '1\t\t2\n', '1 \t 2\n', '\t1\t2\n', '1\t2\t\n', '1\ta b\tc d\n', '1 2\n']:
            for d in ('tab', 'tab_esc', 'ws1', 'ws+'):
                add(t, 'ff', d)
                add(t, 'fs', d)
        for c in COMMENTS:
            for t in ['#x\n1\n', ' #x\n1\n', '%x\n1\n', '//x\n1\n', '/x\n1\n', '1\n', '\t #x\n1\n', '']:
                add(t, 'f', 'ws+', c)
        for cv_ in CONVS:
            for t in ['', '1 2 3 4 5\n', 'a\n', '\n', '1\n', '1 2\n', '1 2 3\n', '1 2 3 4\n', '1 a 2 b\n']:
                add(t, cv_)
        for d in DELIMS:
            add('1%s2%sx\n' % ((DELIMS[d][0].replace('\\s', ' ').replace('\\t', '\t').replace('+', '').replace('\\', ''),) * 2), 'ffs', d)
        return out

    def gen(self, rng, n):
        out = []
        while len(out) < n:
            r = rng.random()
            convs = rng.choice(CONVS[:8]) if rng.random() < 0.9 else rng.choice(CONVS)
            dname = rng.choice(MAIN_DELIMS) if rng.random() < 0.8 else rng.choice(sorted(DELIMS))
            cname = '#' if rng.random() < 0.7 else rng.choice(sorted(COMMENTS))
            if r < 0.45:
                rows = rnd_file(rng, convs, dname, cname)
                kind = 'wellformed'
            elif r < 0.9:
                rows = rnd_file(rng, convs, dname, cname)
                kind = rng.choice(CORRUPTIONS)
                rows = corrupt(rng, kind, rows, convs, dname, cname)
            else:
                kind = 'soup'
                rows = [''.join(rng.choice('1 .,#\t-e2a;\u00a0') for _ in range(rng.randint(0, 9))) for _ in range(rng.randint(0, 3))]
            out.append({'text': assemble(rng, rows), 'convs': convs, 'delim': dname, 'comment': cname, 'kind': kind})
        return out

    # -------- implementation
    def run(self, case):
        from mir_eval import io as mio
        text, convs = case['text'], case['convs']
        dre = DELIMS[case['delim']][0]
        cre = COMMENTS[case['comment']][0]
        rec = Recorder()
        cl = [rec if c == 'f' else str for c in convs]
        o1 = outcome_of(lambda: enc_columns(mio.load_delimited(pyio.StringIO(text), cl, delimiter=dre, comment=cre), len(cl)))
        o2 = None
        if '\r' not in text:
            d = tmp_path('io_delimited')
            p = os.path.join(d, 'case.txt')
            try:
                write_text(p, text)
                o2 = outcome_of(lambda: enc_columns(mio.load_delimited(p, cl, delimiter=dre, comment=cre), len(cl)))
            finally:
                shutil.rmtree(d, ignore_errors=True)
        pylines = list(pyio.StringIO(text))
        splitter = re.compile(dre)
        commenter = None if cre is None else re.compile('^{}'.format(cre))
        return {'sio': o1, 'path': o2, 'table': sorted(rec.table.items()),
                'pylines': pylines,
                'pycomment': [bool(commenter is not None and commenter.match(l)) for l in pylines],
                'pysplit': [splitter.split(l.strip(), len(cl) - 1) for l in pylines]}

    def emit(self, case, o):
        S = cq_s
        cv_ = core.cq_list(['CFloat' if c == 'f' else 'CStr' for c in case['convs']])
        return '(mk %s %s (%s) %s %s %s %s %s %s %s)' % (
            S(case['text']), cv_, DELIMS[case['delim']][1], COMMENTS[case['comment']][1], cq_table(o['table']),
            core.cq_list([S(l) for l in o['pylines']]), core.cq_list([core.cq_bool(b) for b in o['pycomment']]),
            core.cq_list([core.cq_list([S(t) for t in ps]) for ps in o['pysplit']]),
            cq_rres(o['sio'], cq_ldret), 'None' if o['path'] is None else '(Some %s)' % cq_rres(o['path'], cq_ldret))

    def nontrivial(self, case, o):
        return o['sio'][0] == 'ok' and any(len(c) for c in o['sio'][1][1])

    def shrink(self, case):
        t = case['text']
        for i in range(len(t)):
            yield dict(case, text=t[:i] + t[i + 1:])

    def distribution(self, pairs):
        d = {'ok_nonempty': 0, 'ok_empty': 0, 'ValueError_with_row': 0, 'other_exception': 0, 'path_run': 0,
             'path_differs_from_stringio': 0, 'by_kind': {}, 'by_delim': {}, 'by_comment': {}, 'float_tokens': 0,
             'float_tokens_unparsable': 0, 'labels_with_inner_ws': 0}
        for c, o in pairs:
            s = o['sio']
            if s[0] == 'ok':
                k = 'ok_nonempty' if any(len(col) for col in s[1][1]) else 'ok_empty'
                for col in s[1][1]:
                    for v in col:
                        if v[0] == 's' and len(v[1].split()) > 1:
                            d['labels_with_inner_ws'] += 1
            elif s[1] == 'ValueError' and s[2] is not None:
                k = 'ValueError_with_row'
            else:
                k = 'other_exception'
            d[k] += 1
            if o['path'] is not None:
                d['path_run'] += 1
                if o['path'] != s:
                    d['path_differs_from_stringio'] += 1
            bk = d['by_kind'].setdefault(c.get('kind', '?'), {'ok': 0, 'exc': 0})
            bk['ok' if s[0] == 'ok' else 'exc'] += 1
            d['by_delim'][c['delim']] = d['by_delim'].get(c['delim'], 0) + 1
            d['by_comment'][c['comment']] = d['by_comment'].get(c['comment'], 0) + 1
            d['float_tokens'] += len(o['table'])
            d['float_tokens_unparsable'] += sum(1 for k_, v in o['table'] if v is None)
        return d


UNIT = U()
