"""Permutation search of separation.bss_eval_sources / bss_eval_images vs ME.Model.Separation (perms, best_perm,
bss_eval_gen).

Streams
  public   the real public function (fixed flen = 512) on generated signals; the harness ALSO computes, from outside, the
           full (nsrc x nsrc) table of criteria exactly as the function does (loop over jest, jtrue calling
           _bss_decomp_mtifilt(_images) and _bss_source_crit / _bss_image_crit).  The table goes to Coq as exact
           rationals; the model's selected (sdr, [isr,] sir, sar, perm) must equal the function's output exactly, for
           compute_permutation = True and False.
  patched  the real selection code of the public function run on a *chosen* table: the two private helpers are replaced
           in-process (restored afterwards) by table look-ups, so exact ties (first maximum), all orders of the best
           permutation and nsrc up to 4 are exercised on lattice values where float means are exact.
  perms    perms n against list(itertools.permutations(range(n))), n <= 5.
Cases whose table has a non-finite entry, or (non-lattice tables) two permutations with different exact means closer
than 1e-9, are outside the model's scope (finite tables, exact means): they are counted and emitted as trivial."""
import itertools
import math
from fractions import Fraction
from lib import core


def _q(x):
    return core.cq_Q(x)


def _ql(l):
    return core.cq_list([_q(x) for x in l])


def _nl(l):
    return core.cq_list(['%d%%nat' % int(x) for x in l])


def _signals(seed, nsrc, n, nchan, style):
    import numpy as np
    rs = np.random.RandomState(seed)
    shape = (nsrc, n) if nchan is None else (nsrc, n, nchan)
    ref = rs.randn(*shape)
    perm = list(rs.permutation(nsrc))
    if style == 'perfect':
        est = ref[perm].copy()
    elif style == 'mix':
        est = ref[perm] + 0.4 * rs.randn(*shape) + 0.3 * ref[::-1]
    elif style == 'weak':
        est = 0.2 * ref[perm] + rs.randn(*shape)
    else:
        est = rs.randn(*shape)
    return ref, est


def _near_tie(sir, lattice):
    n = len(sir)
    means = sorted({sum(Fraction(sir[p[j]][j]) for j in range(n)) / n for p in itertools.permutations(range(n))}, reverse=True)
    if lattice or len(means) < 2:
        return False
    return (means[0] - means[1]) < Fraction(1, 10 ** 9)


class U(core.Unit):
    name = 'sep_perm'
    requires = ['ME.Model.Prelude', 'ME.Model.Separation']
    mirrors = [('mir_eval/separation.py', 'bss_eval_sources'), ('mir_eval/separation.py', 'bss_eval_images')]
    counts = {'quick': 330, 'thorough': 3000}
    shard = 120
    header = '''
Inductive case :=
| CEval (nmet six n : nat) (table : list (list (list Q))) (cp : bool) (obs : res (list (list Q) * list nat))
| CPerms (n : nat) (obs : list (list nat))
| CAnd (a b : case)
| CSkip.
Definition crit_of (t : list (list (list Q))) (a b : nat) : res (list Q) :=
  match nth_error (nth a t []) b with Some c => Ok c | None => Raise IndexError end.
Definition out_eqb (x y : list (list Q) * list nat) : bool :=
  list_eqb (list_eqb Qeqb) (fst x) (fst y) && list_eqb Nat.eqb (snd x) (snd y).
Fixpoint check_case (c : case) : bool :=
  match c with
  | CEval nmet six n t cp obs => res_eqb out_eqb (bss_eval_gen nmet six n (crit_of t) cp) obs
  | CPerms n obs => list_eqb (list_eqb Nat.eqb) (perms n) obs
  | CAnd a b => check_case a && check_case b
  | CSkip => true
  end.
'''

    def exhaustive(self, tier):
        out = [{'kind': 'perms', 'n': n} for n in range(0, 6)]
        # exact ties on 2x2 / 3x3 lattice tables through the real selection code
        def T(sir, images=False, cp=True):
            n = len(sir)
            nm = 4 if images else 3
            six = 2 if images else 1
            tab = [[[float(10 * a + b + m) if m != six else float(sir[a][b]) for m in range(nm)] for b in range(n)] for a in range(n)]
            return {'kind': 'patched', 'images': images, 'cp': cp, 'table': tab}
        out += [T([[1, 2], [2, 1]]), T([[2, 1], [1, 2]]), T([[1, 1], [1, 1]]), T([[0, 5], [5, 0]]), T([[3]]),
                T([[1, 2], [2, 1]], True), T([[1, 1], [1, 1]], True), T([[3]], True, False),
                T([[0, 0, 0], [0, 0, 0], [0, 0, 0]]), T([[0, 1, 0], [0, 0, 1], [1, 0, 0]]), T([[0, 0, 1], [1, 0, 0], [0, 1, 0]]),
                T([[5, 1, 1], [1, 1, 5], [1, 5, 1]]), T([[1, 5, 1], [5, 1, 1], [1, 1, 5]], True),
                T([[2, 1, 1], [1, 1, 2], [1, 2, 1]], False, False)]
        # every 3x3 0/1 table (ties everywhere): 512 cases only in the thorough tier, a slice of them in quick
        allb = list(itertools.product([0, 1], repeat=9))
        step = 1 if tier == 'thorough' else 9
        for bits in allb[::step]:
            out.append(T([list(bits[0:3]), list(bits[3:6]), list(bits[6:9])]))
        # the public function
        out += [{'kind': 'public', 'images': False, 'nsrc': 2, 'n': 1100, 'nchan': None, 'seed': 1, 'style': 'mix'},
                {'kind': 'public', 'images': False, 'nsrc': 2, 'n': 1100, 'nchan': None, 'seed': 2, 'style': 'perfect'},
                {'kind': 'public', 'images': False, 'nsrc': 1, 'n': 300, 'nchan': None, 'seed': 3, 'style': 'mix'},
                {'kind': 'public', 'images': True, 'nsrc': 2, 'n': 700, 'nchan': 1, 'seed': 4, 'style': 'mix'},
                {'kind': 'public', 'images': False, 'nsrc': 3, 'n': 1600, 'nchan': None, 'seed': 5, 'style': 'mix'}]
        return out

    def gen(self, rng, n):
        cases = []
        npublic = max(4, n // 33)
        for i in range(n):
            if i < npublic:
                images = rng.random() < 0.25
                nsrc = 2 if rng.random() < 0.9 else 3
                if images:
                    nsrc = 2
                cases.append({'kind': 'public', 'images': images, 'nsrc': nsrc,
                              'n': rng.choice([64, 200, 600, 1100, 1300]), 'nchan': (rng.choice([1, 1, 2]) if images else None),
                              'seed': rng.randrange(10 ** 6), 'style': rng.choice(['mix', 'mix', 'weak', 'noise', 'perfect'])})
                continue
            images = rng.random() < 0.3
            nm, six = (4, 2) if images else (3, 1)
            k = rng.choice([1, 2, 2, 3, 3, 3, 4, 4])
            kind = rng.random()
            den = rng.choice([1, 1, 2, 4])
            if kind < 0.35:      # few distinct values: many exact ties
                vals = [Fraction(rng.randint(0, 2), den) for _ in range(3)]
                draw = lambda: rng.choice(vals)
            elif kind < 0.7:     # lattice values
                draw = lambda: Fraction(rng.randint(-120, 120), den)
            else:                # a planted best permutation, possibly with a tie against another one
                draw = lambda: Fraction(rng.randint(-20, 20), den)
            tab = [[[float(draw()) for _m in range(nm)] for _b in range(k)] for _a in range(k)]
            if kind >= 0.7:
                p = list(range(k))
                rng.shuffle(p)
                for j in range(k):
                    tab[p[j]][j][six] = float(Fraction(rng.choice([20, 21, 25]), den))
            cases.append({'kind': 'patched', 'images': images, 'cp': rng.random() < 0.9, 'table': tab})
        return cases

    # ---------------------------------------------------------------- implementation
    def _run_public(self, case):
        import numpy as np
        from mir_eval import separation as S
        ref, est = _signals(case['seed'], case['nsrc'], case['n'], case['nchan'], case['style'])
        nsrc = case['nsrc']
        if case['images']:
            fn = S.bss_eval_images
            r3, e3 = np.atleast_3d(ref), np.atleast_3d(est)
            nsampl, nchan = e3.shape[1], e3.shape[2]

            def crit(jest, jtrue):
                d = S._bss_decomp_mtifilt_images(r3, np.reshape(e3[jest], (nsampl, nchan), order='F'), jtrue, 512)
                return [float(x) for x in S._bss_image_crit(*d)]
        else:
            fn = S.bss_eval_sources

            def crit(jest, jtrue):
                d = S._bss_decomp_mtifilt(ref, est[jest], jtrue, 512)
                return [float(x) for x in S._bss_source_crit(*d)]
        import warnings
        with warnings.catch_warnings():
            warnings.simplefilter('ignore')
            table = [[crit(a, b) for b in range(nsrc)] for a in range(nsrc)]
        outs = {}
        for cp in (True, False):
            tag, val = core.call_impl(fn, ref, est, cp, limit=60)
            outs[str(cp)] = ['ok', [[float(x) for x in a] for a in val[:-1]], [int(x) for x in val[-1]]] if tag == 'ok' else ['exc', val]
        return {'table': table, 'outs': outs}

    def _run_patched(self, case):
        import numpy as np
        from mir_eval import separation as S
        table = case['table']
        n = len(table)
        est = np.array([[float(j + 1)] * 4 for j in range(n)])
        ref = np.ones((n, 4))
        saved = (S._bss_decomp_mtifilt, S._bss_source_crit, S._bss_decomp_mtifilt_images, S._bss_image_crit)

        def dec(refs, e, j, flen):
            return (int(round(float(np.ravel(e)[0]))) - 1, j, None, None)

        def dec_img(refs, e, j, flen, Gj=None, G=None):
            t = (int(round(float(np.ravel(e)[0]))) - 1, j, None, None)
            return t + (Gj, G) if (Gj is not None and G is not None) else t

        def crit(a, b, c, d):
            return tuple(table[a][b])
        try:
            S._bss_decomp_mtifilt, S._bss_source_crit, S._bss_decomp_mtifilt_images, S._bss_image_crit = dec, crit, dec_img, crit
            fn = S.bss_eval_images if case['images'] else S.bss_eval_sources
            tag, val = core.call_impl(fn, ref, est, case['cp'])
        finally:
            S._bss_decomp_mtifilt, S._bss_source_crit, S._bss_decomp_mtifilt_images, S._bss_image_crit = saved
        if tag != 'ok':
            return ['exc', val]
        return ['ok', [[float(x) for x in a] for a in val[:-1]], [int(x) for x in val[-1]]]

    def run(self, case):
        if case['kind'] == 'perms':
            return [list(p) for p in itertools.permutations(range(case['n']))]
        if case['kind'] == 'public':
            return self._run_public(case)
        return self._run_patched(case)

    # ---------------------------------------------------------------- emission
    @staticmethod
    def _finite(table):
        return all(math.isfinite(x) for row in table for c in row for x in c)

    @staticmethod
    def _eval(table, images, cp, out):
        nm, six = (4, 2) if images else (3, 1)
        t = core.cq_list([core.cq_list([_ql(c) for c in row]) for row in table])
        if out[0] == 'ok':
            obs = '(Ok (%s,%s))' % (core.cq_list([_ql(v) for v in out[1]]), _nl(out[2]))
        else:
            obs = '(Raise %s)' % core.cq_exn(out[1])
        return '(CEval %d %d %d %s %s %s)' % (nm, six, len(table), t, core.cq_bool(cp), obs)

    def _skip(self, case, out):
        """None, or the reason why the case is outside the model's scope"""
        if case['kind'] == 'perms':
            return None
        table = out['table'] if case['kind'] == 'public' else case['table']
        if not self._finite(table):
            return 'nonfinite'
        six = 2 if case['images'] else 1
        sir = [[c[six] for c in row] for row in table]
        if _near_tie(sir, lattice=(case['kind'] == 'patched')):
            return 'near_tie'
        return None

    def emit(self, case, out):
        if case['kind'] == 'perms':
            return '(CPerms %d %s)' % (case['n'], core.cq_list([_nl(p) for p in out]))
        why = self._skip(case, out)
        if case['kind'] == 'patched':
            return 'CSkip' if why else self._eval(case['table'], case['images'], case['cp'], out)
        # public: the compute_permutation=False comparison does not involve the search, keep it even on near ties
        terms = []
        if why != 'nonfinite':
            terms.append(self._eval(out['table'], case['images'], False, out['outs']['False']))
        if why is None:
            terms.append(self._eval(out['table'], case['images'], True, out['outs']['True']))
        if len(terms) == 2:
            return '(CAnd %s %s)' % tuple(terms)
        return terms[0] if terms else 'CSkip'

    def nontrivial(self, case, out):
        if case['kind'] == 'perms':
            return case['n'] >= 2
        if self._skip(case, out):
            return False
        n = case['nsrc'] if case['kind'] == 'public' else len(case['table'])
        return n >= 2

    def shrink(self, case):
        if case['kind'] != 'patched':
            return
        t = case['table']
        n = len(t)
        for k in range(n):
            if n > 1:
                yield dict(case, table=[[c for b, c in enumerate(row) if b != k] for a, row in enumerate(t) if a != k])

    def distribution(self, pairs):
        d = {'perms': 0, 'public': 0, 'patched': 0, 'skipped_nonfinite': 0, 'skipped_near_tie': 0, 'exact_ties_for_max': 0,
             'nsrc': {}, 'best_is_identity': 0, 'best_not_identity': 0, 'images': 0, 'cp_false': 0, 'public_perm_nonidentity': 0}
        for c, o in pairs:
            d[c['kind']] += 1
            if c['kind'] == 'perms':
                continue
            why = self._skip(c, o)
            if why:
                d['skipped_' + why] += 1
            d['images'] += int(c['images'])
            table = o['table'] if c['kind'] == 'public' else c['table']
            n = len(table)
            d['nsrc'][str(n)] = d['nsrc'].get(str(n), 0) + 1
            res = o['outs']['True'] if c['kind'] == 'public' else o
            if c['kind'] == 'patched' and not c['cp']:
                d['cp_false'] += 1
                continue
            if res[0] == 'ok':
                if list(res[2]) == list(range(n)):
                    d['best_is_identity'] += 1
                else:
                    d['best_not_identity'] += 1
                    if c['kind'] == 'public':
                        d['public_perm_nonidentity'] += 1
            if self._finite(table):
                six = 2 if c['images'] else 1
                means = [sum(Fraction(table[p[j]][j][six]) for j in range(n)) for p in itertools.permutations(range(n))]
                if means.count(max(means)) > 1:
                    d['exact_ties_for_max'] += 1
        return d


UNIT = U()
