"""util.intervals_to_boundaries / boundaries_to_intervals / intervals_to_durations / validate_intervals /
sort_labeled_intervals / index_labels vs ME.Model.Intervals.

* i2b  : np.unique(np.round(., q)) against sort_uniq . round_dec q.  Inputs: lattices 1/4 ... 1/64 (for q = 5 the 1/64
         lattice lies exactly on rounding ties, for q = 1, 2 the 1/4, 1/8 lattices do: round-half-even is exercised) and
         decimal values that are far from a tie.  np.round divides by 10^q, so the values are compared with
         tolerance 1e-9 (lengths exactly).
* b2i  : strictly increasing, repeated, unsorted, all-equal (NumPy broadcasts the length-1 np.unique result: accepted!),
         nearly equal out-of-order pairs inside / outside np.allclose's tolerance; exception class exactly, rows exactly.
* dur / val : intervals_to_durations, validate_intervals incl. negative times and non-positive durations.
* sort : sort_labeled_intervals with DISTINCT start times (np.argsort's default kind is not stable, ties are platform
         dependent and not claimed), labels None / right length / too short (IndexError) / too long.
* idx  : index_labels on ASCII labels, both case modes; indices and the index->label dict in insertion order."""
from lib import core


def q(x):
    return core.cq_Q(x)


def gen_intervals(rng, den, hi=10):
    n = rng.choice([0, 1, 1, 2, 2, 3, 4, 5])
    if n == 0:
        return []
    if rng.random() < 0.6:
        b = sorted(rng.sample(range(0, hi * den), n + 1))
        return [[b[i] / den, b[i + 1] / den] for i in range(n)]
    pts = sorted(rng.sample(range(0, hi * den), 2 * n))
    return [[pts[2 * i] / den, pts[2 * i + 1] / den] for i in range(n)]


WORDS = ['a', 'A', 'b', 'B', 'ab', 'Ab', 'aB', 'verse', 'Verse', 'VERSE', 'chorus', 'Chorus', '', 'z', 'Z', '_x', '1', '10', 'a1',
         'silence', 'Silence', 'C:maj', 'c:maj']


class U(core.Unit):
    name = 'boundaries'
    requires = ['ME.Model.Prelude', 'ME.Model.Intervals']
    mirrors = [('mir_eval/util.py', 'intervals_to_boundaries'), ('mir_eval/util.py', 'boundaries_to_intervals'),
               ('mir_eval/util.py', 'intervals_to_durations'), ('mir_eval/util.py', 'validate_intervals'),
               ('mir_eval/util.py', 'sort_labeled_intervals'), ('mir_eval/util.py', 'index_labels')]
    counts = {'quick': 2400, 'thorough': 24000}
    shard = 400
    header = '''
Open Scope Q_scope.
Definition ivs_eqb := list_eqb (pair_eqb Qeqb Qeqb).
Definition labs_eqb := opt_eqb (list_eqb Nat.eqb).
Definition unit_eqb (a b : unit) := true.
Inductive case :=
| CI2B (qd : nat) (ivs : list (Q * Q)) (out : list Q)
| CB2I (b : list Q) (out : res (list (Q * Q)))
| CDUR (ivs : list (Q * Q)) (out : res (list Q))
| CVAL (ivs : list (Q * Q)) (out : res unit)
| CSORT (ivs : list (Q * Q)) (labs : option (list nat)) (out : res (list (Q * Q) * option (list nat)))
| CIDX (cs : bool) (labels : list (list nat)) (out : list nat * list (nat * list nat)).
Definition check_case (c : case) : bool :=
  match c with
  | CI2B qd i o => list_eqb (Qclose (1 # 1000000000)) (intervals_to_boundaries qd i) o
  | CB2I b o => res_eqb ivs_eqb (boundaries_to_intervals b) o
  | CDUR i o => res_eqb (list_eqb Qeqb) (intervals_to_durations i) o
  | CVAL i o => res_eqb unit_eqb (validate_intervals i) o
  | CSORT i l o => res_eqb (pair_eqb ivs_eqb labs_eqb) (sort_labeled_intervals i l) o
  | CIDX cs l o => pair_eqb (list_eqb Nat.eqb) (list_eqb (pair_eqb Nat.eqb seqb)) (index_labels cs l) o
  end.
'''

    def exhaustive(self, tier):
        out = []
        for b in ([], [1.0], [0.0, 1.0], [0.0, 1.0, 2.0], [1.0, 1.0], [1.0, 1.0, 1.0], [1.0, 1.0, 2.0], [1.0, 2.0, 2.0, 3.0],
                  [2.0, 1.0], [0.0, 2.0, 1.0], [1.0 + 2.0 ** -20, 1.0], [1.0 + 2.0 ** -10, 1.0], [100.0 + 2.0 ** -10, 100.0],
                  [0.0 + 2.0 ** -30, 0.0], [0.0 + 2.0 ** -20, 0.0], [1.0, 1.0 + 2.0 ** -30, 1.0], [-1.0, 0.0, 1.0],
                  [0.0, 1e-6], [0.0, 2.0 ** -20]):
            out.append({'k': 'b2i', 'b': b})
        for qd in (0, 1, 2, 3, 5):
            for ivs in ([], [[0.0, 1.0], [1.0, 2.0]], [[0.015625, 0.046875], [0.046875, 1.015625]], [[0.25, 0.75], [1.25, 2.5]],
                        [[0.125, 0.375], [0.375, 0.625]], [[0.5, 1.5], [2.5, 3.5]], [[-0.5, -0.25], [-0.015625, 0.015625]],
                        [[0.0, 2.0 ** -20]], [[1.0, 1.0 + 2.0 ** -18]]):
                out.append({'k': 'i2b', 'q': qd, 'x': ivs})
        for ivs in ([], [[0.0, 1.0]], [[0.0, 0.0]], [[1.0, 0.5]], [[-1.0, 1.0]], [[-2.0, -1.0]], [[0.0, 1.0], [0.5, 0.25]],
                    [[0.0, 1.0], [-0.5, 0.25]], [[-1.0, -2.0]]):
            out.append({'k': 'dur', 'x': ivs})
            out.append({'k': 'val', 'x': ivs})
        for labels in ([], ['a'], ['B', 'a', 'b', 'C'], ['b', 'B', 'a', 'A'], ['', 'a', ''], ['Z', 'a'], ['ab', 'a', 'abc', 'AB']):
            for cs in (False, True):
                out.append({'k': 'idx', 'cs': cs, 'l': labels})
        return out

    def gen(self, rng, n):
        cases = []
        for t in range(n):
            den = rng.choice([4, 8, 16, 32, 64])
            r = rng.random()
            if r < 0.25:
                qd = rng.choice([5, 5, 5, 0, 1, 2, 3, 4])
                if rng.random() < 0.7:
                    ivs = gen_intervals(rng, den)
                else:
                    # decimals far from a tie at digit qd: m / 10^(qd+2) with last two digits not in 45..55
                    ivs = []
                    for _ in range(rng.choice([1, 2, 3])):
                        row = []
                        for _ in range(2):
                            m = rng.randrange(0, 10 ** (qd + 2) * 3)
                            while 40 <= m % 100 <= 60:
                                m = rng.randrange(0, 10 ** (qd + 2) * 3)
                            row.append(m / 10 ** (qd + 2))
                        ivs.append(sorted(row))
                cases.append({'k': 'i2b', 'q': qd, 'x': ivs})
            elif r < 0.5:
                m = rng.choice([0, 1, 2, 3, 4, 6])
                b = sorted(rng.sample(range(0, 10 * den), m))
                b = [v / den for v in b]
                k = rng.random()
                if k < 0.15 and m >= 2:
                    i = rng.randrange(m - 1)
                    b[i + 1] = b[i]
                elif k < 0.3 and m >= 2:
                    i, j = rng.sample(range(m), 2)
                    b[i], b[j] = b[j], b[i]
                elif k < 0.4 and m >= 1:
                    b = [b[0]] * rng.choice([2, 3, 4])
                elif k < 0.55 and m >= 1:
                    i = rng.randrange(m)
                    eps = 2.0 ** -rng.choice([10, 20, 30])
                    scale = rng.choice([1.0, 16.0, 128.0, 1024.0])
                    b = [v + scale for v in b]
                    b.insert(i, b[i] + eps)        # out of order by eps
                cases.append({'k': 'b2i', 'b': b})
            elif r < 0.65:
                ivs = gen_intervals(rng, den)
                k = rng.random()
                if ivs and k < 0.15:
                    i = rng.randrange(len(ivs))
                    ivs[i] = [ivs[i][1], ivs[i][0]]
                elif ivs and k < 0.3:
                    i = rng.randrange(len(ivs))
                    ivs[i] = [ivs[i][0], ivs[i][0]]
                elif ivs and k < 0.45:
                    i = rng.randrange(len(ivs))
                    ivs[i] = [ivs[i][0] - 11.0, ivs[i][1]]
                elif ivs and k < 0.55:
                    rng.shuffle(ivs)
                cases.append({'k': rng.choice(['dur', 'val']), 'x': ivs})
            elif r < 0.82:
                ivs = gen_intervals(rng, den)
                # distinct starts guaranteed by construction; shuffle rows, sometimes lengthen ends (overlaps)
                if rng.random() < 0.3:
                    for v in ivs:
                        v[1] = v[1] + rng.randrange(0, 3 * den) / den
                rng.shuffle(ivs)
                nl = rng.choice([None, len(ivs), len(ivs), len(ivs), len(ivs) - 1, len(ivs) + 1])
                if nl is not None and nl < 0:
                    nl = 0
                cases.append({'k': 'sort', 'x': ivs, 'nl': nl})
            else:
                m = rng.choice([0, 1, 2, 3, 5, 8])
                cases.append({'k': 'idx', 'cs': rng.random() < 0.4, 'l': [rng.choice(WORDS) for _ in range(m)]})
        return cases

    def run(self, case):
        import numpy as np
        from mir_eval import util
        k = case['k']
        if k == 'i2b':
            x = np.array(case['x'], dtype=float).reshape(-1, 2)
            tag, val = core.call_impl(util.intervals_to_boundaries, x, case['q'])
            return ['ok', [float(v) for v in val]] if tag == 'ok' else ['exc', val]
        if k == 'b2i':
            arg = list(case['b'])
            tag, val = core.call_impl(util.boundaries_to_intervals, arg)
            return ['ok', [[float(r[0]), float(r[1])] for r in np.asarray(val, dtype=float).reshape(-1, 2)]] if tag == 'ok' \
                else ['exc', val]
        if k == 'dur':
            x = np.array(case['x'], dtype=float).reshape(-1, 2)
            tag, val = core.call_impl(util.intervals_to_durations, x)
            return ['ok', [float(v) for v in val]] if tag == 'ok' else ['exc', val]
        if k == 'val':
            x = np.array(case['x'], dtype=float).reshape(-1, 2)
            tag, val = core.call_impl(util.validate_intervals, x)
            return ['ok', None] if tag == 'ok' else ['exc', val]
        if k == 'sort':
            x = np.array(case['x'], dtype=float).reshape(-1, 2)
            if case['nl'] is None:
                tag, val = core.call_impl(util.sort_labeled_intervals, x)
                return ['ok', [[float(r[0]), float(r[1])] for r in val], None] if tag == 'ok' else ['exc', val]
            tag, val = core.call_impl(util.sort_labeled_intervals, x, list(range(1, case['nl'] + 1)))
            return ['ok', [[float(r[0]), float(r[1])] for r in val[0]], [int(v) for v in val[1]]] if tag == 'ok' else ['exc', val]
        tag, val = core.call_impl(util.index_labels, list(case['l']), case['cs'])
        if tag == 'exc':
            return ['exc', val]
        return ['ok', [int(v) for v in val[0]], [[int(a), b] for a, b in val[1].items()]]

    def emit(self, case, out):
        def ivs(l):
            return core.cq_list(['(%s,%s)' % (q(u), q(v)) for u, v in l])

        def nl(l):
            return core.cq_list([str(v) for v in l]) + '%nat'

        def res(f):
            return '(Ok %s)' % f() if out[0] == 'ok' else '(Raise %s)' % core.cq_exn(out[1])
        k = case['k']
        if k == 'i2b':
            assert out[0] == 'ok'
            return '(CI2B %d%%nat %s %s)' % (case['q'], ivs(case['x']), core.cq_list([q(v) for v in out[1]]))
        if k == 'b2i':
            return '(CB2I %s %s)' % (core.cq_list([q(v) for v in case['b']]), res(lambda: ivs(out[1])))
        if k == 'dur':
            return '(CDUR %s %s)' % (ivs(case['x']), res(lambda: core.cq_list([q(v) for v in out[1]])))
        if k == 'val':
            return '(CVAL %s %s)' % (ivs(case['x']), res(lambda: 'tt'))
        if k == 'sort':
            labs = core.cq_opt(None if case['nl'] is None else list(range(1, case['nl'] + 1)), nl)
            return '(CSORT %s %s %s)' % (ivs(case['x']), labs,
                                         res(lambda: '(%s,%s)' % (ivs(out[1]), core.cq_opt(out[2], nl))))
        assert out[0] == 'ok'
        return '(CIDX %s %s (%s,%s))' % (core.cq_bool(case['cs']), core.cq_list([core.cq_str(s) for s in case['l']]), nl(out[1]),
                                         core.cq_list(['(%d%%nat,%s)' % (a, core.cq_str(b)) for a, b in out[2]]))

    def nontrivial(self, case, out):
        return out[0] == 'ok' and len(case.get('x', case.get('b', case.get('l', [])))) >= 2

    def shrink(self, case):
        for key in ('x', 'b', 'l'):
            if key in case:
                v = case[key]
                for i in range(len(v)):
                    c = dict(case)
                    c[key] = v[:i] + v[i + 1:]
                    if c.get('nl'):
                        c['nl'] = max(0, c['nl'] - 1)
                    yield c

    def distribution(self, pairs):
        d = {}

        def inc(k):
            d[k] = d.get(k, 0) + 1
        for c, o in pairs:
            inc('kind=' + c['k'])
            if o[0] == 'exc':
                inc(c['k'] + ': raises ' + o[1])
            elif c['k'] == 'i2b':
                flat = [v for r in c['x'] for v in r]
                if any(abs(a - b) > 1e-12 for a, b in zip(sorted(set(flat)), o[1])) or len(set(flat)) != len(o[1]):
                    inc('i2b: rounding changed a value')
                if any(abs((v * 10 ** c['q']) % 1 - 0.5) < 1e-9 for v in flat):
                    inc('i2b: exact tie')
            elif c['k'] == 'b2i':
                if any(r[0] >= r[1] for r in o[1]):
                    inc('b2i: accepted although not strictly ascending')
        return d


UNIT = U()
