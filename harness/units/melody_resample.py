"""melody.freq_to_voicing / constant_hop_timebase / resample_melody_series(kind='linear') / to_cent_voicing / evaluate
vs ME.Model.Melody.

Lattices: times are multiples of 1/64 (< 64) so that np.round(., 10) is the identity and all comparisons are exact;
hops are dyadic; frequencies multiples of 1/4; voicing in {0, 1/4, 1/2, 1}. Interpolated values involve one float
division and are compared with Qclose 1e-9; everything that is selected rather than computed (zeroing, zero-order
hold of a binary voicing, freq_to_voicing outputs) is compared exactly. A second, smaller stream uses decimal times
(k * 0.01) and Hz inputs through to_cent_voicing / evaluate; there the cents the implementation's own hz2cents
returns are passed to the model as exact fractions."""
import math
from lib import core
from harness.units.melody_metrics import call_w


def finl(a):
    a = [float(x) for x in a]
    return a if all(math.isfinite(x) for x in a) else None


def arr(l, dtype=float):
    import numpy as np
    return np.array(l, dtype=dtype)


def opt_arr(l):
    return None if l is None else arr(l)


def cents_of(freqs):
    """the implementation's own hz2cents on |f| (what to_cent_voicing computes), as floats"""
    from mir_eval import melody as M
    import numpy as np
    import warnings
    with warnings.catch_warnings():
        warnings.simplefilter('ignore')
        return [float(x) for x in M.hz2cents(np.abs(arr(freqs)))]


def ql(l):
    return core.cq_list([core.cq_Q(float(x)) for x in l])


def qopt(l):
    return core.cq_opt(l, ql)


def qpairs(fs, cs):
    return core.cq_list(['(%s,%s)' % (core.cq_Q(float(f)), core.cq_Q(float(c))) for f, c in zip(fs, cs)])


def rnd_freqs(rng, n, pzero=0.3):
    out = []
    for _ in range(n):
        out.append(0.0 if rng.random() < pzero else 0.25 * rng.randint(1, 8000))
    if n and rng.random() < 0.3:
        out[0] = 0.0
    if n and rng.random() < 0.3:
        out[-1] = 0.0
    if n > 3 and rng.random() < 0.4:       # an unvoiced run inside
        i = rng.randrange(1, n - 1)
        for j in range(i, min(n, i + rng.randint(1, 3))):
            out[j] = 0.0
    return out


def rnd_voicing(rng, freqs, cont):
    if cont:
        return [rng.choice([0.0, 0.25, 0.5, 1.0]) for _ in freqs]
    return [float(f > 0) if rng.random() < 0.85 else float(rng.random() < 0.5) for f in freqs]


def rnd_times(rng, n, uniform=True, start0=True):
    hop = rng.choice([1, 2, 4, 8, 16, 5, 3]) / 64.0
    t0 = 0.0 if start0 else rng.choice([1, 2, 8, 16]) / 64.0
    ts = [t0 + i * hop for i in range(n)]
    if not uniform and n >= 3:
        i = rng.randrange(1, n)
        d = rng.choice([1, 2, 3]) / 64.0
        ts = ts[:i] + [t + d for t in ts[i:]]
    return ts, hop


class U(core.Unit):
    name = 'melody_resample'
    requires = ['ME.Model.Prelude', 'ME.Model.Melody']
    mirrors = [('mir_eval/melody.py', f) for f in ['freq_to_voicing', 'constant_hop_timebase', 'resample_melody_series',
                                                   'to_cent_voicing', 'evaluate', 'hz2cents']]
    counts = {'quick': 1800, 'thorough': 8000}
    shard = 300
    header = '''
Open Scope Q_scope.
Definition tolq : Q := 1#1000000000.
Definition lq := list_eqb (Qclose tolq).
Definition lx := list_eqb Qeqb.
Definition wl := list_eqb mwarn_eqb.
Inductive case :=
| CF2V (f : list Q) (v : option (list Q)) (out : res (list Q * list Q))
| CHop (hop e : Q) (out : res (list Q))
| CRes (t f v tn : list Q) (w : list mwarn) (out : res (list Q * list Q))
| CTcv (rt : list Q) (rfc : list (Q * Q)) (et : list Q) (efc : list (Q * Q)) (ev rr : option (list Q)) (hop : option Q)
       (w : list mwarn) (out : res (list Q * list Q * list Q * list Q))
| CEval (rt : list Q) (rfc : list (Q * Q)) (et : list Q) (efc : list (Q * Q)) (ev rr : option (list Q)) (hop : option Q)
        (tol : Q) (out : res (Q * Q * Q * Q * Q)).
Definition check_case (c : case) : bool :=
  match c with
  | CF2V f v out => res_eqb (pair_eqb lx lx) (freq_to_voicing f v) out
  | CHop h e out => res_eqb lq (constant_hop_timebase h e) out
  | CRes t f v tn w out =>
      let r := resample_melody_series t f v tn in
      wl (fst r) w && res_eqb (pair_eqb lq (if is_binary v then lx else lq)) (snd r) out
  | CTcv rt rfc et efc ev rr hop w out =>
      let r := to_cent_voicing rt rfc et efc ev rr hop in
      wl (fst r) w
      && res_eqb (fun a b => let '(a1, a2, a3, a4) := a in let '(b1, b2, b3, b4) := b in lq a1 b1 && lq a2 b2 && lq a3 b3 && lq a4 b4)
                 (snd r) out
  | CEval rt rfc et efc ev rr hop tol out =>
      res_eqb (fun a b => let '(a1, a2, a3, a4, a5) := a in let '(b1, b2, b3, b4, b5) := b in
                 Qclose tolq a1 b1 && Qclose tolq a2 b2 && Qclose tolq a3 b3 && Qclose tolq a4 b4 && Qclose tolq a5 b5)
              (evaluate rt rfc et efc ev rr hop tol) out
  end.
'''

    # ------------------------------------------------------------------ fixed cases
    def exhaustive(self, tier):
        F = lambda f, v=None: {'k': 'f2v', 'f': f, 'v': v}
        H = lambda h, e: {'k': 'hop', 'hop': h, 'e': e}
        R = lambda t, f, v, tn: {'k': 'res', 't': t, 'f': f, 'v': v, 'tn': tn}
        out = [F([]), F([], []), F([1.0, 0.0, -2.0]), F([1.0, 0.0, -2.0], [0.5, 0.5, 0.5]), F([1.0, 0.0, -2.0], [1.0, 1.0]),
               F([1.0, 0.0, -2.0], [0.5]), F([0.0], [0.5, 0.75]), F([-0.25, -0.0, 0.25], [1.0, 1.0, 1.0]), F([0.0, 0.0], [1.0, 0.25]),
               F([], [1.0])]
        for h, e in [(0.25, 1.0), (0.25, 1.125), (0.25, 0.0), (0.0, 1.0), (0.0, 0.0), (-0.25, 1.0), (0.25, -0.125), (0.25, -0.25),
                     (0.25, -0.375), (0.5, 2.25), (-0.5, -2.25), (0.125, 0.124), (0.125, 0.12499999999), (0.125, 0.124999999999),
                     (0.125, 0.37500000004), (0.125, 0.37499999996), (1 / 1024.0, 0.01), (3 / 64.0, 1.0), (0.25, 1.00000000004),
                     (0.25, 0.99999999996), (0.25, 0.99999999994), (0.5, 1e-11), (0.0, 4e-11), (0.0, 6e-11)]:
            out.append(H(h, e))
        t4 = [0.0, 0.25, 0.5, 0.75]
        f4 = [100.0, 0.0, 200.0, 300.0]
        v4 = [1.0, 0.0, 1.0, 1.0]
        c4 = [0.5, 0.0, 0.25, 1.0]
        for tn in [t4, [0.0, 0.25, 0.5], [0.0, 0.125, 0.25, 0.375, 0.5, 0.625, 0.75], [0.0, 0.125, 0.25, 0.375, 0.5, 0.625, 0.75, 0.875, 1.0],
                   [0.75], [1.0], [0.0], [0.25, 0.5], [-0.25, 0.0], [], [0.75, 0.0, 0.5, 0.25], [0.0, 0.25, 0.5, 0.75 + 2 ** -30],
                   [2 ** -30, 0.25, 0.5, 0.75], [0.0, 0.25, 0.5, 0.75 + 2 ** -20], [0.0, 0.25, 0.5, 0.875]]:
            out.append(R(t4, f4, v4, tn))
            out.append(R(t4, f4, c4, tn))
            out.append(R(t4, [0.0, 0.0, 200.0, 0.0], v4, tn))
        out += [R([], [], [], []), R([], [], [], [0.0]), R([0.0], [100.0], [1.0], [0.0]), R([0.0], [100.0], [1.0], [0.0, 0.0]),
                R([0.0], [100.0], [1.0], [0.0, 0.5]), R([0.5], [100.0], [1.0], [0.0, 0.5]), R([0.0], [100.0], [0.5], [0.0, 0.5, 1.0]),
                R([0.0, 0.5, 0.5, 1.0], [1.0, 2.0, 3.0, 4.0], [1.0, 1.0, 1.0, 1.0], [0.0, 0.25]),       # duplicate abscissae
                R([0.0, 0.0, 1.0], [1.0, 2.0, 3.0], [1.0, 1.0, 1.0], [0.0, 0.25]),
                R([1.0, 0.0, 0.5], [1.0, 2.0, 3.0], [1.0, 0.0, 1.0], [0.0, 0.25, 0.75, 1.0]),             # unsorted source times
                R([1.0, 0.0, 0.5], [1.0, 0.0, 3.0], [1.0, 0.0, 1.0], [0.0, 0.25, 0.75, 1.25]),
                R(t4, f4[:3], v4, [0.0, 0.125]), R(t4, f4, v4[:3], [0.0, 0.125]), R(t4, f4 + [1.0], v4 + [1.0], [0.0, 0.125]),
                R([0.0, 0.25, 0.75], [], [], [0.0, 0.125]), R([0.0, 0.25, 0.75], [5.0], [1.0], [0.0, 0.125]),
                R([0.0, 0.25, 0.75, 1.25], [5.0], [1.0], [0.0, 0.125]), R([0.0, 0.25, 0.75, 1.5], [5.0], [1.0], [0.0, 0.125]),
                R([0.0, 0.5, 0.75, 1.0], [5.0, 5.0, 6.0, 7.0], [1.0] * 4, [0.0, 0.125, 0.5]),              # inserted-sample pattern: no warning
                R([0.0, 0.5, 0.75, 1.0], [5.0, 6.0, 6.0, 7.0], [1.0] * 4, [0.0, 0.125, 0.5]),
                R(t4, f4, v4, f4)]
        return out

    # ------------------------------------------------------------------ random cases
    def gen_res(self, rng):
        n = rng.choice([1, 2, 3, 4, 5, 6, 8, 10])
        r = rng.random()
        ts, hop = rnd_times(rng, n, uniform=rng.random() < 0.8, start0=rng.random() < 0.8)
        if r < 0.15 and n >= 2:                       # to_cent_voicing's inserted first sample
            ts = [0.0] + [t + rng.choice([1, 3, 8]) / 64.0 for t in ts[:-1]]
        fs = rnd_freqs(rng, n)
        if r < 0.15 and n >= 2 and rng.random() < 0.8:
            fs[1] = fs[0]
        vs = rnd_voicing(rng, fs, rng.random() < 0.4)
        m = rng.random()
        lo, hi = min(ts), max(ts)
        if m < 0.12:
            tn = list(ts)
        elif m < 0.2:
            tn = [t + rng.choice([2 ** -30, 2 ** -20, 0.0]) for t in ts]
        elif m < 0.3:
            tn = sorted(rng.sample(ts, rng.randint(1, n)))
        else:
            h2 = rng.choice([1, 2, 3, 4, 6, 8, 16]) / 64.0
            end = hi + rng.choice([0, 0, 0, -1, 1, 2, 8]) * h2
            k = 0
            tn = []
            start = lo if rng.random() < 0.9 else lo - h2
            while start + k * h2 <= end and k < 40:
                tn.append(start + k * h2)
                k += 1
            if rng.random() < 0.1:
                rng.shuffle(tn)
        if rng.random() < 0.2:
            # to_cent_voicing resamples CENT values, which are negative below base_frequency: negative entries are data, not "unvoiced"
            fs = [(-f if (f != 0 and rng.random() < 0.5) else f) for f in fs]
        c = {'k': 'res', 't': ts, 'f': fs, 'v': vs, 'tn': tn}
        z = rng.random()
        if z < 0.03 and n > 1:
            c['f'] = fs[:-1]
        elif z < 0.06 and n > 1:
            c['v'] = vs[:-1]
        elif z < 0.08 and n > 2:
            c['t'] = ts[:1] + [ts[0]] + ts[2:]
        elif z < 0.10:
            rng.shuffle(c['t'])
        return c

    def gen_tcv(self, rng, kind):
        dec = rng.random() < 0.3                     # decimal (k * 0.01) times, arbitrary Hz values
        nr = rng.choice([1, 2, 3, 4, 6, 8, 12])
        ne = rng.choice([1, 2, 3, 4, 6, 8, 12, 16])

        def times(n):
            if dec:
                h = rng.choice([0.01, 0.02, 0.005, 0.0058])
                s = 0.0 if rng.random() < 0.7 else h * rng.randint(1, 3)
                return [s + i * h for i in range(n)]
            ts, _ = rnd_times(rng, n, uniform=rng.random() < 0.9, start0=rng.random() < 0.7)
            return ts
        rt = times(nr)
        same = rng.random() < 0.4
        et = list(rt) if same else times(ne)
        ne = len(et)

        def hz(n):
            out = []
            for _ in range(n):
                u = rng.random()
                out.append(0.0 if u < 0.25 else rng.choice([110.0, 220.0, 440.0, 10.0, 261.625, 100.0 + 0.25 * rng.randint(0, 3000)]))
            return out
        rf = hz(nr)
        if same and rng.random() < 0.7:
            ef = [f * rng.choice([1.0, 1.0, 1.0, 2.0, 0.5, -1.0, 1.03125, 0.0]) for f in rf]
        else:
            ef = [f * rng.choice([1.0, 1.0, -1.0]) for f in hz(ne)]
        ev = [rng.choice([0.0, 0.25, 0.5, 1.0, 1.0]) for _ in ef] if rng.random() < 0.35 else None
        rr = [rng.choice([0.25, 0.5, 1.0, 1.0, 0.0]) for _ in rf] if rng.random() < 0.3 else None
        hop = rng.choice([None, None, None, 1 / 64.0, 1 / 32.0, 3 / 64.0, 1 / 8.0, 1 / 128.0 if dec else 1 / 16.0])
        c = {'k': kind, 'rt': rt, 'rf': rf, 'et': et, 'ef': ef, 'ev': ev, 'rr': rr, 'hop': hop, 'tol': rng.choice([50.0, 50.0, 25.0, 100.0])}
        z = rng.random()
        if z < 0.02:
            c['rt'] = []
        elif z < 0.04:
            c['et'] = []
        elif z < 0.06 and ev is not None:
            c['ev'] = ev[:-1]
        elif z < 0.08 and rr is not None:
            c['rr'] = rr + [1.0]
        elif z < 0.10:
            c['ef'] = ef[:-1]
        elif z < 0.12:
            c['rf'] = rf[:-1]
        elif z < 0.13 and rr is not None:
            c['rr'][0] = 1.5
        elif z < 0.14:
            c['hop'] = rng.choice([0.0, -0.125])
        return c

    def gen(self, rng, n):
        out = []
        for _ in range(n):
            r = rng.random()
            if r < 0.08:
                m = rng.randint(0, 6)
                f = [rng.choice([0.0, 0.0, -0.0, 1.0, -1.0]) * 0.25 * rng.randint(1, 4000) for _ in range(m)]
                v = None if rng.random() < 0.4 else [rng.choice([0.0, 0.25, 0.5, 1.0]) for _ in range(m)]
                if v is not None and rng.random() < 0.15:
                    v = v[:-1] if v and rng.random() < 0.5 else v + [1.0]
                out.append({'k': 'f2v', 'f': f, 'v': v})
            elif r < 0.18:
                hop = rng.choice([1, 1, 2, 3, 4, 5, 8, 16, 64]) / rng.choice([64.0, 128.0, 1024.0])
                q = rng.random()
                if q < 0.4:
                    e = hop * rng.randint(0, 40)
                elif q < 0.6:
                    e = hop * rng.randint(0, 40) + rng.choice([1e-11, -1e-11, 4e-11, -4e-11, 6e-11, -6e-11, 2 ** -12, -(2 ** -12)])
                elif q < 0.9:
                    e = hop * rng.randint(0, 40 * 256) / 256.0
                else:
                    e = hop * 40 * rng.randint(-300, 1000) * 0.001
                if rng.random() < 0.05:
                    hop = -hop
                out.append({'k': 'hop', 'hop': hop, 'e': e})
            elif r < 0.62:
                out.append(self.gen_res(rng))
            elif r < 0.82:
                out.append(self.gen_tcv(rng, 'tcv'))
            else:
                out.append(self.gen_tcv(rng, 'eval'))
        return out

    # ------------------------------------------------------------------ implementation
    def run(self, case):
        from mir_eval import melody as M
        k = case['k']
        if k == 'f2v':
            o = call_w(M.freq_to_voicing, arr(case['f']), opt_arr(case['v']))
            if o[0] == 'ok':
                a, b = finl(o[1][0]), finl(o[1][1])
                return ['ok', [a, b], []]
            return o
        if k == 'hop':
            o = call_w(M.constant_hop_timebase, case['hop'], case['e'])
            if o[0] == 'ok':
                a = finl(o[1])
                return ['ok', a, o[2]] if a is not None else ['exc', 'NonFinite', o[2]]
            return o
        if k == 'res':
            o = call_w(M.resample_melody_series, arr(case['t']), arr(case['f']), arr(case['v']), arr(case['tn']))
            if o[0] == 'ok':
                a, b = finl(o[1][0]), finl(o[1][1])
                return ['ok', [a, b], o[2]] if a is not None and b is not None else ['exc', 'NonFinite', o[2]]
            return o
        args = (arr(case['rt']), arr(case['rf']), arr(case['et']), arr(case['ef']))
        kw = {'est_voicing': opt_arr(case['ev']), 'ref_reward': opt_arr(case['rr'])}
        if case['hop'] is not None:
            kw['hop'] = case['hop']
        if k == 'tcv':
            o = call_w(M.to_cent_voicing, *args, **kw)
            if o[0] == 'ok':
                ls = [finl(x) for x in o[1]]
                return ['ok', ls, o[2]] if all(x is not None for x in ls) else ['exc', 'NonFinite', o[2]]
            return o
        o = call_w(M.evaluate, *args, cent_tolerance=case['tol'], **kw)
        if o[0] == 'ok':
            ls = finl(list(o[1].values()))
            return ['ok', ls, []] if ls is not None else ['exc', 'NonFinite', []]
        return [o[0], o[1], []]

    def emit(self, case, out):
        k = case['k']
        w = core.cq_list(out[2])
        if k == 'f2v':
            return '(CF2V %s %s %s)' % (ql(case['f']), qopt(case['v']), core.cq_res(out, lambda p: '(%s,%s)' % (ql(p[0]), ql(p[1]))))
        if k == 'hop':
            return '(CHop %s %s %s)' % (core.cq_Q(case['hop']), core.cq_Q(case['e']), core.cq_res(out, ql))
        if k == 'res':
            return '(CRes %s %s %s %s %s %s)' % (ql(case['t']), ql(case['f']), ql(case['v']), ql(case['tn']), w,
                                                 core.cq_res(out, lambda p: '(%s,%s)' % (ql(p[0]), ql(p[1]))))
        common = '%s %s %s %s %s %s %s' % (ql(case['rt']), qpairs(case['rf'], cents_of(case['rf'])), ql(case['et']),
                                          qpairs(case['ef'], cents_of(case['ef'])), qopt(case['ev']), qopt(case['rr']),
                                          core.cq_opt(case['hop'], core.cq_Q))
        if k == 'tcv':
            return '(CTcv %s %s %s)' % (common, w, core.cq_res(out, lambda p: '(%s,%s,%s,%s)' % tuple(ql(x) for x in p)))
        return '(CEval %s %s %s)' % (common, core.cq_Q(case['tol']),
                                     core.cq_res(out, lambda p: '(%s,%s,%s,%s,%s)' % tuple(core.cq_Q(x) for x in p)))

    def nontrivial(self, case, out):
        if out[0] != 'ok':
            return False
        if case['k'] == 'res':
            return list(case['tn']) != list(case['t']) and any(x != 0 for x in out[1][0]) and any(x == 0 for x in out[1][0])
        if case['k'] == 'eval':
            return 0 < out[1][4] < 1
        return True

    def shrink(self, case):
        if case['k'] == 'res':
            for i in range(len(case['tn'])):
                c = dict(case)
                c['tn'] = case['tn'][:i] + case['tn'][i + 1:]
                yield c
            for i in range(len(case['t'])):
                c = dict(case)
                for key in ('t', 'f', 'v'):
                    c[key] = case[key][:i] + case[key][i + 1:]
                yield c
        elif case['k'] in ('tcv', 'eval'):
            for a, b, x in (('rt', 'rf', 'rr'), ('et', 'ef', 'ev')):
                for i in range(len(case[a])):
                    c = dict(case)
                    c[a] = case[a][:i] + case[a][i + 1:]
                    c[b] = case[b][:i] + case[b][i + 1:]
                    if case[x] is not None:
                        c[x] = case[x][:i] + case[x][i + 1:]
                    yield c
            if case['hop'] is not None:
                c = dict(case)
                c['hop'] = None
                yield c

    def distribution(self, pairs):
        d = {}

        def inc(k):
            d[k] = d.get(k, 0) + 1
        for c, o in pairs:
            k = c['k']
            inc(k + ':' + (o[1] if o[0] == 'exc' else 'ok'))
            for w in o[2]:
                inc(k + ':' + w)
            if k == 'res' and o[0] == 'ok':
                if len(c['t']) == len(c['tn']) and all(abs(a - b) <= 1e-8 + 1e-5 * abs(b) for a, b in zip(c['t'], c['tn'])):
                    inc('res:early_return')
                else:
                    if max(c['tn']) > max(c['t']):
                        inc('res:extended')
                    if any(v not in (0.0, 1.0) for v in c['v']):
                        inc('res:voicing_linear')
                    if any(x in c['t'] for x in c['tn']):
                        inc('res:target==source_time')
                    if any(f == 0 for f in c['f'][1:-1]):
                        inc('res:zero_inside')
                    if c['f'][0] == 0 or c['f'][-1] == 0:
                        inc('res:zero_at_end')
            if k in ('tcv', 'eval'):
                if c['hop'] is not None:
                    inc(k + ':hop')
                if c['ev'] is not None:
                    inc(k + ':est_voicing')
                if c['rr'] is not None:
                    inc(k + ':ref_reward')
                if c['rt'] and c['rt'][0] > 0 or c['et'] and c['et'][0] > 0:
                    inc(k + ':time0_inserted')
        return d


UNIT = U()
