"""Numeric tie of the entropic segment scores, certified inside Coq: segment.mutual_information (MI, NMI), segment.nce
(over, under, F; uniform normalisation) and segment.vmeasure (precision, recall, F) are called on interval annotations; the
generated case file states, for the frame-index sequences the implementation itself sampled,

    Rabs (<R formula of Proofs/SegmentEntropy.v on the contingency table> - <float output as the exact rational n/d>) <= 1/10^9

and every such goal is proved by the reflection lemmas + `interval` of Proofs/SegmentEntropyNum.v (tactic seg_num).  Also
checked per case: the implementation's _contingency_matrix is Model.SegmentCluster.contingency_tab of the two sequences.

Proof-style unit (core.Unit hooks write_shard / parse_output): each statement is tried under `first [assert .. by seg_num; OK | BAD]`
inside a `Goal True ... Qed`, so one failing goal does not stop the file and every accepted goal is kernel-checked at the Qed.

Known finding C01-nmi-noise: when exactly one annotation has a single class the NMI denominator is the 1e-10 clamp and the float
result is rounding noise of MI times 1e10 (~1e-6; exact value 0).  For those cases only -- and only when Coq itself computes
that the clamp is active (st_nmi_clamped = true) -- the NMI goal is stated with tolerance 1/10^4; all others use 1/10^9.
beta > 0 only (for beta = 0 util.f_measure divides 0 by 0 when the recall is 0).

AMI (mutual_information[1]) is tied to Proofs/SegmentAMI.ami with tolerance 1/10^7 (tactic seg_ami of Proofs/SegmentAMINum.v).  Known
finding C01-ami-nan: when both labellings are all-singletons the exact denominator max(H) - EMI is 0 and the float is nan or
noise/noise; for those cases the goal is instead st_ami_den0 (Coq proves that the exact denominator is 0) and the float is unconstrained."""
import math
import re
from fractions import Fraction
from lib import core

TAGS = ['tab', 'mi', 'nmi', 'ami', 'over', 'under', 'f', 'vp', 'vr', 'vf']
POOL = ['a', 'b', 'c', 'verse', 'chorus', 'x', 'bridge', 'Z', 'q1']
BETAS = [(1, 1), (1, 1), (1, 1), (1, 2), (2, 1), (1, 4)]


def _runs(seq, fs, names):
    """frame label sequence -> (boundaries, labels) of the contiguous annotation on the grid k*fs"""
    bounds, labels = [0.0], []
    for k, x in enumerate(seq):
        if k and seq[k - 1] == x:
            bounds[-1] = (k + 1) * fs
        else:
            bounds.append((k + 1) * fs)
            labels.append(names[x])
    return bounds, labels


def _case(yr, ye, fs, beta, kind, rng=None):
    names_r = list(POOL)
    names_e = list(POOL)
    if rng is not None:
        rng.shuffle(names_r)
        rng.shuffle(names_e)
    rb, rl = _runs(yr, fs, names_r)
    eb, el = _runs(ye, fs, names_e)
    return {'rb': rb, 'rl': rl, 'eb': eb, 'el': el, 'fs': fs, 'beta': list(beta), 'kind': kind}


def _intervals(bounds):
    import numpy as np
    return np.array([[bounds[i], bounds[i + 1]] for i in range(len(bounds) - 1)], dtype=float).reshape(-1, 2)


def _frac(x):
    x = float(x)
    if math.isnan(x) or math.isinf(x):
        return None
    f = Fraction(x)
    return [str(f.numerator), str(f.denominator)]


class U(core.Unit):
    name = 'seg_entropy_num'
    requires = ['ME.Proofs.SegmentEntropyNum', 'ME.Proofs.SegmentAMINum']
    mirrors = [('mir_eval/segment.py', f) for f in ['mutual_information', 'nce', 'vmeasure', '_contingency_matrix', '_mutual_info_score', '_entropy',
                                                   '_normalized_mutual_info_score', '_adjusted_mutual_info_score']] + [('mir_eval/util.py', 'f_measure')]
    counts = {'quick': 44, 'thorough': 580}
    shard = 16
    coq_timeout = 900

    # ---- generators -------------------------------------------------------------------------------------------
    def exhaustive(self, tier):
        out = []
        one = (1, 1)
        out.append(_case([0], [0], 0.25, one, 'one_frame'))
        out.append(_case([0, 0, 0, 0], [0, 0, 0, 0], 0.25, one, 'single_both'))
        out.append(_case([0, 0, 0, 0], [0, 0, 1, 1], 0.25, one, 'single_ref'))            # NMI clamp, the known witness
        out.append(_case([0, 0, 1, 2, 2, 2], [0, 0, 0, 0, 0, 0], 0.25, one, 'single_est'))
        out.append(_case([0, 0, 0, 0, 0, 0], [0, 1, 1, 2, 2, 2], 0.5, (1, 2), 'single_ref'))
        out.append(_case([0, 1], [0, 1], 0.25, one, 'identical'))
        out.append(_case([0, 0, 1, 1, 2], [1, 1, 0, 0, 2], 0.25, one, 'identical'))       # same partition, other names
        out.append(_case([0, 1, 2, 3, 4], [0, 1, 2, 3, 4], 0.5, (2, 1), 'identical'))     # all singletons
        out.append(_case([0, 0, 1, 1], [0, 1, 0, 1], 0.25, one, 'independent'))           # MI = 0, over = under = 0 for both normalisers
        out.append(_case([0, 0, 0, 1, 1, 1], [0, 1, 1, 0, 1, 1], 0.25, one, 'independent'))   # independent, est not uniform: nce over > 0
        out.append(_case([0, 1, 2, 0, 1, 2], [0, 0, 0, 1, 1, 1], 0.25, (1, 4), 'independent'))
        out.append(_case([0, 0, 1, 1, 2, 2], [0, 1, 1, 1, 0, 0], 0.25, one, 'random'))
        out.append(_case([0, 1, 2, 3, 4] * 12, [(k * 7 // 5) % 5 for k in range(60)], 0.25, one, 'random'))
        out.append(_case([k // 12 for k in range(60)], [(k // 3) % 5 for k in range(60)], 0.5, (1, 2), 'independent'))   # 5x5, all cells equal... rank one
        return out

    def _labelling(self, rng, n, k):
        k = max(1, min(k, n))
        if rng.random() < 0.6:
            seq = []
            while len(seq) < n:
                seq += [rng.randrange(k)] * rng.randint(1, max(1, n // 4))
            seq = seq[:n]
        else:
            seq = [rng.randrange(k) for _ in range(n)]
        return seq

    def gen(self, rng, n):
        cases = []
        while len(cases) < n:
            fs = rng.choice([0.25, 0.25, 0.5])
            beta = rng.choice(BETAS)
            r = rng.random()
            N = rng.choice([1, 2, 3, 4, 6, 8, 10, 12, 16, 20, 24, 30, 36, 40, 48, 55, 60, 60, 64, 80])
            if r < 0.08:
                yr = [0] * N
                ye = self._labelling(rng, N, rng.randint(1, 5))
                kind = 'single_ref'
                if rng.random() < 0.5:
                    yr, ye, kind = ye, yr, 'single_est'
            elif r < 0.16:
                yr = self._labelling(rng, N, rng.randint(1, 5))
                perm = list(range(5))
                rng.shuffle(perm)
                ye = [perm[x] for x in yr]
                kind = 'identical'
            elif r < 0.24:
                a = [rng.randint(1, 3) for _ in range(rng.randint(1, 4))]
                b = [rng.randint(1, 3) for _ in range(rng.randint(1, 4))]
                pairs = [(i, j) for i in range(len(a)) for j in range(len(b)) for _ in range(a[i] * b[j])]
                if rng.random() < 0.5:
                    rng.shuffle(pairs)
                yr, ye = [p[0] for p in pairs], [p[1] for p in pairs]
                kind = 'independent'
            elif r < 0.30:
                yr = self._labelling(rng, N, rng.randint(2, 5))
                ye = [x // 2 for x in yr]                                 # coarsening: H(est | ref) = 0
                kind = 'coarsening'
            elif r < 0.36:
                yr = self._labelling(rng, N, rng.randint(2, 5))
                ye = list(yr)
                for _ in range(rng.randint(1, 2)):                       # nearly identical
                    ye[rng.randrange(N)] = rng.randrange(5)
                kind = 'near_identical'
            else:
                yr = self._labelling(rng, N, rng.choice([2, 2, 3, 3, 4, 5, 5]))
                ye = self._labelling(rng, N, rng.choice([2, 2, 3, 3, 4, 5, 5]))
                kind = 'random'
            cases.append(_case(yr, ye, fs, beta, kind, rng))
        return cases

    # ---- implementation ---------------------------------------------------------------------------------------
    def run(self, case):
        import numpy as np
        from mir_eval import segment as S, util
        fs = case['fs']
        beta = case['beta'][0] / case['beta'][1]
        ri, ei = _intervals(case['rb']), _intervals(case['eb'])
        rl, el = list(case['rl']), list(case['el'])
        yr = [int(x) for x in util.index_labels(util.intervals_to_samples(ri, rl, sample_size=fs)[-1])[0]]
        ye = [int(x) for x in util.index_labels(util.intervals_to_samples(ei, el, sample_size=fs)[-1])[0]]
        tab = S._contingency_matrix(np.array(yr), np.array(ye))
        t1, mi = core.call_impl(S.mutual_information, ri, rl, ei, el, frame_size=fs)
        t2, nce = core.call_impl(S.nce, ri, rl, ei, el, frame_size=fs, beta=beta)
        t3, v = core.call_impl(S.vmeasure, ri, rl, ei, el, frame_size=fs, beta=beta)
        if not (t1 == t2 == t3 == 'ok'):
            return {'error': [t1, str(mi)[:80], t2, str(nce)[:80], t3, str(v)[:80]], 'yr': yr, 'ye': ye, 'tab': [[int(x) for x in r] for r in tab]}
        R, C = len(set(yr)), len(set(ye))
        clamped = (R == 1) != (C == 1)
        return {'yr': yr, 'ye': ye, 'tab': [[int(x) for x in r] for r in tab], 'clamped': clamped, 'ami_den0': R == C == len(yr) >= 2,
                'mi': _frac(mi[0]), 'nmi': _frac(mi[2]), 'ami': _frac(mi[1]), 'ami_repr': repr(float(mi[1])), 'nce': [_frac(x) for x in nce], 'v': [_frac(x) for x in v]}

    # ---- Coq side ---------------------------------------------------------------------------------------------
    def write_shard(self, pairs):
        nl = lambda l: '[' + ';'.join(str(int(x)) for x in l) + ']%nat'
        L = ['From Coq Require Import List Arith ZArith Reals.',
             'From ME Require Import Model.SegmentCluster Proofs.SegmentEntropy Proofs.SegmentEntropyNum Proofs.SegmentAMI Proofs.SegmentAMINum.',
             'Import ListNotations.', 'Local Open Scope R_scope.', '']

        def q(fr):
            return '(IZR (%s) / IZR %s)' % (fr[0], fr[1])

        def chk(k, tag, prop, tac='seg_num'):
            if prop is None:            # a non-finite or missing output cannot be within 1e-9 of a real number
                return '  idtac "CASE %d %s BAD".' % (k, tag)
            return '  first [ assert (%s) by %s; idtac "CASE %d %s OK" | idtac "CASE %d %s BAD" ].' % (prop, tac, k, tag, k, tag)

        for k, (c, o) in enumerate(pairs):
            L.append('Definition yr_%d := %s.' % (k, nl(o['yr'])))
            L.append('Definition ye_%d := %s.' % (k, nl(o['ye'])))
            y = 'yr_%d ye_%d' % (k, k)
            tol = '(1 / 10 ^ 9)'
            bn, bd = c['beta']
            L.append('Goal True.')
            L.append(chk(k, 'tab', 'st_tab %s [%s]' % (y, ';'.join(nl(r) for r in o['tab']))))
            if 'error' in o:
                for tag in TAGS[1:]:
                    L.append(chk(k, tag, None))
            else:
                L.append(chk(k, 'mi', o['mi'] and 'st_mi %s %s %s' % (y, tol, q(o['mi']))))
                if o['clamped']:
                    L.append(chk(k, 'nmi', o['nmi'] and 'st_nmi_clamped %s = true /\\ st_nmi %s (1 / 10 ^ 4) %s' % (y, y, q(o['nmi']))))
                else:
                    L.append(chk(k, 'nmi', o['nmi'] and 'st_nmi %s %s %s' % (y, tol, q(o['nmi']))))
                if o['ami_den0']:        # both labellings all singletons: Coq certifies that the exact denominator max(H) - EMI is 0;
                    L.append(chk(k, 'ami', 'st_ami_den0 %s' % y, 'seg_ami'))      # the float (nan, or noise/noise) is not constrained
                else:
                    L.append(chk(k, 'ami', o['ami'] and 'st_ami %s (1 / 10 ^ 7) %s' % (y, q(o['ami'])), 'seg_ami'))
                for tag, st, x in (('over', 'st_over %s %d %d false', o['nce'][0]), ('under', 'st_under %s %d %d false', o['nce'][1]),
                                   ('f', 'st_f %s %d %d false', o['nce'][2]), ('vp', 'st_vp %s %d %d', o['v'][0]),
                                   ('vr', 'st_vr %s %d %d', o['v'][1]), ('vf', 'st_vf %s %d %d', o['v'][2])):
                    L.append(chk(k, tag, x and (st % (y, bn, bd)) + ' %s %s' % (tol, q(x))))
            L.append('  exact I.')
            L.append('Qed.')
        L.append('')
        return '\n'.join(L)

    _LINE = re.compile(r'^CASE (\d+) (\w+) (OK|BAD)\s*$', re.M)

    def parse_output(self, text, returncode):
        if returncode != 0:
            return 'coqc failed (rc=%s): %s' % (returncode, text[-1500:])
        seen = {}
        for m in self._LINE.finditer(text):
            seen.setdefault(int(m.group(1)), {})[m.group(2)] = m.group(3)
        complete = [k for k, d in seen.items() if all(t in d for t in TAGS)]
        bad = sorted(k for k in complete if any(seen[k][t] == 'BAD' for t in TAGS))
        self.last_bad_tags = {k: [t for t in TAGS if seen[k][t] == 'BAD'] for k in bad}
        return len(complete), bad

    def emit(self, case, out):          # unused (write_shard writes the file)
        return ''

    def nontrivial(self, case, o):
        return 'error' not in o and len(o['tab']) >= 2 and len(o['tab'][0]) >= 2

    def shrink(self, case):
        """at most 16 candidates per round (each case costs 1-3 s of coqc): cut both annotations at an earlier grid time, or merge
        a few neighbouring segments"""
        def cut(bd, lb, t):
            keep = [x for x in bd if x < t]
            return keep + [t], lb[:len(keep)]
        end, fs = case['rb'][-1], case['fs']
        for t in (end / 2, 3 * end / 4, end - fs):
            t = math.floor(t / fs) * fs
            if 0 < t < end:
                c = dict(case)
                c['rb'], c['rl'] = cut(case['rb'], case['rl'], t)
                c['eb'], c['el'] = cut(case['eb'], case['el'], t)
                yield c
        for key, lk in (('rb', 'rl'), ('eb', 'el')):
            bd, lb = case[key], case[lk]
            inner = list(range(1, len(bd) - 1))
            step = max(1, len(inner) // 6)
            for i in inner[::step][:6]:
                c = dict(case)
                c[key] = bd[:i] + bd[i + 1:]
                c[lk] = lb[:i] + lb[i + 1:]
                yield c

    def distribution(self, pairs):
        d = {}

        def inc(k):
            d[k] = d.get(k, 0) + 1
        for c, o in pairs:
            inc('kind:' + c.get('kind', '?'))
            inc('shape:%dx%d' % (len(o['tab']), len(o['tab'][0]) if o['tab'] else 0))
            inc('frames<=%d' % (20 * ((len(o['yr']) + 19) // 20)))
            if 'error' in o:
                inc('impl_error')
                continue
            if o['clamped']:
                inc('nmi_clamped(tol 1e-4)')
            if o['ami_den0']:
                inc('ami_denominator_exactly_0 (float %s)' % o['ami_repr'])
            if any(0 in r for r in o['tab']):
                inc('zero_cell')
            inc('beta=%d/%d' % tuple(c['beta']))
            inc('fs=%s' % c['fs'])
        return d


UNIT = U()
