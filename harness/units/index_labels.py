"""util.index_labels (indices and index_to_label) on mixed-case labels vs ME.Model.SegmentCluster.index_labels_cs,
plus str.lower() on every code point < 256 vs lower_char."""
from lib import core

WORDS = ['a', 'A', 'b', 'B', 'verse', 'Verse', 'VERSE', 'vErSe', 'chorus', 'Chorus', '', ' ', 'ab', 'aB', 'Ab', 'abc', 'ABD', 'Z', 'z', 'a1', 'A1',
         'silence', 'Silence', 'N', 'n', '_', '[', 'intro', 'Intro ', 'a_', 'A[', 'a`', 'A@', 'Été', 'éTÉ', '×', '÷', 'ß', 'Þ', 'þ',
         'ÿ', 'µ', 'ZÀ', 'zà']


class U(core.Unit):
    name = 'index_labels'
    requires = ['ME.Model.Prelude', 'ME.Model.SegmentCluster']
    mirrors = [('mir_eval/util.py', 'index_labels')]
    counts = {'quick': 1200, 'thorough': 12000}
    shard = 400
    header = '''
Inductive case :=
| IL (cs : bool) (labels : list str) (out : res (list nat * list str))
| LC (c : nat) (lowered : str).
Definition out_eqb (a b : list nat * list str) : bool :=
  list_eqb Nat.eqb (fst a) (fst b) && list_eqb seqb (snd a) (snd b).
Definition check_case (c : case) : bool :=
  match c with
  | IL cs labels out => res_eqb out_eqb (index_labels_cs cs labels) out
  | LC c lowered => seqb (lower [c]) lowered
  end.
Open Scope nat_scope.
'''

    def exhaustive(self, tier):
        out = [{'kind': 'lc', 'c': c} for c in range(256)]
        out += [{'kind': 'il', 'cs': cs, 'labels': l} for cs in (False, True) for l in
                [[], [''], ['a'], ['A'], ['a', 'A'], ['B', 'a', 'A', 'b', 'Ab', ''], ['b', 'a', 'b'], ['Z', 'a'], ['z', 'A'], ['ab', 'a', 'abc', 'Ab'],
                 ['a', 'a', 'a'], ['[', 'a', 'Z', '_', 'z'], ['É', 'é', 'z', 'Z', '×', '÷']]]
        return out

    def gen(self, rng, n):
        cases = []
        for _ in range(n):
            k = rng.choice([0, 1, 2, 3, 4, 5, 6, 8, 12, 20])
            r = rng.random()
            if r < 0.6:
                pool = rng.sample(WORDS, rng.randint(1, 8))
                labels = [rng.choice(pool) for _ in range(k)]
            elif r < 0.85:
                # random short strings over a small alphabet with both cases: many near-collisions and prefixes
                labels = [''.join(rng.choice('aAbBzZ_[1') for _ in range(rng.randint(0, 3))) for _ in range(k)]
            else:
                labels = [''.join(chr(rng.randint(32, 255)) for _ in range(rng.randint(0, 4))) for _ in range(k)]
            cases.append({'kind': 'il', 'cs': rng.random() < 0.25, 'labels': labels})
        return cases

    def run(self, case):
        from mir_eval import util
        if case['kind'] == 'lc':
            return [ord(ch) for ch in chr(case['c']).lower()]
        t, v = core.call_impl(util.index_labels, list(case['labels']), case_sensitive=case['cs'])
        if t != 'ok':
            return ['exc', v]
        idx, i2l = v
        return ['ok', [[int(i) for i in idx], [[ord(ch) for ch in i2l[k]] for k in range(len(i2l))]]]

    def emit(self, case, out):
        codes = lambda cs: '(' + core.cq_list([str(c) for c in cs]) + ')'
        if case['kind'] == 'lc':
            return '(LC %d %s)' % (case['c'], codes(out))
        labels = core.cq_list([core.cq_str(s) for s in case['labels']])
        o = core.cq_res(out, lambda v: '(%s,%s)' % (core.cq_list([str(i) for i in v[0]]), core.cq_list([codes(s) for s in v[1]])))
        return '(IL %s %s %s)' % (core.cq_bool(case['cs']), labels, o)

    def nontrivial(self, case, out):
        return case['kind'] == 'il' and out[0] == 'ok' and len(out[1][1]) >= 2 and \
            len(set(case['labels'])) > len(out[1][1]) - (1 if case['cs'] else 0)

    def shrink(self, case):
        if case['kind'] == 'il':
            l = case['labels']
            for i in range(len(l)):
                yield {'kind': 'il', 'cs': case['cs'], 'labels': l[:i] + l[i + 1:]}

    def distribution(self, pairs):
        d = {}
        for c, o in pairs:
            if c['kind'] == 'lc':
                k = 'lower_char'
            else:
                merged = (not c['cs']) and len(set(c['labels'])) > len(o[1][1])
                k = ('case_sensitive' if c['cs'] else 'insensitive') + (':case_merged' if merged else '')
            d[k] = d.get(k, 0) + 1
        return d


UNIT = U()
