"""util.merge_labeled_intervals vs ME.Model.Intervals.merge_labeled_intervals: same rows (exact), same two label lists,
same exception class (ValueError for unaligned spans, IndexError for empty inputs / label lists of the wrong length /
an output start below every start of one annotation).

Both annotations are drawn on a lattice 1/4 ... 1/64; the second annotation copies boundaries of the first in more
than 40 % of the cases; gaps inside an annotation are generated deliberately (the implementation gives a gap the label
of the preceding interval)."""
from lib import core


def q(x):
    return core.cq_Q(x)


def segmentation(rng, lo, hi, den, pool, gaps):
    """time-ordered intervals from lo to hi (lattice integers), inner boundaries partly copied from pool"""
    k = rng.choice([0, 0, 1, 1, 2, 3, 4])
    inner = set()
    for _ in range(k):
        if pool and rng.random() < 0.55:
            c = rng.choice(pool)
        else:
            c = rng.randrange(lo, hi + 1)
        if lo < c < hi:
            inner.add(c)
    b = [lo] + sorted(inner) + [hi]
    ivs = [[b[i], b[i + 1]] for i in range(len(b) - 1)]
    if gaps and len(ivs) >= 2:
        # shrink some intervals to open gaps (first start and last end stay)
        for i in range(len(ivs) - 1):
            if rng.random() < 0.4 and ivs[i][1] - ivs[i][0] >= 2:
                ivs[i][1] = rng.randrange(ivs[i][0] + 1, ivs[i][1])
    return [[u / den, v / den] for u, v in ivs]


class U(core.Unit):
    name = 'merge_intervals'
    requires = ['ME.Model.Prelude', 'ME.Model.Intervals']
    mirrors = [('mir_eval/util.py', 'merge_labeled_intervals')]
    counts = {'quick': 1800, 'thorough': 18000}
    shard = 400
    header = '''
Open Scope Q_scope.
Definition ivs_eqb := list_eqb (pair_eqb Qeqb Qeqb).
Definition out_eqb (a b : list (Q * Q) * list nat * list nat) : bool :=
  ivs_eqb (fst (fst a)) (fst (fst b)) && list_eqb Nat.eqb (snd (fst a)) (snd (fst b)) && list_eqb Nat.eqb (snd a) (snd b).
Definition check_case (c : list (Q * Q) * list nat * list (Q * Q) * list nat * res (list (Q * Q) * list nat * list nat)) : bool :=
  let '(xi, xl, yi, yl, o) := c in res_eqb out_eqb (merge_labeled_intervals xi xl yi yl) o.
'''

    def exhaustive(self, tier):
        out = []
        base = [[], [[0.0, 1.0]], [[0.0, 2.0]], [[0.0, 1.0], [1.0, 2.0]], [[0.0, 0.5], [1.0, 2.0]], [[1.0, 2.0]],
                [[0.0, 1.0], [1.5, 2.0]], [[1.0, 1.0]], [[2.0, 1.0]], [[0.0, 0.5], [0.5, 1.0], [1.0, 2.0]]]
        for x in base:
            for y in base:
                out.append({'x': x, 'y': y, 'xl': len(x), 'yl': len(y)})
        out.append({'x': [[0.0, 1.0], [1.0, 2.0]], 'y': [[0.0, 2.0]], 'xl': 1, 'yl': 1})
        out.append({'x': [[0.0, 1.0], [1.0, 2.0]], 'y': [[0.0, 2.0]], 'xl': 3, 'yl': 1})
        out.append({'x': [[0.0, 1.0], [1.0, 2.0]], 'y': [[0.0, 2.0]], 'xl': 2, 'yl': 2})
        out.append({'x': [[1.0, 1.0]], 'y': [[1.0, 1.0]], 'xl': 0, 'yl': 3})
        return out

    def late_near_coincident(self, rng):
        """two contiguous annotations late in a track whose inner boundaries are distinct but closer than any relative float tolerance
        (2**-10 .. 2**-16 s apart at t ~ 200 .. 4000 s): all values are dyadic, so exact"""
        base = float(rng.choice([200, 1000, 2000, 4000]))
        eps = 2.0 ** -rng.choice([10, 12, 14, 16])
        k = rng.choice([2, 3])
        xs = [base + 4.0 * i for i in range(k + 1)]
        ys = [xs[0]] + [v + rng.choice([eps, -eps]) for v in xs[1:-1]] + [xs[-1]]
        x = [[xs[i], xs[i + 1]] for i in range(k)]
        y = [[ys[i], ys[i + 1]] for i in range(k)]
        return {'x': x, 'y': y, 'xl': k, 'yl': k}

    def gen(self, rng, n):
        cases = [self.late_near_coincident(rng) for _ in range(max(10, n // 20))]
        for t in range(n):
            den = rng.choice([4, 8, 16, 32, 64])
            lo = rng.randrange(0, 3 * den)
            hi = lo + rng.randrange(1, 8 * den)
            gaps = rng.random() < 0.35
            x = segmentation(rng, lo, hi, den, [], gaps)
            pool = [int(round(v * den)) for r in x for v in r]
            r = rng.random()
            ylo, yhi = lo, hi
            if r < 0.08:
                yhi = hi + rng.choice([-1, 1, 2])
            elif r < 0.16:
                ylo = lo + rng.choice([-1, 1])
            if yhi <= ylo:
                yhi = ylo + 1
            y = segmentation(rng, ylo, yhi, den, pool, rng.random() < 0.35)
            c = {'x': x, 'y': y, 'xl': len(x), 'yl': len(y)}
            r = rng.random()
            if r < 0.03:
                c['x'] = []
                c['xl'] = 0
            elif r < 0.06:
                c['y'] = []
                c['yl'] = 0
            elif r < 0.10:
                c['xl'] = max(0, len(x) + rng.choice([-1, 1]))
            elif r < 0.14:
                c['yl'] = max(0, len(y) + rng.choice([-1, 1]))
            elif r < 0.18 and len(c['x']) >= 2:
                rng.shuffle(c['x'])
            elif r < 0.22:
                i = rng.randrange(len(c['y']))
                c['y'][i] = [c['y'][i][1], c['y'][i][0]]
            if rng.random() < 0.5:
                c = {'x': c['y'], 'y': c['x'], 'xl': c['yl'], 'yl': c['xl']}
            cases.append(c)
        return cases

    def run(self, case):
        import numpy as np
        from mir_eval import util
        x = np.array(case['x'], dtype=float).reshape(-1, 2)
        y = np.array(case['y'], dtype=float).reshape(-1, 2)
        xl = list(range(1, case['xl'] + 1))
        yl = list(range(11, case['yl'] + 11))
        tag, val = core.call_impl(util.merge_labeled_intervals, x, xl, y, yl)
        if tag == 'exc':
            return ['exc', val]
        oi, a, b = val
        return ['ok', [[float(r[0]), float(r[1])] for r in np.asarray(oi, dtype=float).reshape(-1, 2)],
                [int(v) for v in a], [int(v) for v in b]]

    def emit(self, case, out):
        def ivs(l):
            return core.cq_list(['(%s,%s)' % (q(u), q(v)) for u, v in l])

        def nl(l):
            return core.cq_list([str(v) for v in l]) + '%nat'
        xl = list(range(1, case['xl'] + 1))
        yl = list(range(11, case['yl'] + 11))
        if out[0] == 'ok':
            o = '(Ok (%s,%s,%s))' % (ivs(out[1]), nl(out[2]), nl(out[3]))
        else:
            o = '(Raise %s)' % core.cq_exn(out[1])
        return '(%s,%s,%s,%s,%s)' % (ivs(case['x']), nl(xl), ivs(case['y']), nl(yl), o)

    def nontrivial(self, case, out):
        return out[0] == 'ok' and len(out[1]) >= 2

    def shrink(self, case):
        for k, kl in (('x', 'xl'), ('y', 'yl')):
            v = case[k]
            for i in range(len(v)):
                c = dict(case)
                c[k] = v[:i] + v[i + 1:]
                c[kl] = max(0, case[kl] - 1)
                yield c

    def distribution(self, pairs):
        d = {}

        def inc(k):
            d[k] = d.get(k, 0) + 1

        def has_gap(v):
            return any(v[i][1] != v[i + 1][0] for i in range(len(v) - 1))
        for c, o in pairs:
            if o[0] == 'exc':
                inc('raises ' + o[1])
            else:
                inc('ok, rows=%d' % min(len(o[1]), 6))
                bx = set(v for r in c['x'] for v in r)
                by = set(v for r in c['y'] for v in r)
                if len(bx & by) > 2:
                    inc('shared inner boundary')
            if has_gap(c['x']) or has_gap(c['y']):
                inc('has gap')
            if c['xl'] != len(c['x']) or c['yl'] != len(c['y']):
                inc('label length mismatch')
        return d


UNIT = U()
