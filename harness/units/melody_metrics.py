"""melody.voicing_recall / voicing_false_alarm / voicing_measures / raw_pitch_accuracy / raw_chroma_accuracy /
overall_accuracy (and the warnings of validate_voicing / validate) vs ME.Model.Melody on (voicing, cent) arrays.

Lattice: cents are multiples of 1/4 (|c| < 2^14), tolerances multiples of 1/4, voicing values in {0, 1/4, 1/2, 1} or
boolean arrays: every +, -, *, comparison NumPy performs before the final division is exact. Differences exactly at
the tolerance, exactly at the 600 + 1200k folding points and exactly at 1200k +- tolerance are constructed."""
import warnings
from lib import core

WARN = [('Reference voicing array is empty', 'W_ref_voicing_empty'), ('Estimated voicing array is empty', 'W_est_voicing_empty'),
        ('Reference melody has no voiced', 'W_ref_no_voiced'), ('Estimated melody has no voiced', 'W_est_no_voiced'),
        ('Reference frequency array is empty', 'W_ref_freq_empty'), ('Estimated frequency array is empty', 'W_est_freq_empty'),
        ('Non-uniform timescale', 'W_nonuniform')]


def warn_tag(msg):
    for pre, tag in WARN:
        if msg.startswith(pre):
            return tag
    return None        # NumPy RuntimeWarnings etc. are not mir_eval warnings


def call_w(fn, *args, **kw):
    """-> [tag, value, [mir_eval warning tags in emission order]]"""
    with warnings.catch_warnings(record=True) as rec:
        warnings.simplefilter('always')
        try:
            out = ['ok', fn(*args, **kw)]
        except Exception as e:  # noqa
            out = ['exc', type(e).__name__]
    tags = [warn_tag(str(w.message)) for w in rec]
    return out + [[t for t in tags if t]]


def fin(x):
    import math
    x = float(x)
    return x if math.isfinite(x) else None


def score(o):
    if o[0] != 'ok':
        return ['exc', o[1]]
    v = fin(o[1])
    return ['ok', v] if v is not None else ['exc', 'NonFinite']


VOICING = [0.0, 0.25, 0.5, 1.0]
TOLS = [50.0, 50.0, 50.0, 25.0, 100.0, 12.5, 0.25, 0.0, 600.0, 650.0, 1200.0, -1.0, 37.75]


def deltas(rng, tol):
    k = rng.choice([0, 0, 1, 1, 2, -1, 3])
    base = 1200.0 * k
    return rng.choice([
        0.0, tol, -tol, tol - 0.25, tol + 0.25, -(tol - 0.25), -(tol + 0.25),
        600.0, -600.0, 599.75, 600.25, 1800.0, -1800.0, 1799.75, 1800.25, 3000.0,
        base, base + tol, base - tol, base + tol - 0.25, base - tol + 0.25, base + tol + 0.25, base - tol - 0.25,
        base + 600.0, base + 599.75, base + 600.25, base + 0.25 * rng.randint(-2400, 2400),
        0.25 * rng.randint(-400, 400), 0.25 * rng.randint(-20000, 20000)])


class U(core.Unit):
    name = 'melody_metrics'
    requires = ['ME.Model.Prelude', 'ME.Model.Melody']
    mirrors = [('mir_eval/melody.py', f) for f in ['validate_voicing', 'validate', 'voicing_recall', 'voicing_false_alarm',
                                                   'voicing_measures', 'raw_pitch_accuracy', 'raw_chroma_accuracy',
                                                   'overall_accuracy']]
    counts = {'quick': 2500, 'thorough': 20000}
    shard = 500
    header = '''
Open Scope Q_scope.
Definition tolq : Q := 1#1000000000.
Definition rq := res_eqb (Qclose tolq).
Definition rqq := res_eqb (pair_eqb (Qclose tolq) (Qclose tolq)).
Definition wl := list_eqb mwarn_eqb.
Definition check_case (c : (list Q * list Q * list Q * list Q * Q)
                           * (res Q * res Q * res (Q * Q) * res Q * res Q * res Q) * (list mwarn * list mwarn)) : bool :=
  let '((rv, rc, ev, ec, tol), (vr, vfa, vm, rpa, rca, oa), (wv, wm)) := c in
  rq (voicing_recall rv ev) vr && rq (voicing_false_alarm rv ev) vfa && rqq (voicing_measures rv ev) vm
  && rq (raw_pitch_accuracy rv rc ev ec tol) rpa && rq (raw_chroma_accuracy rv rc ev ec tol) rca
  && rq (overall_accuracy rv rc ev ec tol) oa
  && wl (validate_voicing_warns rv ev) wv && wl (metric_warns rv rc ev ec) wm.
'''

    # case = {'rv','rc','ev','ec': lists of floats, 'tol': float, 'rb','eb': pass the voicing as bool arrays}
    def exhaustive(self, tier):
        C = lambda rv, rc, ev, ec, tol=50.0, rb=False, eb=False: {'rv': rv, 'rc': rc, 'ev': ev, 'ec': ec, 'tol': tol, 'rb': rb, 'eb': eb}
        out = [C([], [], [], []), C([], [], [], [], rb=True, eb=True), C([1.0], [100.0], [], []), C([], [], [1.0], [100.0]),
               C([1.0], [], [1.0], []), C([1.0], [100.0], [1.0], []), C([1.0], [], [1.0], [100.0]),
               C([0.0, 0.0], [0.0, 0.0], [0.0, 0.0], [0.0, 0.0]), C([0.0, 0.0], [300.0, 0.0], [1.0, 0.5], [300.0, 200.0]),
               C([1.0, 1.0], [0.0, 0.0], [1.0, 1.0], [0.0, 0.0]),       # voiced frames at cent value 0 (= base frequency)
               C([1.0, 1.0], [100.0, 200.0], [1.0, 1.0], [0.0, 0.0]),
               C([1.0, 0.0, 1.0], [100.0, 0.0, 300.0], [1.0, 0.0, 1.0], [100.0, 0.0, 300.0]),
               C([1.0, 0.0, 1.0], [100.0, 0.0, 300.0], [1.0, 0.0, 1.0], [100.0, 0.0, 300.0], rb=True, eb=True),
               C([1.0, 1.0], [100.0, 100.0], [1.0], [100.0]), C([1.0], [100.0], [1.0, 1.0], [100.0, 100.0]),
               C([1.0, 1.0, 0.0], [1.0, 1.0, 1.0], [0.5], [1.0]), C([0.0, 0.0, 0.0], [1.0, 1.0, 1.0], [0.5, 0.5], [1.0, 1.0]),
               C([1.0, 0.0, 0.0], [1.0, 1.0, 1.0], [0.5, 0.5], [1.0, 1.0]), C([1.0], [1.0], [0.5, 1.0, 1.0], [1.0, 1.0, 1.0]),
               C([1.25], [100.0], [1.0], [100.0]), C([1.0], [100.0], [-0.25], [100.0]), C([-1.0, 1.0], [100.0, 100.0], [1.0, 1.0], [100.0, 100.0]),
               C([1.0], [100.0], [5.0], [100.0])]
        # one frame, every interesting difference against every tolerance, both orders
        for tol in [50.0, 0.25, 0.0, 600.0, 650.0, -1.0]:
            for d in [0.0, 0.25, tol - 0.25, tol, tol + 0.25, 600.0 - tol, 599.75, 600.0, 600.25, 1200.0 - tol - 0.25, 1200.0 - tol,
                      1200.0 - tol + 0.25, 1200.0, 1200.0 + tol - 0.25, 1200.0 + tol, 1800.0, 2400.0 - tol, 2400.0, 3000.0]:
                for rvv, evv in [(1.0, 1.0), (0.5, 0.25), (1.0, 0.0)]:
                    out.append(C([rvv, 0.0], [1000.0, 0.0], [evv, 0.25], [1000.0 + d, 500.0], tol))
                    out.append(C([rvv, 1.0], [4000.0, 700.0], [evv, 1.0], [4000.0 - d, 700.0], tol))
        return out

    def gen(self, rng, n):
        out = []
        for _ in range(n):
            kind = rng.random()
            m = rng.choice([1, 1, 2, 3, 4, 5, 6, 8, 12])
            tol = rng.choice(TOLS)
            style = rng.choice(['binary', 'binary', 'cont', 'cont', 'bool', 'allunv', 'estunv'])
            rv, rc, ev, ec = [], [], [], []
            for i in range(m):
                if style in ('binary', 'bool'):
                    a, b = float(rng.random() < 0.7), float(rng.random() < 0.7)
                elif style == 'cont':
                    a, b = rng.choice(VOICING), rng.choice(VOICING)
                elif style == 'allunv':
                    a, b = 0.0, rng.choice(VOICING)
                else:
                    a, b = rng.choice(VOICING), 0.0
                r = 0.25 * rng.randint(-2000, 28000)
                if a == 0 and rng.random() < 0.8 or rng.random() < 0.05:
                    r = 0.0
                e = r + deltas(rng, tol) if r != 0 or rng.random() < 0.5 else 0.25 * rng.randint(0, 28000)
                if rng.random() < (0.6 if b == 0 and style != 'estunv' else 0.06):
                    e = 0.0
                rv.append(a), rc.append(r), ev.append(b), ec.append(e)
            if style in ('binary', 'bool') and rng.random() < 0.25:      # perfect estimate
                ev, ec = list(rv), list(rc)
            c = {'rv': rv, 'rc': rc, 'ev': ev, 'ec': ec, 'tol': tol, 'rb': style == 'bool', 'eb': style == 'bool' and rng.random() < 0.7}
            if kind > 0.9:        # malformed stream: lengths, ranges
                which = rng.choice(['rv', 'rc', 'ev', 'ec', 'rv+rc', 'ev+ec', 'range_r', 'range_e', 'one'])
                if which in ('rv', 'rc', 'ev', 'ec'):
                    c[which] = c[which][:-1] if rng.random() < 0.6 else c[which] + [c[which][-1]]
                elif which == 'rv+rc':
                    c['rv'], c['rc'] = c['rv'][:-1], c['rc'][:-1]
                elif which == 'ev+ec':
                    c['ev'], c['ec'] = c['ev'] + [1.0], c['ec'] + [100.0]
                elif which == 'range_r':
                    c['rv'][rng.randrange(m)] = rng.choice([-0.25, 1.25, 2.0, -1.0])
                    c['rb'] = False
                elif which == 'range_e':
                    c['ev'][rng.randrange(m)] = rng.choice([-0.25, 1.25, 2.0, -1.0])
                    c['eb'] = False
                else:             # broadcasting in the direct voicing_recall / voicing_false_alarm calls
                    if rng.random() < 0.5:
                        c['ev'], c['ec'] = c['ev'][:1], c['ec'][:1]
                    else:
                        c['rv'], c['rc'] = c['rv'][:1], c['rc'][:1]
            out.append(c)
        return out

    def arrays(self, case):
        import numpy as np
        rv = np.array(case['rv'], dtype=bool if case['rb'] else float)
        ev = np.array(case['ev'], dtype=bool if case['eb'] else float)
        return rv, np.array(case['rc'], dtype=float), ev, np.array(case['ec'], dtype=float)

    def run(self, case):
        from mir_eval import melody as M
        rv, rc, ev, ec = self.arrays(case)
        tol = case['tol']
        vr = call_w(M.voicing_recall, rv, ev)
        vfa = call_w(M.voicing_false_alarm, rv, ev)
        vm = call_w(M.voicing_measures, rv, ev)
        rpa = call_w(M.raw_pitch_accuracy, rv, rc, ev, ec, cent_tolerance=tol)
        rca = call_w(M.raw_chroma_accuracy, rv, rc, ev, ec, cent_tolerance=tol)
        oa = call_w(M.overall_accuracy, rv, rc, ev, ec, cent_tolerance=tol)
        if vm[0] == 'ok':
            a, b = fin(vm[1][0]), fin(vm[1][1])
            vmo = ['ok', [a, b]] if a is not None and b is not None else ['exc', 'NonFinite']
        else:
            vmo = ['exc', vm[1]]
        same = rpa[2] == rca[2] == oa[2]
        return {'vr': score(vr), 'vfa': score(vfa), 'vm': vmo, 'rpa': score(rpa), 'rca': score(rca), 'oa': score(oa),
                'wv': vm[2], 'wm': rpa[2] if same else ['W_nonuniform']}   # the three must warn identically

    def emit(self, case, out):
        ql = lambda l: core.cq_list([core.cq_Q(float(x)) for x in l])
        inp = '(%s,%s,%s,%s,%s)' % (ql(case['rv']), ql(case['rc']), ql(case['ev']), ql(case['ec']), core.cq_Q(case['tol']))
        rq = lambda o: core.cq_res(o, core.cq_Q)
        vm = core.cq_res(out['vm'], lambda p: '(%s,%s)' % (core.cq_Q(p[0]), core.cq_Q(p[1])))
        outs = '(%s,%s,%s,%s,%s,%s)' % (rq(out['vr']), rq(out['vfa']), vm, rq(out['rpa']), rq(out['rca']), rq(out['oa']))
        ws = '(%s,%s)' % (core.cq_list(out['wv']), core.cq_list(out['wm']))
        return '(%s,%s,%s)' % (inp, outs, ws)

    def nontrivial(self, case, out):
        return out['rpa'][0] == 'ok' and out['rca'][0] == 'ok' and 0 < out['rca'][1] and out['oa'][0] == 'ok' and 0 < out['oa'][1] < 1

    def shrink(self, case):
        m = max(len(case[k]) for k in ('rv', 'rc', 'ev', 'ec'))
        for i in range(m):
            c = dict(case)
            for k in ('rv', 'rc', 'ev', 'ec'):
                c[k] = case[k][:i] + case[k][i + 1:]
            yield c

    def distribution(self, pairs):
        d = {}

        def inc(k):
            d[k] = d.get(k, 0) + 1
        for c, o in pairs:
            n = len(c['rv'])
            inc('empty' if n == 0 else 'frames<=%d' % (4 * ((n + 3) // 4)))
            inc('rpa:' + (o['rpa'][1] if o['rpa'][0] == 'exc' else 'ok'))
            inc('vr:' + (o['vr'][1] if o['vr'][0] == 'exc' else 'ok'))
            if c['rb'] or c['eb']:
                inc('bool_arrays')
            if any(v not in (0.0, 1.0) for v in c['rv'] + c['ev']):
                inc('continuous_voicing')
            if o['rpa'][0] == 'ok':
                if n and sum(c['rv']) == 0:
                    inc('ref_all_unvoiced')
                if len(c['rc']) == len(c['ec']):
                    ds = [abs(r - e) for r, e in zip(c['rc'], c['ec']) if r != 0 and e != 0]
                    if n and not ds:
                        inc('no_nonzero_pair')
                    if any(x == c['tol'] for x in ds):
                        inc('diff==tol')
                    if any(x % 1200 == 600 for x in ds):
                        inc('diff==600+1200k')
                    if any(x >= 600 and abs(x - 1200 * ((x + 600) // 1200)) == c['tol'] for x in ds):
                        inc('chroma_diff==tol')
                    if o['rca'][1] > o['rpa'][1]:
                        inc('rca>rpa')
            for w in o['wm']:
                inc(w)
        return d


UNIT = U()
