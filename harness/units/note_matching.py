"""transcription.match_note_onsets / match_note_offsets / match_notes vs ME.Model.Transcription.

Compared exactly, inside Coq: (1) the graph handed to util._bipartite_match (captured by wrapping it), i.e. the hit
set *and* its enumeration order, against build_graph (hits_where ...); (2) the returned sorted list of pairs (or the
exception class) against the model's matcher.  The model rounds where NumPy rounds (fl64), so the generators are not
restricted to exact lattices: lattice times (multiples of 1/64, distances exactly at lattice tolerances), 5-decimal
times (0.05004 -> np.around gives the double 0.05; 0.05005 -> a rounding tie), and arbitrary doubles.  Pitches: the
model receives the implementation's own np.log2 values as exact fractions."""
from fractions import Fraction
from lib import core

_EXACT = None


def exact_log_pitches():
    """Hz values h = fl(2**t), t a multiple of 1/64, with np.log2(h) == t exactly."""
    global _EXACT
    if _EXACT is None:
        import numpy as np
        out = []
        for k in range(5 * 64, 12 * 64 + 1):
            t = k / 64.0
            h = 2.0 ** t
            if float(np.log2(np.array([h, h, h]))[1]) == t:
                out.append((h, t))
        _EXACT = out
    return _EXACT


LAT_TOLS = [1 / 64., 1 / 32., 3 / 64., 1 / 16., 1 / 8., 1 / 4.]
DEC_DELTAS = [0.05, 0.05004, 0.04996, 0.05005, 0.04995, 0.0501, 0.0499, 0.1, 0.10004, 0.0, 0.00004, 0.00005, 0.00015, 0.2, 0.20004]


def gen_times(rng, n, mode):
    """n (onset, offset) pairs."""
    out = []
    for _ in range(n):
        if mode == 'lattice':
            on = rng.randint(0, 6 * 64) / 64.
            du = rng.choice([1, 2, 4, 8, 16, 16, 32, 32, 64, 64, 96, 128]) / 64.
            out.append([on, on + du])
        elif mode == 'decimal':
            on = round(rng.uniform(0, 6), rng.choice([2, 3, 4, 5]))
            du = round(rng.choice([0.05, 0.1, 0.25, 0.3, 0.5, 1.0, 1.5, rng.uniform(0.01, 2)]), 5)
            out.append([on, float(Fraction(str(on)) + Fraction(str(du)))])
        else:
            on = rng.uniform(0, 6)
            out.append([on, on + rng.uniform(1e-3, 2)])
    return out


def perturb(rng, t, mode):
    if mode == 'lattice':
        return max(0.0, t + rng.choice([0, 0, 0, 1, -1, 2, -2, 3, -3, 4, -4, 8, -8, 16, -16, 5, -5]) / 64.)
    if mode == 'decimal':
        d = rng.choice(DEC_DELTAS) * rng.choice([1, -1])
        # decimal arithmetic on the shortest repr of t, then the nearest double
        v = Fraction(repr(t)) + Fraction(str(d))
        return float(v) if v >= 0 else t
    return max(0.0, t + rng.choice([0, 0.05, -0.05, 0.049, -0.051, rng.uniform(-0.1, 0.1)]))


def gen_pitch(rng, pmode):
    if pmode == 'exact':
        return rng.choice(exact_log_pitches())[0]
    if pmode == 'semitone':
        return 440.0 * 2.0 ** (rng.randint(-24, 24) / 12.)
    if pmode == 'few':
        return rng.choice([440.0, 440.0, 220.0, 466.1637615180899, 452.8929841231365, 256.0, 512.0])
    return rng.uniform(50, 2000)


def detune(rng, h, pmode):
    r = rng.random()
    if r < 0.45:
        return h
    if pmode == 'exact':
        ex = exact_log_pitches()
        import math
        t = math.log2(h) + rng.choice([1, -1, 2, -2, 3, -3, 4, -4, 8, -8, 64, -64]) / 64.
        cands = [x for x in ex if x[1] == t]
        return cands[0][0] if cands else h
    c = rng.choice([50, -50, 49, -49, 51, -51, 100, -100, 25, -25, 1200, -1200, rng.uniform(-120, 120)])
    return h * 2.0 ** (c / 1200.)


class U(core.Unit):
    name = 'note_matching'
    requires = ['ME.Model.Prelude', 'ME.Model.Dict', 'ME.Model.Matching', 'ME.Model.Events', 'ME.Model.Transcription']
    mirrors = [('mir_eval/transcription.py', f) for f in ('match_note_onsets', 'match_note_offsets', 'match_notes', 'N_DECIMALS')] + \
              [('mir_eval/util.py', f) for f in ('_bipartite_match', 'intervals_to_durations', 'validate_intervals')]
    counts = {'quick': 1500, 'thorough': 20000}
    shard = 250
    header = '''
Inductive fn := FOn | FOff | FNotes.
Definition eqnn (a b : nat * nat) : bool := Nat.eqb (fst a) (fst b) && Nat.eqb (snd a) (snd b).
Definition geq (g1 g2 : graph) : bool := list_eqb (pair_eqb Nat.eqb (list_eqb Nat.eqb)) g1 g2.
Definition unopt (o : option Q) : Q := match o with Some q => q | None => 0%Q end.
Definition model_hits (f : fn) (ref est : list note) (otol ptol : Q) (ratio : option Q) (mintol : Q) (strict : bool)
  : res (list (nat * nat)) :=
  match f with
  | FOn => Ok (hits_where (onset_hitb strict otol) (map fst ref) (map fst est))
  | FOff => bind (validate_ivs (map fst ref)) (fun _ => Ok (hits_where (offset_hitb strict (unopt ratio) mintol) (map fst ref) (map fst est)))
  | FNotes => bind (match ratio with Some _ => validate_ivs (map fst ref) | None => Ok tt end)
                (fun _ => Ok (hits_where (note_hitb strict otol ptol ratio mintol) ref est))
  end.
Definition model_match (f : fn) (ref est : list note) (otol ptol : Q) (ratio : option Q) (mintol : Q) (strict : bool) :=
  match f with
  | FOn => match_note_onsets (map fst ref) (map fst est) otol strict
  | FOff => match_note_offsets (map fst ref) (map fst est) (unopt ratio) mintol strict
  | FNotes => match_notes ref est otol ptol ratio mintol strict
  end.
Definition check_case (c : fn * list note * list note * (Q * Q * option Q * Q * bool) * res (graph * list (nat * nat))) : bool :=
  let '(f, ref, est, (otol, ptol, ratio, mintol, strict), expected) := c in
  match expected with
  | Ok (g, m) =>
      res_eqb geq (bind (model_hits f ref est otol ptol ratio mintol strict) (fun h => Ok (build_graph h))) (Ok g)
      && res_eqb (opt_eqb (list_eqb eqnn)) (model_match f ref est otol ptol ratio mintol strict) (Ok (Some m))
  | Raise e =>
      res_eqb geq (bind (model_hits f ref est otol ptol ratio mintol strict) (fun h => Ok (build_graph h))) (Raise e)
      && res_eqb (opt_eqb (list_eqb eqnn)) (model_match f ref est otol ptol ratio mintol strict) (Raise e)
  end.
'''

    # case: {'fn', 'ref': [[on, off, hz]], 'est': [...], 'otol', 'ptol', 'ratio' (None|float), 'mintol', 'strict'}
    def mk(self, fn, ref, est, otol=0.05, ptol=50.0, ratio=0.2, mintol=0.05, strict=False):
        return {'fn': fn, 'ref': ref, 'est': est, 'otol': otol, 'ptol': ptol, 'ratio': ratio, 'mintol': mintol, 'strict': strict}

    def exhaustive(self, tier):
        out = []
        A = 440.0
        for fn in ('onsets', 'offsets', 'notes'):
            for strict in (False, True):
                # empty sides
                out.append(self.mk(fn, [], [], strict=strict))
                out.append(self.mk(fn, [[0.0, 1.0, A]], [], strict=strict))
                out.append(self.mk(fn, [], [[0.0, 1.0, A]], strict=strict))
                # distance exactly at a lattice tolerance (onset and offset), strict decides
                for tol in (1 / 16., 1 / 8., 1 / 4.):
                    out.append(self.mk(fn, [[1.0, 2.0, A]], [[1.0 + tol, 2.0 + tol, A]], otol=tol, mintol=tol, ratio=1 / 64., strict=strict))
                    out.append(self.mk(fn, [[1.0, 2.0, A]], [[1.0 - tol, 2.0 - tol, A]], otol=tol, mintol=tol, ratio=1 / 64., strict=strict))
                    # offset tolerance from ratio * duration = tol exactly (duration 1, ratio = tol)
                    out.append(self.mk(fn, [[1.0, 2.0, A]], [[1.0, 2.0 + tol, A]], otol=tol, mintol=1 / 64., ratio=tol, strict=strict))
                # the documented defaults with np.around landing exactly on the double 0.05
                for d in (0.05, 0.05004, 0.04996, 0.05005, 0.04995, 0.0501):
                    out.append(self.mk(fn, [[1.0, 2.0, A]], [[1.0 + d, 2.0 + d, A]], strict=strict))
                    out.append(self.mk(fn, [[1.0 + d, 2.0 + d, A]], [[1.0, 2.0, A]], strict=strict))
                # ratio * duration: 0.2 * 0.75 is not a double; 0.2 * 0.25 is the double 0.05
                for du, d in ((0.75, 0.15), (0.75, 0.15004), (0.25, 0.05), (1.5, 0.3), (1.5, 0.30004), (1.5, 0.29996)):
                    out.append(self.mk(fn, [[1.0, 1.0 + du, A]], [[1.0, 1.0 + du + d, A]], strict=strict))
                # round-half-even ties on the lattice: 1/32 -> 0.0312, 3/32 -> 0.0938
                for d, tol in ((1 / 32., 0.0312), (1 / 32., 0.0313), (3 / 32., 0.0938), (3 / 32., 0.0937)):
                    out.append(self.mk(fn, [[1.0, 2.0, A]], [[1.0 + d, 2.0 + d, A]], otol=tol, mintol=tol, ratio=1 / 64., strict=strict))
                # invalid reference intervals (durations are validated when offsets are used)
                out.append(self.mk(fn, [[1.0, 1.0, A]], [[1.0, 1.0, A]], strict=strict))
                out.append(self.mk(fn, [[2.0, 1.0, A]], [[1.0, 2.0, A]], strict=strict))
                out.append(self.mk(fn, [[-1.0, 1.0, A]], [[-1.0, 1.0, A]], strict=strict))
                out.append(self.mk(fn, [[1.0, 2.0, A]], [[2.0, 1.0, A], [-1.0, 2.0, A]], strict=strict))
                # a perfect estimate whose maximum matching is not the identity
                notes = [[0.0, 1.0, A], [0.125, 1.125, A], [0.0625, 1.0625, A]]
                out.append(self.mk(fn, notes, notes, otol=1 / 16., mintol=1 / 4., strict=strict))
        for strict in (False, True):
            ex = exact_log_pitches()
            h0, t0 = ex[len(ex) // 2]
            for k, ptol in ((1, 18.75), (2, 37.5), (4, 75.0), (4, 50.0), (3, 50.0), (64, 1200.0)):
                cand = [x for x in ex if x[1] == t0 + k / 64.]
                if cand:
                    out.append(self.mk('notes', [[0.0, 1.0, h0]], [[0.0, 1.0, cand[0][0]]], ptol=ptol, strict=strict))
                    out.append(self.mk('notes', [[0.0, 1.0, cand[0][0]]], [[0.0, 1.0, h0]], ptol=ptol, strict=strict))
            out.append(self.mk('notes', [[0.0, 1.0, 440.0]], [[0.0, 1.0, 880.0]], ptol=1200.0, strict=strict))
            out.append(self.mk('notes', [[0.0, 1.0, 440.0]], [[0.0, 1.0, 440.0 * 2 ** (50 / 1200.)]], strict=strict))
            out.append(self.mk('notes', [[0.0, 1.0, 440.0]], [[0.0, 1.0, 440.0]], ratio=None, strict=strict))
            out.append(self.mk('notes', [[0.0, 1.0, 440.0]], [[0.0, 3.0, 440.0]], ratio=None, strict=strict))
            out.append(self.mk('notes', [[0.0, 0.0, 440.0]], [[0.0, 3.0, 440.0]], ratio=None, strict=strict))
        return out

    def gen(self, rng, n):
        out = []
        for _ in range(n):
            fn = rng.choice(['onsets', 'offsets', 'notes', 'notes', 'notes'])
            mode = rng.choice(['lattice', 'lattice', 'decimal', 'decimal', 'float'])
            pmode = rng.choice(['exact', 'semitone', 'few', 'few', 'float'])
            nr = rng.choice([0, 1, 2, 3, 3, 4, 4, 5, 6, 7])
            shape = rng.random()
            if shape < 0.35 and nr > 0:
                # clusters: several notes around the same time (rich matchings, non-greedy optimum)
                base = gen_times(rng, 1, mode)[0]
                times = [[perturb(rng, base[0], mode), perturb(rng, base[1], mode)] for _ in range(nr)]
            else:
                times = gen_times(rng, nr, mode)
            if pmode == 'few' or rng.random() < 0.5:
                p0 = gen_pitch(rng, pmode)
                pitches = [p0 if rng.random() < 0.7 else gen_pitch(rng, pmode) for _ in range(nr)]
            else:
                pitches = [gen_pitch(rng, pmode) for _ in range(nr)]
            ref = [[t[0], t[1], p] for t, p in zip(times, pitches)]
            # the estimate: perturbed copies, duplicates, misses, insertions, shuffled
            est = []
            for r in ref:
                k = rng.choice([0, 1, 1, 1, 1, 2])
                for _ in range(k):
                    on = perturb(rng, r[0], mode)
                    off = perturb(rng, r[1], mode)
                    if off <= on and rng.random() < 0.9:
                        off = on + (r[1] - r[0])
                    est.append([on, off, detune(rng, r[2], pmode)])
            for _ in range(rng.choice([0, 0, 0, 1, 2])):
                t = gen_times(rng, 1, mode)[0]
                est.append([t[0], t[1], gen_pitch(rng, pmode)])
            rng.shuffle(est)
            if rng.random() < 0.3:
                rng.shuffle(ref)
            est = est[:8]
            if mode == 'lattice':
                otol = rng.choice(LAT_TOLS + [0.05])
                mintol = rng.choice(LAT_TOLS + [0.05])
                ratio = rng.choice([0.25, 0.5, 0.125, 0.2, 1 / 64.])
            elif mode == 'decimal':
                otol = rng.choice([0.05, 0.05, 0.1, 0.0501, 0.04, 0.3])
                mintol = rng.choice([0.05, 0.05, 0.1, 0.02])
                ratio = rng.choice([0.2, 0.2, 0.1, 0.3, 0.05])
            else:
                otol = rng.choice([0.05, rng.uniform(0.01, 0.2)])
                mintol = rng.choice([0.05, rng.uniform(0.01, 0.2)])
                ratio = rng.choice([0.2, rng.uniform(0.01, 0.6)])
            if pmode == 'exact':
                ptol = rng.choice([18.75, 37.5, 75.0, 50.0, 150.0, 1200.0])
            else:
                ptol = rng.choice([50.0, 50.0, 100.0, 49.0, 25.0, 1200.0])
            if fn == 'notes' and rng.random() < 0.3:
                ratio = None
            c = self.mk(fn, ref, est, otol=otol, ptol=ptol, ratio=ratio, mintol=mintol, strict=rng.random() < 0.5)
            # a small malformed stream: break one interval
            if rng.random() < 0.06 and (ref or est):
                side = rng.choice(['ref', 'est'])
                if c[side]:
                    i = rng.randrange(len(c[side]))
                    kind = rng.choice(['zero', 'rev', 'neg'])
                    x = list(c[side][i])
                    if kind == 'zero':
                        x[1] = x[0]
                    elif kind == 'rev':
                        x[0], x[1] = x[1], x[0] - 0.5 if x[0] > x[1] else x[0]
                    else:
                        x[0] = -abs(x[0]) - 0.25
                    c[side][i] = x
            out.append(c)
        return out

    def run(self, case):
        import numpy as np
        from mir_eval import transcription as T, util
        ri = np.array([[x[0], x[1]] for x in case['ref']], dtype=float).reshape(-1, 2)
        ei = np.array([[x[0], x[1]] for x in case['est']], dtype=float).reshape(-1, 2)
        rp = np.array([x[2] for x in case['ref']], dtype=float)
        ep = np.array([x[2] for x in case['est']], dtype=float)
        captured = []
        orig = util._bipartite_match

        def spy(g):
            captured.append([[int(u), [int(v) for v in vs]] for u, vs in g.items()])
            return orig(g)
        util._bipartite_match = spy
        try:
            if case['fn'] == 'onsets':
                t, v = core.call_impl(T.match_note_onsets, ri, ei, onset_tolerance=case['otol'], strict=case['strict'])
            elif case['fn'] == 'offsets':
                t, v = core.call_impl(T.match_note_offsets, ri, ei, offset_ratio=case['ratio'],
                                      offset_min_tolerance=case['mintol'], strict=case['strict'])
            else:
                t, v = core.call_impl(T.match_notes, ri, rp, ei, ep, onset_tolerance=case['otol'], pitch_tolerance=case['ptol'],
                                      offset_ratio=case['ratio'], offset_min_tolerance=case['mintol'], strict=case['strict'])
        finally:
            util._bipartite_match = orig
        with np.errstate(all='ignore'):
            lr = [float(x) for x in np.log2(rp)] if len(rp) else []
            le = [float(x) for x in np.log2(ep)] if len(ep) else []
        if t == 'ok':
            return {'lr': lr, 'le': le, 'res': ['ok', captured[0] if captured else None, [[int(a), int(b)] for a, b in v]]}
        return {'lr': lr, 'le': le, 'res': ['exc', v]}

    def emit(self, case, out):
        q = core.cq_Q

        def notes(ns, lps):
            return core.cq_list(['((%s,%s),%s)' % (q(x[0]), q(x[1]), q(lp)) for x, lp in zip(ns, lps)])
        fn = {'onsets': 'FOn', 'offsets': 'FOff', 'notes': 'FNotes'}[case['fn']]
        par = '(%s,%s,%s,%s,%s)' % (q(case['otol']), q(case['ptol']), core.cq_opt(case['ratio'], q), q(case['mintol']),
                                    core.cq_bool(case['strict']))
        r = out['res']
        if r[0] == 'ok':
            g = core.cq_list(['(%d,%s)' % (u, core.cq_list([str(v) for v in vs])) for u, vs in r[1]])
            m = core.cq_list(['(%d,%d)' % (a, b) for a, b in r[2]])
            exp = '(Ok (%s%%nat,%s%%nat))' % (g, m)
        else:
            exp = '(Raise %s)' % core.cq_exn(r[1])
        return '(%s,%s,%s,%s,%s)' % (fn, notes(case['ref'], out['lr']), notes(case['est'], out['le']), par, exp)

    def nontrivial(self, case, out):
        return out['res'][0] == 'ok' and len(out['res'][2]) >= 1

    def shrink(self, case):
        for side in ('ref', 'est'):
            for i in range(len(case[side])):
                c = dict(case)
                c[side] = case[side][:i] + case[side][i + 1:]
                yield c

    def distribution(self, pairs):
        d = {}

        def inc(k):
            d[k] = d.get(k, 0) + 1
        for c, o in pairs:
            inc('fn=' + c['fn'])
            inc('strict=%s' % c['strict'])
            if c['fn'] == 'notes':
                inc('ratio=None' if c['ratio'] is None else 'ratio=value')
            r = o['res']
            if r[0] == 'exc':
                inc('exc=' + r[1])
                continue
            nh = sum(len(vs) for _, vs in r[1])
            inc('hits=%s' % ('0' if nh == 0 else '1-3' if nh <= 3 else '4-9' if nh <= 9 else '10+'))
            inc('matched=%s' % ('0' if not r[2] else '1-2' if len(r[2]) <= 2 else '3+'))
            if len(r[2]) < min(len(r[1]), len(set(v for _, vs in r[1] for v in vs))):
                inc('matching smaller than both hit sides')
            if not c['ref'] or not c['est']:
                inc('empty side')
            if any(r[2][i][0] != r[2][i][1] for i in range(len(r[2]))):
                inc('non-identity pairs')
        return d


UNIT = U()
