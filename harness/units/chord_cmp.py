"""The 12 chord comparison functions on label pairs vs ME.Model.ChordCmp.cmp_all."""
from lib import core
from harness.units.chord_label import rnd_label, mutate, SHORTS

RULES = ['thirds', 'thirds_inv', 'triads', 'triads_inv', 'tetrads', 'tetrads_inv', 'root', 'mirex', 'majmin', 'majmin_inv',
         'sevenths', 'sevenths_inv']


def closure(tier):
    roots = ['C', 'G', 'Db', 'F#', 'B#'] if tier == 'quick' else ['C', 'C#', 'Db', 'D', 'Eb', 'E', 'Fb', 'F', 'F#', 'G', 'Ab', 'A', 'Bb', 'B', 'B#', 'Cb']
    shorts = ['maj', 'min', '7', 'maj7', 'min7', 'dim', 'aug', 'sus4', 'hdim7', 'maj6', '9', '1', '5', 'minmaj7', 'dim7', 'min9', '13']
    basses = [None, '3', 'b3', '5', 'b7', '7', '2']
    extras = [None, '(9)', '(*3)', '(*5)', '(b7)', '(*1)', '(3,5)']
    out = ['N', 'X']
    for r in roots:
        out.append(r)
        for s in shorts:
            for b in basses:
                for e in extras:
                    if tier == 'quick' and b is not None and e is not None:
                        continue
                    out.append(r + ':' + s + (e or '') + ('/' + b if b else ''))
        out += [r + ':(3,5)', r + ':(b3,5)', r + ':(1)', r + ':(3)', r + ':(5)/5', r + ':(b3,5,b7)']
    return out


class U(core.Unit):
    name = 'chord_cmp'
    requires = ['ME.Model.Prelude', 'ME.Model.ChordParse', 'ME.Model.ChordCmp']
    mirrors = [('mir_eval/chord.py', f) for f in RULES + ['encode_many', 'rotate_bitmap_to_root', 'rotate_bitmaps_to_roots', 'validate', 'encode', 'split', 'QUALITIES', 'CHORD_RE']]
    counts = {'quick': 2500, 'thorough': 30000}
    shard = 400
    header = '''
Open Scope Z_scope.
Definition check_case (c : str * str * list (res Z)) : bool :=
  let '(r, e, outs) := c in list_eqb (res_eqb Z.eqb) (cmp_all r e) outs.
'''

    def exhaustive(self, tier):
        return [['N', 'N'], ['X', 'X'], ['N', 'X'], ['X', 'N'], ['C', 'C'], ['C:maj', 'C'], ['C:aug7', 'C'], ['C', 'C:maj11'],
                ['C:1', 'C:1'], ['C:5', 'C:5'], ['C:5', 'G:5'], ['C:(1)', 'C:(1)'], ['C:maj/3', 'C:maj'], ['C:maj/2', 'C:maj/2'],
                ['C:min7/b7', 'C:min7'], ['C:maj', 'A:min'], ['C:maj6', 'A:min7'], ['C:sus4', 'F:sus2'], ['B#', 'C'], ['Cb', 'B'],
                ['C:maj(*3)', 'C:5'], ['C:maj(*1)', 'C:maj(*1)'], ['C:maj(*1,*3,*5)', 'C:maj'], ['C:(3)', 'C:(3)'], ['C\n', 'C'], ['C', 'H']]

    def gen(self, rng, n):
        cl = closure('quick' if n <= 5000 else 'thorough')
        out = []
        for _ in range(n):
            r = rng.random()
            if r < 0.25:
                a = rng.choice(cl)
                out.append([a, a])
            elif r < 0.8:
                a = rng.choice(cl)
                # same root more often than chance, so that the deeper rules are exercised
                b = rng.choice(cl)
                if rng.random() < 0.5 and ':' in a and ':' in b:
                    b = a.split(':')[0] + ':' + b.split(':', 1)[1]
                out.append([a, b])
            elif r < 0.95:
                out.append([rnd_label(rng), rnd_label(rng)])
            else:
                out.append([mutate(rng, rnd_label(rng)), rnd_label(rng)])
        return out

    def run(self, case):
        from mir_eval import chord as C
        outs = []
        for name in RULES:
            t, v = core.call_impl(getattr(C, name), [case[0]], [case[1]])
            if t == 'ok':
                x = float(v[0])
                outs.append(['ok', int(x)] if x == int(x) else ['exc', 'NonIntegerScore'])
            else:
                outs.append(['exc', v])
        return outs

    def emit(self, case, outs):
        return '(%s,%s,%s)' % (core.cq_str(case[0]), core.cq_str(case[1]),
                               core.cq_list([core.cq_res(o, core.cq_Z) for o in outs]))

    def nontrivial(self, case, outs):
        return outs[0][0] == 'ok' and case[0] != case[1]

    def shrink(self, case):
        a, b = case
        for i in range(len(a)):
            yield [a[:i] + a[i + 1:], b]
        for i in range(len(b)):
            yield [a, b[:i] + b[i + 1:]]

    def distribution(self, pairs):
        d = {}
        for c, o in pairs:
            k = ','.join(str(x[1]) if x[0] == 'ok' else 'E' for x in o)
            d[k] = d.get(k, 0) + 1
        top = sorted(d.items(), key=lambda kv: -kv[1])[:12]
        return {'distinct_outcome_vectors': len(d), 'top': dict(top)}


UNIT = U()
