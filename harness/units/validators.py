"""Tag-level correspondence (returns / ValueError / InvalidChordException / TypeError / IndexError / other class, compared
exactly) of EVERY validator model against the real validator: the shape-level models of ME.Model.Validators and, on well-shaped input, the list-level models of the task
files (EventMetrics, Intervals, Transcription, SegmentCluster, Hierarchy, Multipitch, Melody, Key, ChordScore, Beat, Tempo,
Pattern, Alignment, Separation).

Cases = (a) valid inputs in the degenerate shapes of property C14 (empty, single item, duplicates, values exactly on a bound),
(b) single-fault corruptions enumerated from the conjuncts of each documented convention (one conjunct violated at a time),
(c) a random stream mixing both, (d) 0-d arrays (shape ()) for every validator that takes arrays: len() of a 0-d array raises
TypeError (segment.validate_boundary, hierarchy.validate_hier_intervals), .shape[0] raises IndexError (melody.validate_voicing /
validate, transcription.validate, transcription_velocity.validate), the util validators answer ValueError.
An array is {'sh': shape, 'd': row-major data}; non-finite tempo values are strings."""
from lib import core

Q64 = 1 / 64.0


def arr(data, shape=None):
    data = [float(x) for x in data]
    return {'sh': list(shape) if shape is not None else [len(data)], 'd': data}


def ivs(rows):
    return {'sh': [len(rows), 2], 'd': [float(x) for r in rows for x in r]}


def np_arr(a):
    import numpy as np
    return np.array(a['d'], dtype=float).reshape(a['sh'])


def cq_arr(a):
    return '(mkarr %d %s %s)' % (len(a['sh']), core.cq_list([core.cq_nat(x) for x in a['sh']]) + '%nat',
                                 core.cq_list([core.cq_Q(x) for x in a['d']]))


def cq_ql(l):
    return core.cq_list([core.cq_Q(x) for x in l])


def cq_x(v):
    if isinstance(v, str):
        return {'nan': 'NaN', 'inf': 'PInf', '-inf': 'NInf'}[v]
    return '(Fin %s)' % core.cq_Q(v)


def fl(v):
    return float(v) if not isinstance(v, str) else float(v)


BAD_LABELS = ['', 'H', 'C:', 'C:foo', 'c', 'C::maj', 'C/', 'C:(3', 'N:maj', 'C#b', 'C:maj\n', ' C', 'C ', 'C:MAJ', 'Cmaj', 'NC']
GOOD_LABELS = ['N', 'X', 'C', 'C:maj', 'G:7', 'A:min7', 'F#:dim', 'Bb:maj7/3', 'D:sus4', 'E:min/b3', 'C:maj(9)', 'F:min(*5)', 'Db:1']
GOOD_KEYS = ['C major', 'c# minor', 'Db other', 'X', 'x', ' G   major ', 'B\tminor']
BAD_KEYS = ['C', 'major', '', ' ', 'C major minor', 'H major', 'C maj', 'C Major', 'X major', 'x minor', 'Cb major', 'C-major', 'X X',
            'C:major', 'Cmajor']


def tagof(out):
    if out[0] == 'ok':
        return 0
    return {'ValueError': 1, 'InvalidChordException': 2, 'TypeError': 3, 'IndexError': 4}.get(out[1], 5)


class U(core.Unit):
    name = 'validators'
    requires = ['ME.Model.Prelude', 'ME.Model.ChordParse', 'ME.Model.Validators', 'ME.Model.EventMetrics', 'ME.Model.Intervals',
                'ME.Model.Transcription', 'ME.Model.SegmentCluster', 'ME.Model.Hierarchy', 'ME.Model.Multipitch', 'ME.Model.Melody',
                'ME.Model.Key', 'ME.Model.ChordScore', 'ME.Model.Beat', 'ME.Model.Tempo', 'ME.Model.Pattern', 'ME.Model.Alignment',
                'ME.Model.Separation']
    mirrors = [('mir_eval/util.py', f) for f in ['validate_events', 'validate_intervals', 'validate_frequencies']] + \
              [('mir_eval/chord.py', f) for f in ['validate', 'validate_chord_label', 'directional_hamming_distance', 'overseg', 'underseg',
                                                  'seg', 'weighted_accuracy']] + \
              [('mir_eval/beat.py', 'validate'), ('mir_eval/onset.py', 'validate'), ('mir_eval/segment.py', 'validate_boundary'),
               ('mir_eval/segment.py', 'validate_structure'), ('mir_eval/hierarchy.py', 'validate_hier_intervals'),
               ('mir_eval/multipitch.py', 'validate'), ('mir_eval/melody.py', 'validate_voicing'), ('mir_eval/melody.py', 'validate'),
               ('mir_eval/transcription.py', 'validate'), ('mir_eval/transcription.py', 'validate_intervals'),
               ('mir_eval/transcription_velocity.py', 'validate'), ('mir_eval/key.py', 'validate_key'), ('mir_eval/key.py', 'validate'),
               ('mir_eval/tempo.py', 'validate_tempi'), ('mir_eval/tempo.py', 'validate'), ('mir_eval/pattern.py', 'validate'),
               ('mir_eval/alignment.py', 'validate'), ('mir_eval/separation.py', 'validate'),
               ('mir_eval/separation.py', '_any_source_silent')]
    counts = {'quick': 1500, 'thorough': 12000}
    shard = 300
    header = r'''
Open Scope Q_scope.
Module V := ME.Model.Validators.
Module EM := ME.Model.EventMetrics.
Module IV := ME.Model.Intervals.
Module TR := ME.Model.Transcription.
Module SC := ME.Model.SegmentCluster.
Module HI := ME.Model.Hierarchy.
Module MP := ME.Model.Multipitch.
Module ML := ME.Model.Melody.
Module KY := ME.Model.Key.
Module CS := ME.Model.ChordScore.
Module BT := ME.Model.Beat.
Module TP := ME.Model.Tempo.
Module PT := ME.Model.Pattern.
Module AL := ME.Model.Alignment.
Module SP := ME.Model.Separation.
Inductive vcase :=
| VEvents (mx : Q) (a : V.arr)
| VIntervals (a : V.arr)
| VFreqs (mx mn : Q) (allow : bool) (a : V.arr)
| VLabel (s : str)
| VChord (r e : list str)
| VDhd (fn : nat) (r e : V.arr)                      (* 0 dhd, 1 overseg, 2 underseg, 3 seg *)
| VEvents2 (r e : V.arr)                             (* beat.validate and onset.validate *)
| VBoundary (r e : V.arr)                            (* segment.validate_boundary *)
| VPair (r e : V.arr)                                (* transcription.validate_intervals *)
| VStructure (r : V.arr) (nrl : nat) (e : V.arr) (nel : nat)
| VHier (H : list V.arr)
| VMultipitch (rt : V.arr) (rf : list V.arr) (et : V.arr) (ef : list V.arr)
| VVoicing (rv ev : list Q)
| VMelody (rv rc ev ec : list Q)
| VVoicingA (rv ev : V.arr)                          (* the same four on arrays of any shape *)
| VMelodyA (rv rc ev ec : V.arr)
| VTransA (ri rp ei ep : V.arr)
| VVelA (ri rp rv ei ep ev : V.arr)
| VTrans (ri : V.arr) (rp : list Q) (ei : V.arr) (ep : list Q)
| VVel (ri : V.arr) (rp rv : list Q) (ei : V.arr) (ep ev : list Q)
| VKey (k : str)
| VKeys (r e : str)
| VWacc (c w : list Q)
| VTempi (t : list xval) (reference : bool)
| VTempo (r : list xval) (w : Q) (e : list xval)
| VPattern (r e : list (list (list (list Q))))
| VAlign (r e : AL.tsin)
| VSep (rs es : list nat) (rsil esil : bool).
Definition one_d (a : V.arr) : bool := (V.ndim a =? 1)%nat && V.wf_arr a.
Definition nby2 (a : V.arr) : bool := V.is_n_by_2 a && V.wf_arr a.
Definition pp (l : list Q) : list TR.pitch := map (fun p => (p, 0)) l.
(* all model tags for the case: every entry must equal the tag observed on the implementation *)
Definition tags (c : vcase) : list nat :=
  match c with
  | VEvents mx a => V.tag (V.validate_events_arr mx a) ::
      (if one_d a then [V.tag (EM.validate_events mx (V.data a)); V.tag (MP.validate_events (V.data a) mx)] ++
                       (if Qeq_bool mx 30000 then [V.tag (BT.validate_events (V.data a))] else []) else [])
  | VIntervals a => V.tag (V.validate_intervals_arr a) ::
      (if nby2 a then [V.tag (EM.validate_intervals (V.rows a)); V.tag (IV.validate_intervals (V.rows a));
                       V.tag (TR.validate_ivs (V.rows a)); V.tag (SC.validate_intervals (V.rows a))] else [])
  | VFreqs mx mn allow a => V.tag (V.validate_frequencies_arr mx mn allow a) ::
      (if one_d a then [V.tag (MP.validate_frequencies (V.data a) mx mn)] else [])
  | VLabel s => [V.tag (validate_label s)]
  | VChord r e => [V.tag (V.chord_validate r e)]
  | VDhd fn r e => [V.tag (match fn with 0%nat | 1%nat => V.dhd_outcome r e | 2%nat => V.dhd_outcome e r | _ => V.seg_outcome r e end)]
  | VEvents2 r e => V.tag (V.events_validate_arr r e) ::
      (if one_d r && one_d e then [V.tag (BT.validate (V.data r) (V.data e));
                                   V.tag (EM.beat_f_measure_v (V.data r) (V.data e) (7#100));
                                   V.tag (EM.onset_f_measure_v (V.data r) (V.data e) (1#20))] else [])
  | VBoundary r e => V.tag (V.validate_boundary_arr r e) ::
      (if nby2 r && nby2 e then [V.tag (EM.validate_boundary (V.rows r) (V.rows e))] else [])
  | VPair r e => V.tag (V.validate_pair_arr r e) ::
      (if nby2 r && nby2 e then [V.tag (TR.validate_intervals2 (V.rows r) (V.rows e))] else [])
  | VStructure r nrl e nel => V.tag (V.validate_structure_arr r nrl e nel) ::
      (if nby2 r && nby2 e then [V.tag (SC.validate_structure (V.rows r) nrl (V.rows e) nel)] else [])
  | VHier H => V.tag (V.validate_hier_arr H) ::
      (if forallb nby2 H then [V.tag (HI.validate_hier (map V.rows H))] else [])
  | VMultipitch rt rf et ef => V.tag (V.multipitch_validate_arr rt rf et ef) ::
      (if one_d rt && one_d et && forallb one_d rf && forallb one_d ef
       then [V.tag (MP.validate (V.data rt) (map V.data rf) (V.data et) (map V.data ef))] else [])
  | VVoicing rv ev => [V.tag (ML.validate_voicing rv ev)]
  | VMelody rv rc ev ec => [V.tag (ML.validate rv rc ev ec)]
  | VVoicingA rv ev => V.tag (V.melody_validate_voicing_nd rv ev) ::
      (if one_d rv && one_d ev then [V.tag (ML.validate_voicing (V.data rv) (V.data ev))] else [])
  | VMelodyA rv rc ev ec => V.tag (V.melody_validate_nd rv rc ev ec) ::
      (if one_d rv && one_d rc && one_d ev && one_d ec then [V.tag (ML.validate (V.data rv) (V.data rc) (V.data ev) (V.data ec))] else [])
  | VTransA ri rp ei ep => V.tag (V.transcription_validate_nd ri rp ei ep) ::
      (if one_d rp && one_d ep then [V.tag (V.transcription_validate_arr ri (V.data rp) ei (V.data ep))] else [])
  | VVelA ri rp rv ei ep ev => V.tag (V.velocity_validate_nd ri rp rv ei ep ev) ::
      (if one_d rp && one_d rv && one_d ep && one_d ev
       then [V.tag (V.velocity_validate_arr ri (V.data rp) (V.data rv) ei (V.data ep) (V.data ev))] else [])
  | VTrans ri rp ei ep => V.tag (V.transcription_validate_arr ri rp ei ep) ::
      (if nby2 ri && nby2 ei then [V.tag (TR.validate (V.rows ri) (pp rp) (V.rows ei) (pp ep))] else [])
  | VVel ri rp rv ei ep ev => V.tag (V.velocity_validate_arr ri rp rv ei ep ev) ::
      (if nby2 ri && nby2 ei then [V.tag (TR.vel_validate (V.rows ri) (pp rp) rv (V.rows ei) (pp ep) ev)] else [])
  | VKey k => [V.tag (KY.validate_key k)]
  | VKeys r e => [V.tag (KY.validate r e)]
  | VWacc c w => [V.tag (CS.wa_q c w)]
  | VTempi t reference => [V.tag (TP.validate_tempi t reference)]
  | VTempo r w e => [V.tag (TP.validate r w e)]
  | VPattern r e => [V.tag (PT.validate_raw r e)]
  | VAlign r e => [V.tag (AL.validate_in r e)]
  | VSep rs es rsil esil => [V.tag (SP.validate 100 rs es rsil esil)]
  end.
Definition check_case (c : vcase * nat) : bool := forallb (Nat.eqb (snd c)) (tags (fst c)).
'''

    # ------------------------------------------------------------------ running the implementation
    def run(self, case):
        import numpy as np
        import mir_eval
        from mir_eval import util, chord, beat, onset, segment, hierarchy, multipitch, melody, transcription, transcription_velocity, key, \
            tempo, pattern, alignment, separation
        k = case['k']
        ci = core.call_impl
        if k == 'events':
            out = ci(util.validate_events, np_arr(case['a']), case['max'])
        elif k == 'intervals':
            out = ci(util.validate_intervals, np_arr(case['a']))
        elif k == 'freqs':
            out = ci(util.validate_frequencies, np_arr(case['a']), case['max'], case['min'], case['allow'])
        elif k == 'label':
            out = ci(chord.validate_chord_label, case['s'])
        elif k == 'chord':
            out = ci(chord.validate, list(case['r']), list(case['e']))
        elif k == 'dhd':
            fn = [chord.directional_hamming_distance, chord.overseg, chord.underseg, chord.seg][case['fn']]
            out = ci(fn, np_arr(case['r']), np_arr(case['e']))
        elif k == 'events2':
            o1 = ci(beat.validate, np_arr(case['r']), np_arr(case['e']))
            o2 = ci(onset.validate, np_arr(case['r']), np_arr(case['e']))
            if tagof(o1) != tagof(o2):
                return 99
            if len(case['r']['sh']) == 1 and len(case['e']['sh']) == 1:
                o3 = ci(beat.f_measure, np_arr(case['r']), np_arr(case['e']))
                o4 = ci(onset.f_measure, np_arr(case['r']), np_arr(case['e']))
                if tagof(o3) != tagof(o1) or tagof(o4) != tagof(o1):
                    return 98
            out = o1
        elif k == 'boundary':
            out = ci(segment.validate_boundary, np_arr(case['r']), np_arr(case['e']), False)
            o2 = ci(segment.validate_boundary, np_arr(case['r']), np_arr(case['e']), True)
            if tagof(o2) != tagof(out):
                return 99
        elif k == 'pair':
            out = ci(transcription.validate_intervals, np_arr(case['r']), np_arr(case['e']))
        elif k == 'structure':
            out = ci(segment.validate_structure, np_arr(case['r']), ['x'] * case['nrl'], np_arr(case['e']), ['y'] * case['nel'])
        elif k == 'hier':
            out = ci(hierarchy.validate_hier_intervals, [np_arr(a) for a in case['H']])
        elif k == 'multipitch':
            out = ci(multipitch.validate, np_arr(case['rt']), [np_arr(a) for a in case['rf']], np_arr(case['et']),
                     [np_arr(a) for a in case['ef']])
        elif k == 'voicing':
            out = ci(melody.validate_voicing, np.array(case['rv'], dtype=float), np.array(case['ev'], dtype=float))
        elif k == 'melody':
            out = ci(melody.validate, *[np.array(case[x], dtype=float) for x in ('rv', 'rc', 'ev', 'ec')])
        elif k == 'voicing_a':
            out = ci(melody.validate_voicing, np_arr(case['rv']), np_arr(case['ev']))
        elif k == 'melody_a':
            out = ci(melody.validate, *[np_arr(case[x]) for x in ('rv', 'rc', 'ev', 'ec')])
        elif k == 'trans_a':
            out = ci(transcription.validate, *[np_arr(case[x]) for x in ('ri', 'rp', 'ei', 'ep')])
        elif k == 'vel_a':
            out = ci(transcription_velocity.validate, *[np_arr(case[x]) for x in ('ri', 'rp', 'rv', 'ei', 'ep', 'ev')])
        elif k == 'trans':
            out = ci(transcription.validate, np_arr(case['ri']), np.array(case['rp'], dtype=float), np_arr(case['ei']),
                     np.array(case['ep'], dtype=float))
        elif k == 'vel':
            out = ci(transcription_velocity.validate, np_arr(case['ri']), np.array(case['rp'], dtype=float),
                     np.array(case['rv'], dtype=float), np_arr(case['ei']), np.array(case['ep'], dtype=float),
                     np.array(case['ev'], dtype=float))
        elif k == 'key':
            out = ci(key.validate_key, case['s'])
        elif k == 'keys':
            out = ci(key.validate, case['r'], case['e'])
        elif k == 'wacc':
            out = ci(chord.weighted_accuracy, np.array(case['c'], dtype=float), np.array(case['w'], dtype=float))
        elif k == 'tempi':
            t = np.array([fl(x) for x in case['t']], dtype=float)
            if case.get('zerod'):          # a 0-d array with the same single value: size 1, like the list [x]
                t = t.reshape(())
            out = ci(tempo.validate_tempi, t, case['ref'])
        elif k == 'tempo':
            out = ci(tempo.validate, np.array([fl(x) for x in case['r']], dtype=float), case['w'],
                     np.array([fl(x) for x in case['e']], dtype=float))
        elif k == 'pattern':
            tup = lambda ps: [[[tuple(n) for n in o] for o in p] for p in ps]  # noqa
            out = ci(pattern.validate, tup(case['r']), tup(case['e']))
        elif k == 'align':
            mk = lambda a: a['d'] if a.get('notarray') else np_arr(a)  # noqa
            out = ci(alignment.validate, mk(case['r']), mk(case['e']))
        elif k == 'sep':
            def mk(shape, silent):
                x = np.ones(shape, dtype=float)
                if silent and x.ndim >= 2 and x.size:
                    x[-1] = 0.0
                return x
            out = ci(separation.validate, mk(case['rs'], case['rsil']), mk(case['es'], case['esil']))
        else:
            raise KeyError(k)
        return tagof(out)

    # ------------------------------------------------------------------ Coq terms
    def emit(self, case, out):
        k = case['k']
        L = core.cq_list
        S = core.cq_str
        if k == 'events':
            t = 'VEvents %s %s' % (core.cq_Q(case['max']), cq_arr(case['a']))
        elif k == 'intervals':
            t = 'VIntervals %s' % cq_arr(case['a'])
        elif k == 'freqs':
            t = 'VFreqs %s %s %s %s' % (core.cq_Q(case['max']), core.cq_Q(case['min']), core.cq_bool(case['allow']), cq_arr(case['a']))
        elif k == 'label':
            t = 'VLabel %s' % S(case['s'])
        elif k == 'chord':
            t = 'VChord %s %s' % (L([S(s) for s in case['r']]), L([S(s) for s in case['e']]))
        elif k == 'dhd':
            t = 'VDhd %d %s %s' % (case['fn'], cq_arr(case['r']), cq_arr(case['e']))
        elif k == 'events2':
            t = 'VEvents2 %s %s' % (cq_arr(case['r']), cq_arr(case['e']))
        elif k == 'boundary':
            t = 'VBoundary %s %s' % (cq_arr(case['r']), cq_arr(case['e']))
        elif k == 'pair':
            t = 'VPair %s %s' % (cq_arr(case['r']), cq_arr(case['e']))
        elif k == 'voicing_a':
            t = 'VVoicingA %s %s' % (cq_arr(case['rv']), cq_arr(case['ev']))
        elif k == 'melody_a':
            t = 'VMelodyA %s %s %s %s' % tuple(cq_arr(case[x]) for x in ('rv', 'rc', 'ev', 'ec'))
        elif k == 'trans_a':
            t = 'VTransA %s %s %s %s' % tuple(cq_arr(case[x]) for x in ('ri', 'rp', 'ei', 'ep'))
        elif k == 'vel_a':
            t = 'VVelA %s %s %s %s %s %s' % tuple(cq_arr(case[x]) for x in ('ri', 'rp', 'rv', 'ei', 'ep', 'ev'))
        elif k == 'structure':
            t = 'VStructure %s %d %s %d' % (cq_arr(case['r']), case['nrl'], cq_arr(case['e']), case['nel'])
        elif k == 'hier':
            t = 'VHier %s' % L([cq_arr(a) for a in case['H']])
        elif k == 'multipitch':
            t = 'VMultipitch %s %s %s %s' % (cq_arr(case['rt']), L([cq_arr(a) for a in case['rf']]), cq_arr(case['et']),
                                             L([cq_arr(a) for a in case['ef']]))
        elif k == 'voicing':
            t = 'VVoicing %s %s' % (cq_ql(case['rv']), cq_ql(case['ev']))
        elif k == 'melody':
            t = 'VMelody %s %s %s %s' % tuple(cq_ql(case[x]) for x in ('rv', 'rc', 'ev', 'ec'))
        elif k == 'trans':
            t = 'VTrans %s %s %s %s' % (cq_arr(case['ri']), cq_ql(case['rp']), cq_arr(case['ei']), cq_ql(case['ep']))
        elif k == 'vel':
            t = 'VVel %s %s %s %s %s %s' % (cq_arr(case['ri']), cq_ql(case['rp']), cq_ql(case['rv']), cq_arr(case['ei']), cq_ql(case['ep']),
                                            cq_ql(case['ev']))
        elif k == 'key':
            t = 'VKey %s' % S(case['s'])
        elif k == 'keys':
            t = 'VKeys %s %s' % (S(case['r']), S(case['e']))
        elif k == 'wacc':
            t = 'VWacc %s %s' % (cq_ql(case['c']), cq_ql(case['w']))
        elif k == 'tempi':
            t = 'VTempi %s %s' % (L([cq_x(x) for x in case['t']]), core.cq_bool(case['ref']))
        elif k == 'tempo':
            t = 'VTempo %s %s %s' % (L([cq_x(x) for x in case['r']]), core.cq_Q(case['w']), L([cq_x(x) for x in case['e']]))
        elif k == 'pattern':
            pats = lambda ps: L([L([L([cq_ql(n) for n in o]) for o in p]) for p in ps])  # noqa
            t = 'VPattern %s %s' % (pats(case['r']), pats(case['e']))
        elif k == 'align':
            ts = lambda a: 'AL.NotArray' if a.get('notarray') else '(AL.Nd %d %s)' % (len(a['sh']), cq_ql(a['d']))  # noqa
            t = 'VAlign %s %s' % (ts(case['r']), ts(case['e']))
        elif k == 'sep':
            nl = lambda s: L([core.cq_nat(x) for x in s]) + '%nat'  # noqa
            t = 'VSep %s %s %s %s' % (nl(case['rs']), nl(case['es']), core.cq_bool(case['rsil']), core.cq_bool(case['esil']))
        else:
            raise KeyError(k)
        return '(%s, %d%%nat)' % (t, out)

    # ------------------------------------------------------------------ enumerated cases
    def exhaustive(self, tier):
        C = []
        E = lambda *x: arr(list(x))  # noqa
        # --- util.validate_events: degenerate valid shapes, then one conjunct violated at a time
        ev_valid = [E(), E(2), E(0), E(1, 2, 3), E(1, 1, 2), E(2, 2, 2), E(29999.5, 30000), E(0, 30000)]
        ev_bad = [E(3, 2), E(1, 3, 2), E(1, 30000.5), E(30001), E(-1, 30000.015625), arr([1, 2, 3, 4], [2, 2]), arr([1, 2, 3], [1, 3]),
                  arr([1, 2, 3], [3, 1]), arr([], [0, 2]), arr([5], []), arr([4, 3, 2, 1], [2, 2]), arr([1, 40000], [1, 2]),
                  E(-5, -3), E(-3, -5)]
        for a in ev_valid + ev_bad:
            C.append({'k': 'events', 'max': 30000.0, 'a': a})
        C.append({'k': 'events', 'max': 10.0, 'a': E(1, 10)})
        C.append({'k': 'events', 'max': 10.0, 'a': E(1, 10.5)})
        for r in ev_valid[:6] + ev_bad[:8]:
            for e in [E(), E(1, 2), E(2, 1), arr([1, 2], [1, 2]), E(30000.5)]:
                C.append({'k': 'events2', 'r': r, 'e': e})
                C.append({'k': 'events2', 'r': e, 'e': r})
        # --- util.validate_intervals
        I = lambda *rows: ivs(list(rows))  # noqa
        iv_valid = [I(), I((0, 1)), I((0, 1), (1, 2)), I((0, 2), (1, 3)), I((2, 3), (0, 1)), I((0, 1), (0, 1)), I((0, Q64))]
        iv_bad = [I((-1, 1)), I((0, 1), (-0.5, 2)), I((1, 1)), I((0, 0)), I((2, 1)), I((0, 1), (3, 2)), arr([0, 1, 2], [1, 3]),
                  arr([0, 1, 2, 3, 4, 5], [2, 3]), arr([0, 1], [2, 1]), arr([0, 1], [2]), arr([0, 1, 2, 3], [4]), arr([0, 1], [1, 1, 2]),
                  arr([], [0, 3]), arr([], [0]), arr([], [0, 0]), arr([], [2, 0]), arr([3], []), arr([0, 1, 1, 2], [1, 2, 2]), I((-2, -1))]
        for a in iv_valid + iv_bad:
            C.append({'k': 'intervals', 'a': a})
        for r in iv_valid + iv_bad[:9]:
            for e in [I(), I((0, 1)), I((1, 1)), arr([0, 1, 2], [1, 3]), I((-1, 1))]:
                C.append({'k': 'boundary', 'r': r, 'e': e})
                C.append({'k': 'boundary', 'r': e, 'e': r})
                C.append({'k': 'pair', 'r': r, 'e': e})
                C.append({'k': 'pair', 'r': e, 'e': r})
        # --- util.validate_frequencies
        fr = [E(), E(20), E(5000), E(440, 220), E(19.5), E(5000.5), E(0), E(-440), E(-19.5), E(-5000.5), E(-20), E(-5000),
              arr([440, 220], [1, 2]), arr([440, 220], [2, 1]), arr([440], []), arr([], [0, 1]), arr([10000], [1, 1]), arr([1], [1, 1])]
        for a in fr:
            for allow in (False, True):
                C.append({'k': 'freqs', 'max': 5000.0, 'min': 20.0, 'allow': allow, 'a': a})
        # --- chord labels / chord.validate
        for s in GOOD_LABELS + BAD_LABELS:
            C.append({'k': 'label', 's': s})
        C += [{'k': 'chord', 'r': [], 'e': []}, {'k': 'chord', 'r': ['C'], 'e': ['G']}, {'k': 'chord', 'r': ['C', 'C'], 'e': ['C', 'C']},
              {'k': 'chord', 'r': ['C'], 'e': []}, {'k': 'chord', 'r': [], 'e': ['C']}, {'k': 'chord', 'r': ['C', 'G'], 'e': ['C']},
              {'k': 'chord', 'r': ['H'], 'e': []}, {'k': 'chord', 'r': ['H', 'C'], 'e': ['C']}]
        for b in BAD_LABELS:
            C.append({'k': 'chord', 'r': ['C', b], 'e': ['G', 'N']})
            C.append({'k': 'chord', 'r': ['C', 'N'], 'e': [b, 'G']})
            C.append({'k': 'chord', 'r': [b], 'e': [b]})
        # --- chord.directional_hamming_distance / overseg / underseg / seg
        dh = [I((0, 2), (2, 4)), I((0, 4)), I((0, 1), (2, 4)), I((0, 3), (2, 4)), I((0, 2), (1.984375, 4)), I((2, 4), (0, 2)), I(),
              I((0, 0)), I((-1, 1)), arr([0, 1, 2], [1, 3]), arr([0, 1], [2]), I((0, 1), (1, 2), (1.5, 3)), I((0, 1), (1, 2), (2, 3))]
        for r in dh:
            for e in dh:
                for fn in range(4):
                    C.append({'k': 'dhd', 'fn': fn, 'r': r, 'e': e})
        # --- segment.validate_structure
        seg = [I(), I((0, 4)), I((0, 2), (2, 4)), I((0, 1), (1, 5)), I((0.5, 4)), I((0, 2), (2, 2)), I((-1, 4)), arr([0, 1, 2], [1, 3]),
               I((1e-09, 4)), I((1e-07, 4)), I((0, 4.00001)), I((0, 4.001)), I((2, 4), (0, 2)), arr([0, 4], [2])]
        for r in seg:
            for e in seg:
                nr, ne = r['sh'][0], e['sh'][0]
                C.append({'k': 'structure', 'r': r, 'nrl': nr, 'e': e, 'nel': ne})
            C.append({'k': 'structure', 'r': r, 'nrl': r['sh'][0] + 1, 'e': I((0, 4)), 'nel': 1})
            C.append({'k': 'structure', 'r': I((0, 4)), 'nrl': 1, 'e': r, 'nel': max(0, r['sh'][0] - 1) if r['sh'][0] else 1})
        # --- hierarchy.validate_hier_intervals
        C.append({'k': 'hier', 'H': []})
        for top in seg[:6] + [seg[7]]:
            C.append({'k': 'hier', 'H': [top]})
            for l2 in seg:
                C.append({'k': 'hier', 'H': [top, l2]})
                C.append({'k': 'hier', 'H': [top, I((0, 4)), l2]})
        # --- multipitch.validate
        t2 = E(0, 0.5)
        f1 = [E(220), E(440, 880)]
        mp = [(E(), [], E(), []), (t2, f1, t2, f1), (t2, [E(), E()], t2, f1), (E(0), [E(220)], t2, f1), (E(0, 0), f1, t2, f1),
              (E(0.5, 0), f1, t2, f1), (E(0, 30000.5), f1, t2, f1), (arr([0, 0.5], [1, 2]), f1, t2, f1), (E(0, 0.5, 1), f1, t2, f1),
              (t2, f1 + [E(220)], t2, f1), (t2, [E(220), E(5000.5)], t2, f1), (t2, [E(220), E(19.5)], t2, f1), (t2, [E(0), E(220)], t2, f1),
              (t2, [E(-220), E(220)], t2, f1), (t2, [E(-6000), E(220)], t2, f1), (t2, [arr([220, 440], [1, 2]), E(220)], t2, f1),
              (t2, [E(20), E(5000)], t2, f1), (E(), [], t2, f1), (arr([], [0, 2]), [], t2, f1), (arr([0.0], []), [E(220)], t2, f1)]
        for (a, b, c, d) in mp:
            C.append({'k': 'multipitch', 'rt': a, 'rf': b, 'et': c, 'ef': d})
            C.append({'k': 'multipitch', 'rt': c, 'rf': d, 'et': a, 'ef': b})
        # --- melody.validate_voicing / validate
        vs = [[], [1], [0], [1, 0, 1], [0.5, 0.25], [1, 1.5], [-0.5, 1], [1, 1, 1, 1], [0, 0], [1.0, 0.0], [1.015625], [-Q64]]
        for a in vs:
            for b in vs:
                C.append({'k': 'voicing', 'rv': a, 'ev': b})
        for (a, b, c, d) in [([], [], [], []), ([1], [100], [1], [100]), ([1, 0], [100, 0], [1, 1], [100, 200]), ([1], [], [1], [100]),
                             ([1], [100], [1, 1], [100]), ([1], [100, 100], [1], [100, 100]), ([1], [100], [1], []),
                             ([1, 1], [100, 100], [1], [100]), ([2], [100], [-1], [100])]:
            C.append({'k': 'melody', 'rv': a, 'rc': b, 'ev': c, 'ec': d})
        # --- transcription / transcription_velocity
        n2 = I((0, 1), (1, 2))
        tr = [(I(), [], I(), []), (n2, [220, 440], n2, [220, 440]), (I((0, 1)), [220], n2, [220, 440]), (I((0, 1), (0, 1)), [220, 220], I(), []),
              (I((-1, 1)), [220], I(), []), (I((1, 1)), [220], I(), []), (I((2, 1)), [220], I(), []), (arr([0, 1, 2], [1, 3]), [220], I(), []),
              (arr([0, 1], [2]), [220, 220], I(), []), (n2, [220], I(), []), (n2, [220, 440, 880], I(), []), (n2, [220, 0], I(), []),
              (n2, [220, -440], I(), []), (n2, [Q64, 440], I(), []), (I(), [220], I(), []), (I((0, 1)), [], I(), [])]
        for (a, b, c, d) in tr:
            C.append({'k': 'trans', 'ri': a, 'rp': b, 'ei': c, 'ep': d})
            C.append({'k': 'trans', 'ri': c, 'rp': d, 'ei': a, 'ep': b})
            C.append({'k': 'vel', 'ri': a, 'rp': b, 'rv': [64.0] * len(b), 'ei': c, 'ep': d, 'ev': [64.0] * len(d)})
            C.append({'k': 'vel', 'ri': c, 'rp': d, 'rv': [64.0] * len(d), 'ei': a, 'ep': b, 'ev': [64.0] * len(b)})
        for rv, ev in [([0, 127], [0, 0]), ([64], [64, 64]), ([64, 64, 64], [64, 64]), ([64, 64], [64]), ([64, 64], [64, 64, 64]),
                       ([-1, 64], [64, 64]), ([64, 64], [64, -Q64]), ([], [])]:
            C.append({'k': 'vel', 'ri': n2, 'rp': [220, 440], 'rv': rv, 'ei': n2, 'ep': [220, 440], 'ev': ev})
        # --- key
        for s in GOOD_KEYS + BAD_KEYS:
            C.append({'k': 'key', 's': s})
            C.append({'k': 'keys', 'r': s, 'e': 'C major'})
            C.append({'k': 'keys', 'r': 'X', 'e': s})
        # --- chord.weighted_accuracy
        for c, w in [([], []), ([1], [1]), ([1, 0], [1, 2]), ([1, 0], [0, 0]), ([-1, -1], [1, 2]), ([1, 0], [1]), ([1], [1, 2]), ([], [1]),
                     ([1, 0], [-1, 2]), ([1, 0], [1, -Q64]), ([1, -1], [0, 2]), ([1, 0, 1], [1, 2])]:
            C.append({'k': 'wacc', 'c': c, 'w': w})
        # --- tempo
        tv = [[60, 120], [0, 120], [120, 0], [0, 0], [120, 120], [60], [], [60, 120, 180], [-60, 120], [60, -Q64], ['nan', 120], [60, 'inf'],
              ['-inf', 120], ['nan', 'nan'], [0, 'nan']]
        for t in tv:
            for ref in (True, False):
                C.append({'k': 'tempi', 't': t, 'ref': ref})
            for w in (0.0, 1.0, 0.5, -Q64, 1 + Q64):
                C.append({'k': 'tempo', 'r': t, 'w': w, 'e': [60, 120]})
                C.append({'k': 'tempo', 'r': [60, 120], 'w': w, 'e': t})
        # --- pattern
        occ = [[0.0, 60.0], [1.0, 62.0]]
        pv = [[], [[occ]], [[occ, occ]], [[occ], [occ]], [[[]]], [[]], [[occ], []], [[[[0.0, 60.0, 1.0]]]], [[[[0.0]]]], [[occ, [[1.0]]]],
              [[[[]]]], [[[[0.0, 60.0]], [[0.0, 60.0], [1.0, 2.0, 3.0]]]]]
        for r in pv:
            for e in pv[:4] + [pv[5], pv[7]]:
                C.append({'k': 'pattern', 'r': r, 'e': e})
                C.append({'k': 'pattern', 'r': e, 'e': r})
        # --- alignment
        na = lambda *x: {'notarray': True, 'sh': [len(x)], 'd': [float(v) for v in x]}  # noqa
        al = [E(1, 2, 3), E(2), E(2, 2), E(0, 1), E(), E(3, 2, 1), E(-1, 2, 3), E(1, 2), arr([1, 2, 3], [1, 3]), arr([1, 2, 3], [3, 1]),
              arr([5], []), na(1, 2, 3), E(1, 2, 3, 4), E(1, 3, 2), E(-2, -1, 0)]
        for r in al:
            for e in al:
                C.append({'k': 'align', 'r': r, 'e': e})
        # --- separation
        shapes = [[2, 8], [1, 8], [0, 0], [0, 8], [2, 0], [8], [0], [2, 8, 2], [2, 8, 2, 1], [3, 8], [2, 7], [101, 2], [100, 2], [1, 1, 1],
                  [101, 0], []]
        for rs in shapes:
            for es in ([rs] + [[2, 8], [1, 8]]):
                for rsil in (False, True):
                    for esil in (False, True):
                        if (rsil and (len(rs) < 2 or 0 in rs)) or (esil and (len(es) < 2 or 0 in es)):
                            continue
                        C.append({'k': 'sep', 'rs': rs, 'es': es, 'rsil': rsil, 'esil': esil})
        # --- 0-d arrays (shape ()) through every validator that takes arrays; the exception class is compared exactly
        Z = lambda x: arr([x], [])  # noqa
        zs = [Z(3), Z(0.5), Z(0), Z(-1), Z(40000)]
        for z in zs:
            C.append({'k': 'events', 'max': 30000.0, 'a': z})
            C.append({'k': 'intervals', 'a': z})
            for allow in (False, True):
                C.append({'k': 'freqs', 'max': 5000.0, 'min': 20.0, 'allow': allow, 'a': Z(440)})
                C.append({'k': 'freqs', 'max': 5000.0, 'min': 20.0, 'allow': allow, 'a': z})
            for o in [E(), E(1, 2), E(2, 1), z]:
                C.append({'k': 'events2', 'r': z, 'e': o})
                C.append({'k': 'events2', 'r': o, 'e': z})
            for o in [I(), I((0, 1)), I((1, 1)), arr([0, 1], [2]), arr([0, 1, 2], [1, 3]), z]:
                for kk in ('boundary', 'pair'):
                    C.append({'k': kk, 'r': z, 'e': o})
                    C.append({'k': kk, 'r': o, 'e': z})
                for fn in range(4):
                    C.append({'k': 'dhd', 'fn': fn, 'r': z, 'e': o})
                    C.append({'k': 'dhd', 'fn': fn, 'r': o, 'e': z})
                C.append({'k': 'structure', 'r': z, 'nrl': 0, 'e': o, 'nel': o['sh'][0] if o['sh'] else 0})
                C.append({'k': 'structure', 'r': o, 'nrl': o['sh'][0] if o['sh'] else 0, 'e': z, 'nel': 1})
                C.append({'k': 'hier', 'H': [z, o]})
                C.append({'k': 'hier', 'H': [o, z]})
                C.append({'k': 'hier', 'H': [I((0, 4)), o, z]})
                C.append({'k': 'hier', 'H': [I((0, 4)), z, o]})
            C.append({'k': 'hier', 'H': [z]})
            C.append({'k': 'multipitch', 'rt': z, 'rf': [E(220)], 'et': E(0), 'ef': [E(220)]})
            C.append({'k': 'multipitch', 'rt': E(0), 'rf': [E(220)], 'et': z, 'ef': [E(220)]})
            C.append({'k': 'multipitch', 'rt': E(0), 'rf': [z], 'et': E(0), 'ef': [E(220)]})
            C.append({'k': 'multipitch', 'rt': E(0), 'rf': [Z(440)], 'et': E(0), 'ef': [E(220)]})
            C.append({'k': 'multipitch', 'rt': E(0), 'rf': [E(220)], 'et': E(0), 'ef': [Z(440)]})
            C.append({'k': 'align', 'r': z, 'e': E(1, 2)})
            C.append({'k': 'align', 'r': E(1, 2), 'e': z})
            for ref in (True, False):
                C.append({'k': 'tempi', 't': z['d'], 'ref': ref, 'zerod': True})
        # melody / transcription on arrays of any shape (0-d: IndexError from .shape[0]; 2-d: the first axis counts)
        va = [E(), E(1), E(1, 0), E(0.5, 0.25), E(1, 1.5), E(-0.5, 1), Z(0.5), Z(1), Z(2), arr([1, 0], [1, 2]), arr([1, 2], [1, 2]),
              arr([1, 0], [2, 1]), arr([], [0, 2])]
        for a in va:
            for b in va:
                C.append({'k': 'voicing_a', 'rv': a, 'ev': b})
        ma = [E(), E(1), E(1, 2), Z(0.5), arr([1, 2], [1, 2]), arr([1, 2], [2, 1])]
        for a in ma:
            for b in ma:
                for c in (E(1), Z(0.5), E(1, 2)):
                    for d in (E(1), Z(0.5), E(1, 2)):
                        C.append({'k': 'melody_a', 'rv': a, 'rc': b, 'ev': c, 'ec': d})
        n1, n2 = I((0, 1)), I((0, 1), (1, 2))
        pa = [E(), E(220), E(220, 440), E(220, 0), E(-220), Z(220), Z(0), Z(-1), arr([220, 440], [1, 2]), arr([220, -1], [1, 2]),
              arr([220, 440], [2, 1]), arr([], [0, 2])]
        for iv in (I(), n1, n2, I((1, 1)), arr([3], []), arr([0, 1], [2])):
            for rp in pa:
                for ep in (E(220), Z(220), E(), E(220, 440)):
                    C.append({'k': 'trans_a', 'ri': iv, 'rp': rp, 'ei': n1, 'ep': ep})
                    C.append({'k': 'trans_a', 'ri': n1, 'rp': ep, 'ei': iv, 'ep': rp})
        vv = [E(), E(64), E(64, 0), E(-1), Z(64), Z(-1), arr([64, 64], [1, 2]), arr([64, -1], [1, 2]), arr([64, 64], [2, 1])]
        for rp, iv in ((E(220), n1), (E(220, 440), n2), (Z(220), n1), (E(), I())):
            for rv in vv:
                for ev in (E(64), Z(64), E(), E(64, 64)):
                    C.append({'k': 'vel_a', 'ri': iv, 'rp': rp, 'rv': rv, 'ei': n1, 'ep': E(220), 'ev': ev})
                    C.append({'k': 'vel_a', 'ri': n1, 'rp': E(220), 'rv': ev, 'ei': iv, 'ep': rp, 'ev': rv})
        return C

    # ------------------------------------------------------------------ random stream: a valid base, then zero or one fault
    def gen(self, rng, n):
        out = []
        L = lambda k, step=Q64, hi=2000: sorted(rng.randrange(0, hi) * step for _ in range(k))  # noqa

        def events():
            k = rng.choice([0, 1, 2, 3, 6])
            x = L(k)
            if k > 1 and rng.random() < 0.3:
                j = rng.randrange(1, k)
                x[j] = x[j - 1]
            return x

        def ev_fault(x):
            f = rng.choice(['none', 'none', 'unsorted', '2d', '2dcol', 'large', 'edge'])
            a = arr(x)
            if f == 'unsorted' and len(x) >= 2 and x[0] != x[-1]:
                a = arr(x[::-1])
            elif f == '2d' and x:
                a = arr(x, [1, len(x)])
            elif f == '2dcol' and x:
                a = arr(x, [len(x), 1])
            elif f == 'large':
                a = arr(x + [30000.0 + rng.choice([Q64, 1.0, 5000.0])])
            elif f == 'edge':
                a = arr(x + [30000.0])
            return a

        def intervals(k=None, seg=False):
            k = rng.choice([0, 1, 2, 4]) if k is None else k
            if k == 0:
                return []
            b = sorted(set(rng.randrange(0 if not seg else 1, 640) * Q64 for _ in range(k + 1)))
            while len(b) < k + 1:
                b.append(b[-1] + 1.0)
            if seg:
                b[0] = 0.0
            return [(b[i], b[i + 1]) for i in range(k)]

        def iv_fault(rows):
            f = rng.choice(['none', 'none', 'none', 'neg', 'zero', 'rev', 'nby3', 'nby1', '1d', '3d', 'overlap'])
            a = ivs(rows)
            if not rows:
                return a if f in ('none', 'neg', 'zero', 'rev', 'overlap', '1d', '3d') else arr([], [0, 3 if f == 'nby3' else 1])
            j = rng.randrange(len(rows))
            r = [list(x) for x in rows]
            if f == 'neg':
                r[j][0] = -rng.choice([Q64, 1.0])
                a = ivs(r)
            elif f == 'zero':
                r[j][1] = r[j][0]
                a = ivs(r)
            elif f == 'rev':
                r[j] = r[j][::-1]
                a = ivs(r)
            elif f == 'nby3':
                a = arr([x for row in r for x in row + [row[1] + 1]], [len(r), 3])
            elif f == 'nby1':
                a = arr([row[0] for row in r], [len(r), 1])
            elif f == '1d':
                a = arr(a['d'])
            elif f == '3d':
                a = arr(a['d'], [1, len(r), 2])
            elif f == 'overlap' and len(r) > 1:
                j = rng.randrange(len(r) - 1)
                r[j][1] = r[j + 1][0] + (r[j + 1][1] - r[j + 1][0]) / 2
                a = ivs(r)
            return a

        def freqs():
            return [rng.choice([20.0, 110.0, 220.0, 440.0, 4999.984375, 5000.0]) for _ in range(rng.choice([0, 1, 2, 3]))]

        def fr_fault(x):
            f = rng.choice(['none', 'none', 'none', 'high', 'low', 'zero', 'neg', 'neghigh', '2d'])
            if f == 'high':
                x = x + [5000.0 + rng.choice([Q64, 1000.0])]
            elif f == 'low':
                x = x + [20.0 - rng.choice([Q64, 10.0])]
            elif f == 'zero':
                x = x + [0.0]
            elif f == 'neg':
                x = x + [-rng.choice([20.0, 440.0, 5000.0])]
            elif f == 'neghigh':
                x = x + [-5000.015625]
            if f == '2d' and x:
                return arr(x, [1, len(x)])
            return arr(x)

        def zero_d(a):
            """with small probability replace an array by a 0-d one"""
            return arr([rng.choice([0.0, 0.5, 3.0, 220.0])], []) if rng.random() < 0.12 else a

        kinds = ['events', 'events2', 'intervals', 'boundary', 'pair', 'voicing_a', 'melody_a', 'trans_a', 'vel_a', 'freqs', 'chord', 'dhd', 'structure', 'hier', 'multipitch', 'voicing',
                 'melody', 'trans', 'vel', 'keys', 'wacc', 'tempo', 'pattern', 'align', 'sep']
        while len(out) < n:
            k = rng.choice(kinds)
            if k == 'events':
                out.append({'k': k, 'max': 30000.0, 'a': ev_fault(events())})
            elif k == 'events2':
                out.append({'k': k, 'r': ev_fault(events()), 'e': ev_fault(events()) if rng.random() < 0.5 else arr(events())})
            elif k == 'intervals':
                out.append({'k': k, 'a': iv_fault(intervals())})
            elif k in ('boundary', 'pair'):
                c = {'k': k, 'r': zero_d(iv_fault(intervals())), 'e': zero_d(ivs(intervals()) if rng.random() < 0.6 else iv_fault(intervals()))}
                if rng.random() < 0.5:
                    c['r'], c['e'] = c['e'], c['r']
                out.append(c)
            elif k == 'voicing_a':
                m = rng.choice([0, 1, 3])
                v = lambda d=0: arr([rng.choice([0.0, 1.0, 0.5, 1.5, -0.25]) for _ in range(max(0, m + d))])  # noqa
                a, b = v(), v(rng.choice([0, 0, 1]))
                if rng.random() < 0.2 and m:
                    a = arr(a['d'], [1, m])
                out.append({'k': k, 'rv': zero_d(a), 'ev': zero_d(b)})
            elif k == 'melody_a':
                m = rng.choice([0, 1, 3])
                v = lambda: arr([float(rng.choice([0, 1200])) for _ in range(max(0, m + rng.choice([0, 0, 0, 1, -1])))])  # noqa
                out.append({'k': k, 'rv': zero_d(v()), 'rc': zero_d(v()), 'ev': zero_d(v()), 'ec': zero_d(v())})
            elif k in ('trans_a', 'vel_a'):
                def notes_a():
                    m = rng.choice([0, 1, 2])
                    on = L(m, 1 / 16.0, 160)
                    return ivs([(o, o + 0.5) for o in on]), arr([rng.choice([220.0, 440.0, 0.0, -220.0, 880.0, 880.0]) for _ in range(m)]), \
                        arr([float(rng.choice([0, 64, 127, 127, -1])) for _ in range(m)])
                ri, rp, rv = notes_a()
                ei, ep, ev = notes_a()
                f = rng.choice(['none', 'none', 'iv', 'plen', 'p2d', 'vlen'])
                if f == 'iv':
                    ri = iv_fault([tuple(ri['d'][2 * i:2 * i + 2]) for i in range(ri['sh'][0])])
                elif f == 'plen':
                    rp = arr(rp['d'] + [220.0])
                elif f == 'p2d' and ep['d']:
                    ep = arr(ep['d'], [1, len(ep['d'])])
                elif f == 'vlen':
                    ev = arr(ev['d'] + [64.0])
                if k == 'trans_a':
                    out.append({'k': k, 'ri': zero_d(ri), 'rp': zero_d(rp), 'ei': ei, 'ep': zero_d(ep)})
                else:
                    out.append({'k': k, 'ri': ri, 'rp': zero_d(rp), 'rv': zero_d(rv), 'ei': ei, 'ep': zero_d(ep), 'ev': zero_d(ev)})
            elif k == 'freqs':
                out.append({'k': k, 'max': 5000.0, 'min': 20.0, 'allow': rng.random() < 0.3, 'a': fr_fault(freqs())})
            elif k == 'chord':
                m = rng.choice([0, 1, 2, 4])
                r = [rng.choice(GOOD_LABELS) for _ in range(m)]
                e = [rng.choice(GOOD_LABELS) for _ in range(m)]
                f = rng.choice(['none', 'none', 'len', 'badr', 'bade'])
                if f == 'len':
                    e = e + ['C'] if rng.random() < 0.5 or not e else e[:-1]
                elif f == 'badr' and r:
                    r[rng.randrange(m)] = rng.choice(BAD_LABELS)
                elif f == 'bade' and e:
                    e[rng.randrange(m)] = rng.choice(BAD_LABELS)
                out.append({'k': k, 'r': r, 'e': e})
            elif k == 'dhd':
                out.append({'k': k, 'fn': rng.randrange(4), 'r': iv_fault(intervals(rng.choice([1, 2, 4]))),
                            'e': iv_fault(intervals(rng.choice([1, 2, 4]))) if rng.random() < 0.5 else ivs(intervals(rng.choice([1, 2, 3])))})
            elif k == 'structure':
                r = intervals(rng.choice([0, 1, 2, 4]), seg=True)
                e = intervals(rng.choice([0, 1, 2, 4]), seg=True)
                if r and e and rng.random() < 0.7:
                    e[-1] = (e[-1][0], r[-1][1]) if r[-1][1] > e[-1][0] else e[-1]
                f = rng.choice(['none', 'none', 'shift', 'end', 'nlab', 'iv', 'close'])
                ra, ea = ivs(r), ivs(e)
                nrl, nel = len(r), len(e)
                if f == 'shift' and e:
                    ea = ivs([(a + 0.5, b + 0.5) for a, b in e])
                elif f == 'end' and e:
                    ea = ivs(e[:-1] + [(e[-1][0], e[-1][1] + rng.choice([Q64, 1.0]))])
                elif f == 'nlab':
                    nrl += rng.choice([1, -1]) if nrl else 1
                elif f == 'iv':
                    ra = iv_fault(r)
                elif f == 'close' and e:
                    ea = ivs(e[:-1] + [(e[-1][0], e[-1][1] + rng.choice([1e-06, 1e-09]))])
                out.append({'k': k, 'r': ra, 'nrl': nrl, 'e': ea, 'nel': nel})
            elif k == 'hier':
                end = rng.choice([4.0, 8.0])

                def level():
                    m = rng.choice([1, 2, 3])
                    cuts = sorted(set(rng.randrange(1, int(end * 4)) * 0.25 for _ in range(m - 1)))
                    b = [0.0] + cuts + [end]
                    return [(b[i], b[i + 1]) for i in range(len(b) - 1)]
                H = [level() for _ in range(rng.choice([1, 2, 3]))]
                A_ = [ivs(l) for l in H]
                f = rng.choice(['none', 'none', 'shift', 'end', 'iv', 'top'])
                j = rng.randrange(len(H))
                if f == 'shift':
                    A_[j] = ivs([(a + 0.5, b + 0.5) for a, b in H[j]])
                elif f == 'end':
                    A_[j] = ivs(H[j][:-1] + [(H[j][-1][0], H[j][-1][1] + 1.0)])
                elif f == 'iv':
                    A_[j] = iv_fault(H[j])
                elif f == 'top':
                    A_[0] = iv_fault(H[0])
                out.append({'k': k, 'H': A_})
            elif k == 'multipitch':
                def side():
                    m = rng.choice([0, 1, 2, 4])
                    t = [i * 0.25 for i in range(m)]
                    return t, [arr(freqs()) for _ in range(m)]
                rt, rf = side()
                et, ef = side()
                f = rng.choice(['none', 'none', 'time', 'len', 'len2', 'freq'])
                rta = arr(rt)
                if f == 'time':
                    rta = ev_fault(rt)
                elif f == 'len':
                    rta = arr(rt + [(rt[-1] if rt else 0.0) + 1.0])
                elif f == 'len2':
                    rf = rf + [arr([220.0])]
                elif f == 'freq' and rf:
                    j = rng.randrange(len(rf))
                    rf[j] = fr_fault(rf[j]['d'])
                c = {'k': k, 'rt': rta, 'rf': rf, 'et': arr(et), 'ef': ef}
                if rng.random() < 0.5:
                    c = {'k': k, 'rt': c['et'], 'rf': c['ef'], 'et': c['rt'], 'ef': c['rf']}
                out.append(c)
            elif k == 'voicing':
                m = rng.choice([0, 1, 3, 5])
                v = lambda: [rng.choice([0.0, 1.0, 1.0, 0.5, 0.25]) for _ in range(m)]  # noqa
                a, b = v(), v()
                f = rng.choice(['none', 'none', 'len', 'hi', 'lo'])
                if f == 'len':
                    b = b + [1.0]
                elif f == 'hi' and a:
                    a[rng.randrange(m)] = 1.0 + rng.choice([Q64, 1.0])
                elif f == 'lo' and b:
                    b[rng.randrange(m)] = -rng.choice([Q64, 1.0])
                out.append({'k': k, 'rv': a, 'ev': b})
            elif k == 'melody':
                m = rng.choice([0, 1, 3])
                mk = lambda d=0: [float(rng.choice([0, 1200, 2400])) for _ in range(max(0, m + d))]  # noqa
                d = [0, 0, 0, 0]
                if rng.random() < 0.5:
                    d[rng.randrange(4)] = rng.choice([1, -1])
                out.append({'k': k, 'rv': [1.0] * max(0, m + d[0]), 'rc': mk(d[1]), 'ev': [1.0] * max(0, m + d[2]), 'ec': mk(d[3])})
            elif k in ('trans', 'vel'):
                def notes():
                    m = rng.choice([0, 1, 2, 4])
                    on = L(m, 1 / 16.0, 160)
                    return [(o, o + rng.choice([0.125, 0.5, 1.0])) for o in on], [rng.choice([220.0, 440.0, 880.0]) for _ in range(m)]
                ri, rp = notes()
                ei, ep = notes()
                rv = [float(rng.choice([0, 20, 64, 127])) for _ in rp]
                ev = [float(rng.choice([0, 20, 64, 127])) for _ in ep]
                f = rng.choice(['none', 'none', 'iv', 'plen', 'pzero', 'pneg', 'vlen', 'vneg'])
                ria = ivs(ri)
                if f == 'iv':
                    ria = iv_fault(ri)
                elif f == 'plen':
                    rp = rp + [220.0] if rng.random() < 0.5 or not rp else rp[:-1]
                    rv = rv + [64.0] if len(rp) > len(rv) else rv[:len(rp)]
                elif f == 'pzero' and ep:
                    ep[rng.randrange(len(ep))] = 0.0
                elif f == 'pneg' and rp:
                    rp[rng.randrange(len(rp))] = -220.0
                elif f == 'vlen' and k == 'vel':
                    ev = ev + [64.0] if rng.random() < 0.5 or not ev else ev[:-1]
                elif f == 'vneg' and k == 'vel' and rv:
                    rv[rng.randrange(len(rv))] = -1.0
                if k == 'trans':
                    out.append({'k': k, 'ri': ria, 'rp': rp, 'ei': ivs(ei), 'ep': ep})
                else:
                    out.append({'k': k, 'ri': ria, 'rp': rp, 'rv': rv, 'ei': ivs(ei), 'ep': ep, 'ev': ev})
            elif k == 'keys':
                out.append({'k': k, 'r': rng.choice(GOOD_KEYS + BAD_KEYS[:3]), 'e': rng.choice(GOOD_KEYS + BAD_KEYS)})
            elif k == 'wacc':
                m = rng.choice([0, 1, 3])
                c = [float(rng.choice([1, 0, -1])) for _ in range(m)]
                w = [rng.choice([0.0, 0.5, 1.0, 2.0]) for _ in range(m)]
                f = rng.choice(['none', 'none', 'len', 'neg'])
                if f == 'len':
                    w = w + [1.0]
                elif f == 'neg' and w:
                    w[rng.randrange(m)] = -0.5
                out.append({'k': k, 'c': c, 'w': w})
            elif k == 'tempo':
                t = lambda: [rng.choice([0.0, 60.0, 90.0, 120.0]) for _ in range(2)]  # noqa
                r, e = t(), t()
                w = rng.choice([0.0, 0.25, 1.0])
                f = rng.choice(['none', 'none', 'size', 'neg', 'nan', 'w'])
                if f == 'size':
                    e = e + [100.0] if rng.random() < 0.5 else e[:1]
                elif f == 'neg':
                    r[rng.randrange(2)] = -60.0
                elif f == 'nan':
                    e[rng.randrange(2)] = rng.choice(['nan', 'inf', '-inf'])
                elif f == 'w':
                    w = rng.choice([-0.25, 1.25])
                out.append({'k': k, 'r': r, 'w': w, 'e': e})
            elif k == 'pattern':
                def pats():
                    return [[[[float(rng.randrange(8)), float(60 + rng.randrange(12))] for _ in range(rng.choice([1, 2, 3]))]
                             for _ in range(rng.choice([1, 2]))] for _ in range(rng.choice([0, 1, 2]))]
                r, e = pats(), pats()
                f = rng.choice(['none', 'none', 'noocc', 't3', 't1'])
                if f == 'noocc':
                    r = r + [[]]
                elif f == 't3' and e:
                    e[0][0][0] = e[0][0][0] + [1.0]
                elif f == 't1' and r:
                    r[-1][-1][-1] = r[-1][-1][-1][:1]
                out.append({'k': k, 'r': r, 'e': e})
            elif k == 'align':
                m = rng.choice([1, 2, 4])
                r = L(m, 1 / 16.0, 320)
                e = L(m, 1 / 16.0, 320)
                f = rng.choice(['none', 'none', 'len', 'unsorted', 'neg', '2d', 'list', 'empty'])
                ra, ea = arr(r), arr(e)
                if f == 'len':
                    ea = arr(e + [e[-1] + 1.0])
                elif f == 'unsorted' and m > 1 and e[0] != e[-1]:
                    ea = arr(e[::-1])
                elif f == 'neg':
                    ra = arr([-1.0] + r[1:])
                elif f == '2d':
                    ra = arr(r, [1, m])
                elif f == 'list':
                    ea = {'notarray': True, 'sh': [m], 'd': e}
                elif f == 'empty':
                    ra, ea = arr([]), arr([])
                out.append({'k': k, 'r': ra, 'e': ea})
            elif k == 'sep':
                rs = [rng.choice([1, 2, 3]), rng.choice([4, 8])]
                es = list(rs)
                f = rng.choice(['none', 'none', 'shape', '4d', 'rsil', 'esil', 'many', '3d', 'empty'])
                rsil = esil = False
                if f == 'shape':
                    es[rng.randrange(2)] += 1
                elif f == '4d':
                    rs = es = rs + [1, 1]
                elif f == 'rsil':
                    rsil = True
                elif f == 'esil':
                    esil = True
                elif f == 'many':
                    rs = es = [101, 2]
                elif f == '3d':
                    rs = es = rs + [2]
                    rsil = rng.random() < 0.3
                elif f == 'empty':
                    rs = es = [0, 0]
                out.append({'k': k, 'rs': rs, 'es': es, 'rsil': rsil, 'esil': esil})
        return out

    def nontrivial(self, case, out):
        return out != 0

    def distribution(self, pairs):
        d = {}
        for c, o in pairs:
            key = '%s:%s' % (c['k'], {0: 'ok', 1: 'ValueError', 2: 'InvalidChord', 3: 'TypeError', 4: 'IndexError', 5: 'other'}
                             .get(o, 'IMPL-DISAGREE-%s' % o))
            d[key] = d.get(key, 0) + 1
        return dict(sorted(d.items()))

    def shrink(self, case):
        return []


UNIT = U()
