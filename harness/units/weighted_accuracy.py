"""chord.weighted_accuracy vs ME.Model.ChordScore.wa_q / wa (exact lattice weights; score compared to 1e-9)."""
import math
from lib import core


def lat(rng, hi=64):
    """a non-negative weight on the 1/64 lattice (exact in binary floating point), zeros frequent"""
    r = rng.random()
    if r < 0.25:
        return 0.0
    if r < 0.5:
        return float(rng.randint(1, 8))
    return rng.randint(1, hi * 64) / 64.0


class U(core.Unit):
    name = 'weighted_accuracy'
    requires = ['ME.Model.Prelude', 'ME.Model.ChordScore']
    mirrors = [('mir_eval/chord.py', 'weighted_accuracy')]
    counts = {'quick': 2500, 'thorough': 30000}
    shard = 500
    header = '''
Open Scope Q_scope.
Definition tol := (1#1000000000).
Definition out_eqb (a b : res xval) : bool :=
  match a, b with Ok x, Ok y => xval_eqb tol x y | Raise e, Raise f => exn_eqb e f | _, _ => false end.
(* (comparisons as Q, the same comparisons as Z when they are all integers, weights, observed outcome) *)
Definition check_case (c : list Q * option (list Z) * list Q * res xval) : bool :=
  let '(cq, cz, w, out) := c in
  out_eqb (wa_q cq w) out && match cz with Some z => out_eqb (wa z w) out | None => true end.
'''

    def exhaustive(self, tier):
        ex = [
            [[], []],                                   # empty: total weight 0 -> 0
            [[1.0], []], [[], [1.0]], [[1.0, 0.0], [1.0]], [[1.0], [1.0, 2.0]],     # length mismatch
            [[1.0, 0.0], [1.0, -1.0]], [[-1.0], [-0.25]], [[1.0, 1.0], [-1.0, 1.0]],  # negative weight
            [[1.0], [-0.0]],                            # negative zero is not < 0
            [[1.0, 0.0], [0.0, 0.0]], [[-1.0], [0.0]],  # total weight 0
            [[-1.0, -1.0], [1.0, 2.0]], [[-1.0], [3.0]],  # nothing comparable
            [[1.0, -1.0], [0.0, 1.0]], [[0.0, -1.0, 1.0], [0.0, 0.5, 0.0]],  # comparable rows all weight 0 -> nan
            [[1.0, 1.0, 1.0], [1.0, 2.0, 3.0]], [[0.0, 0.0], [1.0, 2.0]],
            [[1.0, 0.0], [1.0, 3.0]], [[1.0, 0.0, -1.0], [1.0, 3.0, 100.0]],
            [[1.0, 1.0, 0.0], [0.5, 0.5, 3.0]],          # split row of the previous
            [[0.5, 2.0, -0.5], [1.0, 1.0, 1.0]],        # float comparisons: >= 0 is all that is asked
            [[1.0, -1.0], [1.0]], [[1.0], [-1.0, 1.0]],  # mismatch is reported before negativity
            [[-1.0, 1.0], [0.0, 0.0]],
            [[1.0, 0.0], [2.0 ** -40, 3 * 2.0 ** -40]], [[1.0, 1.0], [2.0 ** -60, 2.0 ** -61]], [[1.0, 0.0, -1.0], [2.0 ** -100, 2.0 ** -100, 1.0]],
            [[1.0, 0.0], [2.0 ** 60, 2.0 ** 60]],      # weights whose total is tiny (but not 0) or huge
        ]
        return ex

    def gen(self, rng, n):
        out = []
        for _ in range(n):
            r = rng.random()
            k = rng.choice([0, 1, 1, 2, 2, 3, 3, 4, 5, 6, 8, 12])
            if r < 0.70:      # the values the comparison functions produce
                c = [float(rng.choice([1, 1, 0, 0, -1])) for _ in range(k)]
                w = [lat(rng) for _ in range(k)]
            elif r < 0.78:    # all ignored / all zero weights / ignored rows carry all the weight
                c = [float(rng.choice([1, 0, -1, -1])) for _ in range(k)]
                w = [lat(rng) if x < 0 and rng.random() < 0.7 else 0.0 for x in c]
            elif r < 0.86:    # arbitrary float comparisons
                c = [rng.choice([1.0, 0.0, -1.0, 0.5, 0.25, 2.0, -0.5, 0.75, 3.0]) for _ in range(k)]
                w = [lat(rng) for _ in range(k)]
            elif r < 0.93:    # some negative weight
                c = [float(rng.choice([1, 0, -1])) for _ in range(max(k, 1))]
                w = [lat(rng) for _ in c]
                w[rng.randrange(len(w))] = -rng.randint(1, 256) / 64.0
            else:             # mismatched lengths (possibly with a negative weight too)
                c = [float(rng.choice([1, 0, -1])) for _ in range(k)]
                w = [lat(rng) for _ in range(rng.choice([j for j in range(0, 9) if j != k]))]
                if w and rng.random() < 0.3:
                    w[0] = -1.0
            if rng.random() < 0.2:    # all weights on a very different scale (tiny durations, huge durations): exact power-of-two factors
                f = 2.0 ** rng.choice([-20, -30, -40, -60, -100, 30, 60])
                w = [x * f for x in w]
            out.append([c, w])
        return out

    def run(self, case):
        import numpy as np
        from mir_eval import chord as C
        t, v = core.call_impl(C.weighted_accuracy, np.array(case[0], dtype=float), np.array(case[1], dtype=float))
        if t == 'ok':
            v = float(v)
            return ['ok', 'nan' if math.isnan(v) else ('inf' if math.isinf(v) else v)]
        return ['exc', v]

    def emit(self, case, out):
        c, w = case
        cz = core.cq_list([core.cq_Z(int(x)) for x in c]) if all(float(x).is_integer() for x in c) else None
        if out[0] == 'ok':
            o = '(Ok NaN)' if out[1] == 'nan' else ('(Ok PInf)' if out[1] == 'inf' else '(Ok (Fin %s))' % core.cq_Q(out[1]))
        else:
            o = '(Raise %s)' % core.cq_exn(out[1])
        return '(%s,%s,%s,%s)' % (core.cq_list([core.cq_Q(x) for x in c]),
                                  'None' if cz is None else '(Some %s%%Z)' % cz,
                                  core.cq_list([core.cq_Q(x) for x in w]), o)

    def nontrivial(self, case, out):
        return out[0] == 'ok' and out[1] not in ('nan', 'inf') and 0 < out[1] < 1

    def shrink(self, case):
        c, w = case
        for i in range(max(len(c), len(w))):
            yield [c[:i] + c[i + 1:], w[:i] + w[i + 1:]]
        for i in range(len(w)):
            if w[i] not in (0.0, 1.0):
                yield [c, w[:i] + [1.0] + w[i + 1:]]

    def distribution(self, pairs):
        d = {}
        for (c, w), o in pairs:
            if o[0] == 'exc':
                k = 'raise:' + o[1] + (':len' if len(c) != len(w) else ':neg')
            elif o[1] == 'nan':
                k = 'nan'
            elif sum(w) == 0:
                k = 'zero_total_weight'
            elif not any(x >= 0 for x in c):
                k = 'nothing_comparable'
            elif o[1] == 1:
                k = 'score=1'
            elif o[1] == 0:
                k = 'score=0'
            elif o[1] > 1:
                k = 'score>1 (float comparisons)'
            else:
                k = '0<score<1'
            d[k] = d.get(k, 0) + 1
        return d


UNIT = U()
