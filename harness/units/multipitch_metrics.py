"""multipitch.metrics / evaluate / compute_num_true_positives / compute_accuracy / compute_err_score
vs ME.Model.Multipitch.

Four kinds of cases
  metrics   the real `metrics` on Hz input (common and differing time bases).  While it runs, the unit records (by
            wrapping the module's own functions, nothing is re-implemented) whether `resample_multipitch` was called,
            the two per-frame true-positive arrays returned by `compute_num_true_positives`, and the Hz -> MIDI table
            produced by `frequencies_to_midi` (log2 is outside the model: the model is parametrised by that table).
            Compared: exception class | resampled flag, both TP arrays exactly, 14 scores within 1e-9.
  evaluate  the same through `evaluate` (keys, order, values).
  tp        `compute_num_true_positives` directly on MIDI values from the lattice Z/4 (plus nan), pairs exactly
            `window` apart (raw and circular), window in {0, 1/4, 1/2, 1, ...}, chroma flag, unequal frame counts.
  scores    `compute_accuracy` + `compute_err_score` on arbitrary count arrays (also tp > min, all-zero sums).
"""
from fractions import Fraction
from lib import core

A440 = [440.0 * 2.0 ** k for k in range(-4, 4)]          # MIDI 21, 33, ..., 105 exactly
OFFS = [0.0, 0.2, -0.2, 0.45, -0.45, 0.55, -0.55, 0.9, -0.9, 1.2, -1.2, 12.0, -12.0, 12.2, -11.6, 24.0, -24.0, 11.55, -12.45]
WINDOWS = [None, None, None, None, 0.5, 0.3, 0.75, 1.5, 0.0]


def hz(note):
    f = 440.0 * 2.0 ** ((note - 69.0) / 12.0)
    return f


def _midi_safe(case):
    """Reject a generated case if a (ref, est) pair is within 1e-6 of the window (raw or circular distance) while one
    of the float operations the implementation performs on it is inexact (then rounding could decide the comparison)."""
    import numpy as np
    import warnings
    w = Fraction(0.5 if case['window'] is None else case['window'])
    allr = sorted(set(abs(f) for fr in case['ref_freqs'] for f in fr if 20 <= abs(f) <= 5000 and f > 0))
    alle = sorted(set(abs(f) for fr in case['est_freqs'] for f in fr if 20 <= abs(f) <= 5000 and f > 0))
    if not allr or not alle:
        return True
    with warnings.catch_warnings():
        warnings.simplefilter('ignore')
        mr = [float(x) for x in 69.0 + 12.0 * np.log2(np.array(allr) / 440.0)]
        me = [float(x) for x in 69.0 + 12.0 * np.log2(np.array(alle) / 440.0)]
    fw = float(w)
    for e in me:
        E = Fraction(e)
        ex_ops = Fraction(e - fw) == E - w and Fraction(e + fw) == E + w
        em = float(np.mod(e, 12))
        for r in mr:
            R = Fraction(r)
            d = abs(R - E)
            if abs(d - w) < Fraction(1, 10 ** 6) and not ex_ops:
                return False
            rm = float(np.mod(r, 12))
            a = abs(Fraction(rm) - Fraction(em))
            dc = min(a, 12 - a)
            if abs(dc - w) < Fraction(1, 10 ** 6):
                fa = abs(rm - em)
                if Fraction(fa) != a or Fraction(12 - fa) != 12 - a:
                    return False
    return True


def _nanfix(x):
    return None if x != x else float(x)


class U(core.Unit):
    name = 'multipitch_metrics'
    requires = ['ME.Model.Prelude', 'ME.Model.Events', 'ME.Model.Multipitch']
    mirrors = [('mir_eval/multipitch.py', f) for f in
               ('validate', 'resample_multipitch', 'midi_to_chroma', 'compute_num_freqs', 'compute_num_true_positives',
                'compute_accuracy', 'compute_err_score', 'metrics', 'evaluate', 'MAX_TIME', 'MAX_FREQ', 'MIN_FREQ')] + \
              [('mir_eval/util.py', f) for f in ('match_events', '_fast_hit_windows', '_outer_distance_mod_n', '_bipartite_match',
                                                 'validate_events', 'validate_frequencies', 'filter_kwargs')]
    counts = {'quick': 1500, 'thorough': 6000}
    shard = 250
    header = '''
Definition eps : Q := 1 # 1000000000.
Definition lookup (tbl : list (Q * Q)) (f : Q) : Q :=
  match find (fun p => Qeq_bool (fst p) f) tbl with Some p => snd p | None => 0 end.
Inductive tcase :=
| CMetrics (rt : list Q) (rf : list (list Q)) (et : list Q) (ef : list (list Q)) (w : Q) (tbl : list (Q * Q))
           (expected : res (bool * list nat * list nat * list Q))
| CEvaluate (rt : list Q) (rf : list (list Q)) (et : list Q) (ef : list (list Q)) (w : Q) (tbl : list (Q * Q))
           (expected : res (list (str * Q)))
| CTp (w : Q) (chroma : bool) (ref est : list (list (option Q))) (expected : res (list nat))
| CScores (tp nref nest : list Z) (expected : list Q).
Definition check_case (c : tcase) : bool :=
  match c with
  | CMetrics rt rf et ef w tbl expected =>
      match metrics_trace (lookup tbl) w rt rf et ef, expected with
      | Ok t, Ok (rs, tp, tpc, sc) =>
          Bool.eqb (resampled t) rs && list_eqb Nat.eqb (tp_raw t) tp && list_eqb Nat.eqb (tp_chroma t) tpc
          && list_eqb (Qclose eps) (scores_list (raw t) ++ scores_list (chroma t)) sc
          && res_eqb (list_eqb (Qclose eps)) (metrics (lookup tbl) w rt rf et ef) (Ok sc)
      | Raise e, Raise e' => exn_eqb e e'
      | _, _ => false
      end
  | CEvaluate rt rf et ef w tbl expected =>
      res_eqb (list_eqb (fun a b => seqb (fst a) (fst b) && Qclose eps (snd a) (snd b)))
              (evaluate (lookup tbl) w rt rf et ef) expected
  | CTp w chroma ref est expected =>
      res_eqb (list_eqb Nat.eqb) (compute_num_true_positives w chroma ref est) expected
  | CScores tp nref nest expected =>
      let '(p, r, a) := compute_accuracy tp nref nest in
      let '(s, m, f, t) := compute_err_score tp nref nest in
      list_eqb (Qclose eps) [p; r; a; s; m; f; t] expected
  end.
'''

    # ------------------------------------------------------------------ fixed / boundary cases
    def exhaustive(self, tier):
        out = []
        M = lambda rt, rf, et, ef, w=None, kind='metrics': {'kind': kind, 'ref_time': rt, 'ref_freqs': rf, 'est_time': et,
                                                            'est_freqs': ef, 'window': w}
        # empties
        out.append(M([], [], [], []))
        out.append(M([], [], [0.0], [[440.0]]))
        out.append(M([0.0], [[440.0]], [], []))
        out.append(M([0.0], [[]], [0.0], [[]]))
        out.append(M([0.0, 1.0], [[440.0], []], [0.0, 1.0], [[], [440.0]]))
        # validate boundaries: MAX_TIME, ordering, lengths, MIN/MAX_FREQ, negative frequencies (accepted!)
        out.append(M([30000.0], [[440.0]], [0.0], [[440.0]]))
        out.append(M([30000.015625], [[440.0]], [0.0], [[440.0]]))
        out.append(M([0.0], [[440.0]], [30000.015625], [[440.0]]))
        out.append(M([1.0, 0.0], [[440.0], [440.0]], [0.0], [[440.0]]))
        out.append(M([0.0], [[440.0]], [1.0, 0.5], [[440.0], [440.0]]))
        out.append(M([0.0, 0.0], [[440.0], [220.0]], [0.0, 0.0], [[440.0], [440.0]]))
        out.append(M([0.0, 1.0], [[440.0]], [0.0], [[440.0]]))
        out.append(M([0.0], [[440.0]], [0.0], [[440.0], [440.0]]))
        out.append(M([-5.0], [[440.0]], [-5.0], [[440.0]]))
        for f in (19.75, 20.0, 5000.0, 5000.25, -19.75, -20.0, -5000.0, -5000.25):
            out.append(M([0.0], [[f]], [0.0], [[440.0]]))
            out.append(M([0.0], [[440.0]], [0.0], [[440.0, f]]))
        out.append(M([0.0], [[-100.0]], [0.0], [[-200.0]]))
        out.append(M([0.0, 1.0], [[-100.0, 440.0], [440.0]], [0.0, 1.0], [[-200.0, 440.0], [880.0]]))
        out.append(M([0.0], [[-100.0, -100.0, 440.0]], [0.0], [[-300.0, 880.0]]))
        # np.allclose: a late time base shifted by 1/64 s counts as "equal" (no resampling); the same shift early does not
        out.append(M([2000.0, 2000.015625], [[440.0], [880.0]], [2000.015625, 2000.03125], [[880.0], [440.0]]))
        out.append(M([0.0, 0.015625], [[440.0], [880.0]], [0.015625, 0.03125], [[880.0], [440.0]]))
        out.append(M([1600.0, 1600.015625], [[440.0], [880.0]], [1600.015625, 1600.03125], [[880.0], [440.0]]))
        out.append(M([1500.0, 1500.015625], [[440.0], [880.0]], [1500.015625, 1500.03125], [[880.0], [440.0]]))
        # resampling: exact midpoints, out-of-range reference times
        out.append(M([0.0, 0.5, 1.0, 1.5, 2.0, 2.5, 3.0], [[440.0]] * 7, [0.5, 1.5, 2.5], [[440.0], [880.0], [220.0]]))
        out.append(M([0.0, 1.0, 2.0], [[440.0], [880.0], [220.0]], [1.0], [[880.0, 440.0]]))
        out.append(M([0.0, 1.0, 2.0], [[440.0], [880.0], [220.0]], [0.0, 1.0, 2.0, 3.0], [[440.0], [880.0], [220.0], [110.0]]))
        # quarter-tone offsets from exact MIDI integers (A notes): ~0.5 semitone up / down, and octave errors
        for k in (-0.5, 0.5, 0.49, 0.51, 11.5, 12.5, -11.5, 12.0, -12.0):
            out.append(M([0.0], [[440.0]], [0.0], [[440.0 * 2.0 ** (k / 12.0)]]))
            out.append(M([0.0], [[110.0, 440.0]], [0.0], [[440.0 * 2.0 ** (k / 12.0), 110.0 * 2.0 ** (-k / 12.0)]]))
        # window keyword
        for w in (0.0, 0.3, 1.0, 2.0):
            out.append(M([0.0, 1.0], [[440.0, 466.0], [880.0]], [0.0, 1.0], [[466.0, 452.0], [440.0]], w))
        out += [dict(c, kind='evaluate') for c in out[:6] + out[-8:]]
        # tp: exact thresholds on the lattice
        T = lambda ref, est, w, ch: {'kind': 'tp', 'ref': ref, 'est': est, 'window': w, 'chroma': ch}
        for ch in (False, True):
            for w in (0.5, 0.0, 0.25, 1.0, -0.5, 6.0, 6.5):
                out.append(T([[60.0, 61.0]], [[60.5]], w, ch))
                out.append(T([[60.0]], [[60.5], [1.0]], w, ch))
                out.append(T([[60.0], [61.0]], [[59.5]], w, ch))
                out.append(T([[11.75, 0.0]], [[0.25, 11.5]], w, ch))
                out.append(T([[0.0, 6.0]], [[6.5, 11.5, 5.5]], w, ch))
                out.append(T([[-0.25, 23.75, 12.0]], [[0.25, 11.75]], w, ch))
                out.append(T([[None, 69.0]], [[None, 69.0]], w, ch))
                out.append(T([[None, None, 69.0]], [[None, 70.0]], w, ch))
                out.append(T([[60.0, 60.0, 60.0]], [[60.5, 59.5, 60.0, 60.25]], w, ch))
                out.append(T([[]], [[60.0]], w, ch))
                out.append(T([], [], w, ch))
        S = lambda tp, r, e: {'kind': 'scores', 'tp': tp, 'nref': r, 'nest': e}
        out += [S([], [], []), S([0], [0], [0]), S([0], [0], [3]), S([0], [3], [0]), S([1, 2], [1, 3], [2, 2]), S([5], [1], [1]),
                S([0, 0], [2, 0], [0, 2]), S([1, 0, 2], [1, 0, 4], [3, 0, 2])]
        return out

    # ------------------------------------------------------------------ random cases
    def _frame_pair(self, rng, w_is_half):
        """A reference frame and an estimate derived from it (hits, near misses, octave errors, spurious, missing)."""
        n = rng.choice([0, 1, 1, 2, 2, 3, 4])
        ref, est = [], []
        notes = []
        base = rng.randint(30, 95)
        for i in range(n):
            c = rng.random()
            if c < 0.3:
                a = rng.choice(A440)
                notes.append(('A', a))
            elif c < 0.7:
                notes.append(('n', base + rng.choice([0, 0.35, 0.7, 1, 2, 3, 4, 7, 12, 12.35, -12])))
            else:
                notes.append(('f', rng.randint(4 * 30, 4 * 4000) / 4.0))
        for kind, v in notes:
            if kind == 'A':
                ref.append(v)
                c = rng.random()
                if c < 0.25:
                    est.append(v)
                elif c < 0.5 and w_is_half:
                    est.append(v * 2.0 ** (rng.choice([0.5, -0.5, 11.5, 12.5, -11.5, -12.5]) / 12.0))
                elif c < 0.8:
                    est.append(v * 2.0 ** rng.choice([-2, -1, 1, 2]))
                elif c < 0.9:
                    est.append(v * 2.0 ** (rng.choice(OFFS) / 12.0))
            elif kind == 'n':
                if not 17 <= v <= 110:
                    v = 60
                ref.append(hz(v))
                c = rng.random()
                if c < 0.85:
                    o = rng.choice(OFFS)
                    if 17 <= v + o <= 110:
                        est.append(hz(v + o))
                if c > 0.75:
                    o = rng.choice(OFFS)
                    if 17 <= v + o <= 110:
                        est.append(hz(v + o))
            else:
                ref.append(v)
                c = rng.random()
                if c < 0.4:
                    est.append(v)
                elif c < 0.6:
                    est.append(rng.randint(4 * 30, 4 * 4000) / 4.0)
                elif c < 0.8 and v * 2 <= 4990:
                    est.append(v * 2)
        if rng.random() < 0.2:
            est.append(hz(rng.randint(25, 105)))
        est = [f for f in est if 20.5 <= f <= 4990]
        ref = [f for f in ref if 20.5 <= f <= 4990]
        if rng.random() < 0.04 and ref:
            ref.append(-rng.choice([100.0, 250.5, 440.0]))
            if rng.random() < 0.7:
                est.append(-rng.choice([100.0, 300.0]))
        rng.shuffle(est)
        if rng.random() < 0.3:
            rng.shuffle(ref)
        return ref, est

    def _metrics_case(self, rng):
        w = rng.choice(WINDOWS)
        k = rng.choice([1, 2, 3, 4, 5, 6])
        pairs = [self._frame_pair(rng, w in (None, 0.5)) for _ in range(k)]
        ref_freqs = [p[0] for p in pairs]
        est_freqs = [p[1] for p in pairs]
        den = rng.choice([4, 16, 64])
        hop = rng.randint(1, 24)
        start = rng.choice([0, 0, rng.randint(0, 1000), rng.randint(100000, 120000), 30000 * den - hop * (k - 1)])
        ref_time = [Fraction(start + hop * i, den) for i in range(k)]
        c = rng.random()
        if c < 0.4:
            est_time = list(ref_time)
        elif c < 0.5:       # tiny shift: 1/64 s -- "allclose" late, not close early
            est_time = [t + Fraction(1, 64) for t in ref_time]
        elif c < 0.62:      # half-hop shift: every reference time is an exact midpoint of the estimate's time base
            est_time = [t + Fraction(hop, 2 * den) for t in ref_time]
        elif c < 0.7:
            est_time = [t - Fraction(hop, 2 * den) for t in ref_time]
        elif c < 0.8:       # estimate covers only a part of the reference's range, twice as dense
            i0 = rng.randint(0, k - 1)
            m = rng.randint(1, 5)
            est_time = [ref_time[i0] + Fraction(hop * j, 2 * den) for j in range(m)]
            est_freqs = [self._frame_pair(rng, False)[1] if rng.random() < 0.3 else est_freqs[min(k - 1, i0 + j // 2)] for j in range(m)]
        elif c < 0.9:       # different length, irregular
            m = rng.randint(0, 6)
            cur = start + rng.randint(-2 * hop, 2 * hop)
            est_time = []
            for j in range(m):
                est_time.append(Fraction(cur, den))
                cur += rng.choice([0, hop, hop, 2 * hop, rng.randint(1, 30)])
            est_freqs = [est_freqs[j % k] for j in range(m)]
        else:               # same length, one time stamp moved
            est_time = list(ref_time)
            j = rng.randrange(k)
            est_time[j] = est_time[j] + Fraction(rng.choice([1, -1, 3]), 64)
        # a small malformed stream
        r = rng.random()
        if r < 0.02:
            est_freqs = est_freqs[:-1]
        elif r < 0.04:
            ref_freqs = ref_freqs + [[440.0]]
        elif r < 0.06 and ref_freqs:
            ref_freqs[rng.randrange(len(ref_freqs))].append(rng.choice([19.75, 5000.25, 0.0, 10.0, 6000.0]))
        elif r < 0.07 and len(ref_time) >= 2:
            ref_time[0], ref_time[-1] = ref_time[-1], ref_time[0]
        elif r < 0.08:
            est_time = [t + 30000 for t in est_time]
        elif r < 0.10:
            ref_time, ref_freqs = [], []
        elif r < 0.12:
            est_time, est_freqs = [], []
        return {'kind': 'evaluate' if rng.random() < 0.1 else 'metrics',
                'ref_time': [float(t) for t in ref_time], 'ref_freqs': ref_freqs,
                'est_time': [float(t) for t in est_time], 'est_freqs': est_freqs, 'window': w}

    def _tp_case(self, rng):
        w = rng.choice([0.5, 0.5, 0.5, 0.25, 1.0, 0.0, 0.75, 2.0, 6.0])
        ch = rng.random() < 0.5
        k = rng.randint(0, 4)
        ref, est = [], []
        for _ in range(k):
            n = rng.choice([0, 1, 2, 3, 4, 5])
            base = rng.randint(-8, 400) / 4.0
            r = [base + rng.randint(0, 8) / 4.0 + rng.choice([0, 0, 0, 12, 24]) for _i in range(n)]
            e = []
            for x in r:
                c = rng.random()
                if c < 0.3:
                    e.append(x + rng.choice([-1, 1]) * w)                  # exactly on the threshold
                elif c < 0.45:
                    e.append(x + rng.choice([-1, 1]) * (w + 0.25))          # one lattice step outside
                elif c < 0.6:
                    e.append(x + rng.choice([12, -12, 24]) + rng.choice([-1, 0, 1]) * w)
                elif c < 0.8:
                    e.append(x + rng.randint(-6, 6) / 4.0)
                if rng.random() < 0.15:
                    e.append(base + rng.randint(-4, 12) / 4.0)
            if rng.random() < 0.1:
                r.append(None)
            if rng.random() < 0.1:
                e.append(None)
            if ch and rng.random() < 0.6:                                  # as metrics() calls it: wrapped to [0, 12)
                r = [None if x is None else x % 12.0 for x in r]
                e = [None if x is None else x % 12.0 for x in e]
            rng.shuffle(e)
            rng.shuffle(r)
            ref.append(r)
            est.append(e)
        c = rng.random()
        if c < 0.07 and est:
            est = est[:-1]
        elif c < 0.14:
            est = est + [[60.0]]
        return {'kind': 'tp', 'ref': ref, 'est': est, 'window': w, 'chroma': ch}

    def _scores_case(self, rng):
        k = rng.randint(0, 6)
        r = [rng.choice([0, 0, 1, 2, 3, 5]) for _ in range(k)]
        e = [rng.choice([0, 0, 1, 2, 3, 5]) for _ in range(k)]
        if rng.random() < 0.8:
            tp = [rng.randint(0, min(a, b)) for a, b in zip(r, e)]
        else:
            tp = [rng.randint(0, 6) for _ in range(k)]
        if rng.random() < 0.1:
            r = [0] * k
        if rng.random() < 0.1:
            e = [0] * k
        return {'kind': 'scores', 'tp': tp, 'nref': r, 'nest': e}

    def gen(self, rng, n):
        cases = []
        while len(cases) < n:
            c = rng.random()
            if c < 0.6:
                case = self._metrics_case(rng)
                if not _midi_safe(case):
                    continue
                cases.append(case)
            elif c < 0.9:
                cases.append(self._tp_case(rng))
            else:
                cases.append(self._scores_case(rng))
        return cases

    # ------------------------------------------------------------------ running the implementation
    def run(self, case):
        import numpy as np
        from mir_eval import multipitch as mp
        F = lambda l: np.array(l, dtype=float)
        if case['kind'] == 'tp':
            conv = lambda fr: [F([np.nan if x is None else x for x in f]) for f in fr]
            tag, val = core.call_impl(mp.compute_num_true_positives, conv(case['ref']), conv(case['est']),
                                      window=case['window'], chroma=case['chroma'])
            return ['ok', [int(x) for x in val]] if tag == 'ok' else ['exc', val]
        if case['kind'] == 'scores':
            tp = F(case['tp'])
            nr = np.array(case['nref'], dtype=int)
            ne = np.array(case['nest'], dtype=int)
            t1, a = core.call_impl(mp.compute_accuracy, tp, nr, ne)
            t2, b = core.call_impl(mp.compute_err_score, tp, nr, ne)
            assert t1 == 'ok' and t2 == 'ok', (case, a, b)
            return ['ok', [float(x) for x in a] + [float(x) for x in b]]
        # metrics / evaluate, observed through wrappers of the module's own functions
        rec = {'resampled': False, 'tp': [], 'table': {}}
        o_tp, o_rs, o_f2m = mp.compute_num_true_positives, mp.resample_multipitch, mp.frequencies_to_midi

        def compute_num_true_positives(ref_freqs, est_freqs, window=0.5, chroma=False):
            r = o_tp(ref_freqs, est_freqs, window=window, chroma=chroma)
            rec['tp'].append((bool(chroma), [int(x) for x in r]))
            return r

        def resample_multipitch(times, frequencies, target_times):
            rec['resampled'] = True
            return o_rs(times, frequencies, target_times)

        def frequencies_to_midi(frequencies, ref_frequency=440.0):
            out = o_f2m(frequencies, ref_frequency)
            for fi, mo in zip(frequencies, out):
                for f, m in zip(list(fi), list(mo)):
                    f, m = float(f), float(m)
                    if m == m:
                        assert rec['table'].get(f, m) == m, 'log2 not a function of the value?'
                        rec['table'][f] = m
            return out

        kw = {} if case['window'] is None else {'window': case['window']}
        fn = mp.evaluate if case['kind'] == 'evaluate' else mp.metrics
        mp.compute_num_true_positives, mp.resample_multipitch, mp.frequencies_to_midi = \
            compute_num_true_positives, resample_multipitch, frequencies_to_midi
        try:
            tag, val = core.call_impl(fn, F(case['ref_time']), [F(f) for f in case['ref_freqs']], F(case['est_time']),
                                      [F(f) for f in case['est_freqs']], **kw)
        finally:
            mp.compute_num_true_positives, mp.resample_multipitch, mp.frequencies_to_midi = o_tp, o_rs, o_f2m
        if tag != 'ok':
            return ['exc', val]
        table = sorted(rec['table'].items())
        if case['kind'] == 'evaluate':
            return ['ok', {'items': [[k, float(v)] for k, v in val.items()], 'table': table}]
        tps = dict(rec['tp'])
        assert len(rec['tp']) == 2 and set(tps) == {False, True}
        return ['ok', {'scores': [float(x) for x in val], 'tp': tps[False], 'tpc': tps[True],
                       'resampled': rec['resampled'], 'table': table}]

    # ------------------------------------------------------------------ Coq terms
    def emit(self, case, out):
        Q = core.cq_Q
        ql = lambda l: core.cq_list([Q(x) for x in l])
        qll = lambda ll: core.cq_list([ql(l) for l in ll])
        nl = lambda l: '(' + core.cq_list([core.cq_nat(x) for x in l]) + ')%nat'
        if case['kind'] == 'tp':
            ol = lambda ll: core.cq_list([core.cq_list([core.cq_opt(x, Q) for x in l]) for l in ll])
            return '(CTp %s %s %s %s %s)' % (Q(case['window']), core.cq_bool(case['chroma']), ol(case['ref']), ol(case['est']),
                                            core.cq_res(out, nl))
        if case['kind'] == 'scores':
            zl = lambda l: '(' + core.cq_list([core.cq_Z(x) for x in l]) + ')%Z'
            return '(CScores %s %s %s %s)' % (zl(case['tp']), zl(case['nref']), zl(case['nest']), ql(out[1]))
        w = Q(0.5 if case['window'] is None else case['window'])
        tbl = core.cq_list(['(%s,%s)' % (Q(f), Q(m)) for f, m in out[1]['table']]) if out[0] == 'ok' else '[]'
        args = '%s %s %s %s %s %s' % (ql(case['ref_time']), qll(case['ref_freqs']), ql(case['est_time']), qll(case['est_freqs']), w, tbl)
        if case['kind'] == 'evaluate':
            exp = core.cq_res(out, lambda v: core.cq_list(['(%s,%s)' % (core.cq_str(k), Q(x)) for k, x in v['items']]))
            return '(CEvaluate %s %s)' % (args, exp)
        exp = core.cq_res(out, lambda v: '(%s,%s,%s,%s)' % (core.cq_bool(v['resampled']), nl(v['tp']), nl(v['tpc']), ql(v['scores'])))
        return '(CMetrics %s %s)' % (args, exp)

    def nontrivial(self, case, out):
        if out[0] != 'ok':
            return False
        if case['kind'] == 'tp':
            return sum(out[1]) >= 1
        if case['kind'] == 'scores':
            return sum(case['nref']) > 0
        if case['kind'] == 'evaluate':
            return True
        return sum(out[1]['tpc']) >= 1

    def shrink(self, case):
        if case['kind'] == 'tp':
            for key in ('ref', 'est'):
                for i in range(len(case[key])):
                    yield dict(case, **{key: case[key][:i] + case[key][i + 1:]})
                    for j in range(len(case[key][i])):
                        fr = case[key][i]
                        yield dict(case, **{key: case[key][:i] + [fr[:j] + fr[j + 1:]] + case[key][i + 1:]})
            return
        if case['kind'] == 'scores':
            for i in range(len(case['tp'])):
                yield {'kind': 'scores', 'tp': case['tp'][:i] + case['tp'][i + 1:], 'nref': case['nref'][:i] + case['nref'][i + 1:],
                       'nest': case['nest'][:i] + case['nest'][i + 1:]}
            return
        for side in ('ref', 'est'):
            tk, fk = side + '_time', side + '_freqs'
            if len(case[tk]) == len(case[fk]):
                for i in range(len(case[tk])):
                    yield dict(case, **{tk: case[tk][:i] + case[tk][i + 1:], fk: case[fk][:i] + case[fk][i + 1:]})
            for i in range(len(case[fk])):
                for j in range(len(case[fk][i])):
                    fr = case[fk][i]
                    yield dict(case, **{fk: case[fk][:i] + [fr[:j] + fr[j + 1:]] + case[fk][i + 1:]})

    def distribution(self, pairs):
        d = {}

        def inc(k):
            d[k] = d.get(k, 0) + 1
        for c, o in pairs:
            inc('kind=' + c['kind'])
            if o[0] != 'ok':
                inc(c['kind'] + ':exc=' + o[1])
                continue
            if c['kind'] == 'metrics':
                v = o[1]
                inc('metrics:resampled' if v['resampled'] else 'metrics:common_time_base')
                if not v['resampled'] and c['ref_time'] != c['est_time']:
                    inc('metrics:allclose_but_not_equal')
                if v['tp'] != v['tpc']:
                    inc('metrics:chroma_tp>raw_tp' if sum(v['tpc']) > sum(v['tp']) else 'metrics:chroma_tp<raw_tp(nan)')
                if any(f < 0 for fr in c['ref_freqs'] + c['est_freqs'] for f in fr):
                    inc('metrics:negative_freq_accepted')
                if c['window'] is not None:
                    inc('metrics:window_kw')
                if sum(len(f) for f in c['ref_freqs']) == 0:
                    inc('metrics:ref_all_empty')
                if v['scores'][0] == 0 and sum(v['tp']) == 0:
                    inc('metrics:no_raw_tp')
                inc('metrics:frames<=%d' % (2 * ((len(c['ref_time']) + 1) // 2)))
            elif c['kind'] == 'tp':
                inc('tp:chroma' if c['chroma'] else 'tp:raw')
                if any(x is None for fr in c['ref'] + c['est'] for x in fr):
                    inc('tp:nan')
                if len(c['ref']) != len(c['est']):
                    inc('tp:unequal_frame_counts')
                w = c['window']
                on = False
                for r, e in zip(c['ref'], c['est']):
                    for x in r:
                        for y in e:
                            if x is None or y is None:
                                continue
                            dd = abs(x - y)
                            if c['chroma']:
                                dd = abs(x % 12.0 - y % 12.0)
                                dd = min(dd, 12 - dd)
                            on = on or dd == w
                if on:
                    inc('tp:pair_exactly_on_window')
            elif c['kind'] == 'scores':
                if sum(c['nref']) == 0:
                    inc('scores:nref_sum=0')
                if sum(c['nest']) == 0:
                    inc('scores:nest_sum=0')
                if any(t > min(a, b) for t, a, b in zip(c['tp'], c['nref'], c['nest'])):
                    inc('scores:tp>min')
        return d


UNIT = U()
