"""util.interpolate_intervals / util.intervals_to_samples vs ME.Model.Intervals.

* kind 'interp'  : interpolate_intervals on an explicit time grid (lattice 1/4 ... 1/64, more than 40 % of the grid
                   points copied from interval boundaries, repeated points, decreasing grids, empty grids, label lists
                   shorter/longer than the interval array).  Labels compared exactly, exception class exactly.
* kind 'samples' : intervals_to_samples with a dyadic sample_size and lattice offset: the float32 grid of the
                   implementation is exact there, so the WHOLE result (times and labels) is compared with the model's
                   own grid  k * sample_size + offset, k < floor(max / sample_size).  Includes sample_size = 0 (ValueError
                   for 0/0, OverflowError otherwise), negative sizes and the empty array.
* kind 'samples_grid' : intervals_to_samples with a non-dyadic sample_size (0.1, 0.05, 0.3): the grid (float32 values)
                   is taken from the implementation and given to the model as an input; labels compared exactly."""
from lib import core


def q(x):
    return core.cq_Q(x)


def gen_intervals(rng, den):
    n = rng.choice([0, 1, 1, 2, 2, 3, 3, 4, 5])
    if n == 0:
        return []
    hi = 8 * den
    if rng.random() < 0.5:
        b = sorted(rng.sample(range(0, hi), n + 1))
        return [[b[i] / den, b[i + 1] / den] for i in range(n)]
    pts = sorted(rng.sample(range(0, hi), 2 * n))
    ivs = [[pts[2 * i] / den, pts[2 * i + 1] / den] for i in range(n)]
    for i in range(n - 1):
        if rng.random() < 0.3:
            ivs[i][1] = ivs[i + 1][0]
    return ivs


class U(core.Unit):
    name = 'interpolate_intervals'
    requires = ['ME.Model.Prelude', 'ME.Model.Intervals']
    mirrors = [('mir_eval/util.py', 'interpolate_intervals'), ('mir_eval/util.py', 'intervals_to_samples')]
    counts = {'quick': 1800, 'thorough': 18000}
    shard = 300
    header = '''
Open Scope Q_scope.
Inductive case :=
| CP (ivs : list (Q * Q)) (labs : list nat) (ts : list Q) (out : res (list nat))
| CS (ivs : list (Q * Q)) (labs : list nat) (offset size : Q) (out : res (list Q * list nat))
| CG (ivs : list (Q * Q)) (labs : list nat) (grid : list Q) (out : res (list nat)).
Definition check_case (c : case) : bool :=
  match c with
  | CP i l ts o => res_eqb (list_eqb Nat.eqb) (interpolate_intervals i l ts 0%nat) o
  | CS i l off sz o => res_eqb (pair_eqb (list_eqb Qeqb) (list_eqb Nat.eqb)) (intervals_to_samples i l off sz 0%nat) o
  | CG i l g o => res_eqb (list_eqb Nat.eqb) (x <- intervals_to_samples_on g i l 0%nat ;; Ok (snd x)) o
  end.
'''

    def exhaustive(self, tier):
        out = []
        grids = [[], [0.0], [1.0], [0.0, 0.5, 1.0, 1.5, 2.0, 2.5, 3.0, 3.5], [1.0, 1.0, 2.0, 2.0], [2.0, 1.0], [0.0, 1.0, 0.5],
                 [0.5, 1.5, 2.5]]
        for ivs in ([], [[0.0, 1.0]], [[0.0, 1.0], [1.0, 2.0]], [[0.0, 1.0], [2.0, 3.0]], [[1.0, 0.0]], [[1.0, 1.0]],
                    [[0.0, 2.0], [1.0, 3.0]], [[1.0, 2.0], [0.0, 1.0]]):
            for g in grids:
                for d in (0, -1, 1):
                    out.append({'k': 'interp', 'x': ivs, 'nl': max(0, len(ivs) + d), 'ts': g})
            for sz in (0.5, 0.25, 1.0, 0.0, -0.5):
                for off in (0.0, 0.125, -0.25):
                    out.append({'k': 'samples', 'x': ivs, 'nl': len(ivs), 'off': off, 'sz': sz})
        out.append({'k': 'samples', 'x': [[0.0, 0.0]], 'nl': 1, 'off': 0.0, 'sz': 0.0})
        out.append({'k': 'samples', 'x': [[-2.0, -1.0]], 'nl': 1, 'off': 0.0, 'sz': -0.25})
        out.append({'k': 'samples', 'x': [[-2.0, -1.0]], 'nl': 1, 'off': 0.0, 'sz': 0.0})
        return out

    def gen(self, rng, n):
        cases = []
        for t in range(n):
            den = rng.choice([4, 8, 16, 32, 64])
            ivs = gen_intervals(rng, den)
            r = rng.random()
            if r < 0.08 and ivs:
                rng.shuffle(ivs)
            elif r < 0.12 and ivs:
                i = rng.randrange(len(ivs))
                ivs[i][1] = ivs[i][1] + rng.randrange(1, 3 * den) / den
            nl = len(ivs)
            if rng.random() < 0.08:
                nl = max(0, nl + rng.choice([-1, 1]))
            kind = rng.random()
            pool = [v for r_ in ivs for v in r_]
            if kind < 0.6:
                m = rng.choice([0, 1, 2, 3, 5, 8, 12])
                ts = []
                for _ in range(m):
                    if pool and rng.random() < 0.55:
                        ts.append(rng.choice(pool))
                    else:
                        ts.append(rng.randrange(-den, 9 * den) / den)
                if rng.random() < 0.9:
                    ts.sort()
                cases.append({'k': 'interp', 'x': ivs, 'nl': nl, 'ts': ts})
            elif kind < 0.82:
                sz = rng.choice([0.5, 0.25, 0.125, 1.0, 0.0625, 2.0, 0.0, -0.5])
                off = rng.choice([0.0, 0.0, 1 / den, -1 / den, sz / 2, 0.5])
                cases.append({'k': 'samples', 'x': ivs, 'nl': nl, 'off': off, 'sz': sz})
            else:
                sz = rng.choice([0.1, 0.1, 0.05, 0.3, 0.7])
                off = rng.choice([0.0, 0.0, 0.05, 1 / den])
                cases.append({'k': 'samples_grid', 'x': ivs, 'nl': nl, 'off': off, 'sz': sz})
        return cases

    def run(self, case):
        import numpy as np
        from mir_eval import util
        x = np.array(case['x'], dtype=float).reshape(-1, 2)
        labs = list(range(1, case['nl'] + 1))
        if case['k'] == 'interp':
            tag, val = core.call_impl(util.interpolate_intervals, x, labs, list(case['ts']), 0)
            return ['ok', [int(v) for v in val]] if tag == 'ok' else ['exc', val]
        tag, val = core.call_impl(util.intervals_to_samples, x, labs, case['off'], case['sz'], 0)
        if tag == 'exc':
            return ['exc', val]
        return ['ok', [float(v) for v in val[0]], [int(v) for v in val[1]]]

    def emit(self, case, out):
        ivs = core.cq_list(['(%s,%s)' % (q(u), q(v)) for u, v in case['x']])
        labs = core.cq_list([str(v) for v in range(1, case['nl'] + 1)]) + '%nat'

        def nl(l):
            return core.cq_list([str(v) for v in l]) + '%nat'
        if case['k'] == 'interp':
            o = '(Ok %s)' % nl(out[1]) if out[0] == 'ok' else '(Raise %s)' % core.cq_exn(out[1])
            return '(CP %s %s %s %s)' % (ivs, labs, core.cq_list([q(v) for v in case['ts']]), o)
        if case['k'] == 'samples' or out[0] == 'exc':
            o = '(Ok (%s,%s))' % (core.cq_list([q(v) for v in out[1]]), nl(out[2])) if out[0] == 'ok' \
                else '(Raise %s)' % core.cq_exn(out[1])
            return '(CS %s %s %s %s %s)' % (ivs, labs, q(case['off']), q(case['sz']), o)
        return '(CG %s %s %s (Ok %s))' % (ivs, labs, core.cq_list([q(v) for v in out[1]]), nl(out[2]))

    def nontrivial(self, case, out):
        return out[0] == 'ok' and len(set(out[-1])) >= 2

    def shrink(self, case):
        x = case['x']
        for i in range(len(x)):
            c = dict(case)
            c['x'] = x[:i] + x[i + 1:]
            c['nl'] = max(0, case['nl'] - 1)
            yield c
        if case['k'] == 'interp':
            ts = case['ts']
            for i in range(len(ts)):
                c = dict(case)
                c['ts'] = ts[:i] + ts[i + 1:]
                yield c

    def distribution(self, pairs):
        d = {}

        def inc(k):
            d[k] = d.get(k, 0) + 1
        for c, o in pairs:
            inc('kind=' + c['k'])
            if o[0] == 'exc':
                inc('raises ' + o[1])
                continue
            if c['k'] == 'interp':
                pool = set(v for r in c['x'] for v in r)
                if any(t in pool for t in c['ts']):
                    inc('interp: grid point on a boundary')
                if len(set(c['ts'])) < len(c['ts']):
                    inc('interp: repeated grid point')
                if 0 in o[1]:
                    inc('interp: fill value used')
            else:
                m = len(o[1])
                inc('samples: n=0' if m == 0 else 'samples: n<=8' if m <= 8 else 'samples: n<=32' if m <= 32 else 'samples: n>32')
            if c['nl'] != len(c['x']):
                inc('label length mismatch')
        return d


UNIT = U()
