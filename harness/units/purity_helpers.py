"""C15, layer 2: the heap models of the anchored helpers (ME.Model.HeapPrograms over ME.Model.Heap) vs the running code.

For every generated call all arguments are deep-snapshotted, the REAL function is called, and what the caller sees
afterwards is recorded per argument (content after the call, hence changed / unchanged), together with raised / returned
and the returned contents.  Coq builds the same caller heap (`place`), runs the heap model of the helper (`invoke`) and
must predict exactly the same final content of every argument, the same raised / returned, and (adjust_intervals,
adjust_events, freq_to_voicing) the same returned arrays and label lists.  On the current code every argument must be
unchanged: a reverted fix makes the `cur` cases disagree.

The same is done for the code BEFORE the fixes (`ver = old`): the source of the function is taken from /repo, the copy
statement introduced by the fix (`labels = list(labels)` / `voicing = np.array(voicing, dtype=float)`) is deleted, and
the result is executed; Coq runs the `*_old` models.  This is what ties the `*_refuted` theorems of
Proofs/HeapHelpers.v to a behaviour that really occurs.

Numbers are on exact lattices (multiples of 1/4 .. 1/64); labels are short strings."""
import re
from lib import core
from harness.units.adjust_intervals import gen_intervals, malform, pick_bound

LABELS = ['A', 'B', 'c', 'verse', 'N', '']
FREQS = [0.0, 0.0, 110.0, 220.0, 440.0, -220.0]
VOICE = [0.0, 0.25, 0.5, 1.0, 1.0]

_variants = {}


def _old(modname, fname):
    """the function with the copy statement of the fix deleted (executed in a copy of its module's namespace)"""
    key = (modname, fname)
    if key in _variants:
        return _variants[key]
    import importlib
    import inspect
    mod = importlib.import_module('mir_eval.' + modname)
    ns = dict(mod.__dict__)
    removed = 0
    if modname == 'util':
        src = inspect.getsource(getattr(mod, fname))
        src, removed = re.subn(r'^[ \t]*if labels is not None:\n[ \t]*labels = list\(labels\)\n', '', src, count=1, flags=re.M)
        exec(compile(src, '<old %s>' % fname, 'exec'), ns)
    else:
        src = inspect.getsource(mod.freq_to_voicing)
        src, removed = re.subn(r'^[ \t]*voicing = np\.array\(voicing, dtype=float\)\n', '', src, count=1, flags=re.M)
        exec(compile(src, '<old freq_to_voicing>', 'exec'), ns)
        if fname == 'to_cent_voicing':
            exec(compile(inspect.getsource(mod.to_cent_voicing), '<old to_cent_voicing>', 'exec'), ns)
    _variants[key] = (ns[fname], removed)
    return _variants[key]


def _arr(x):
    import numpy as np
    return None if x is None else np.array(x, dtype=float)


def q(x):
    return core.cq_Q(x)


def a_arr(x):
    return '(AArr %s)' % core.cq_list([q(float(v)) for v in x])


def a_strs(x):
    return '(AStrs %s)' % core.cq_list([core.cq_str(s) for s in x])


def a_num(x):
    return 'ANone' if x is None else '(ANum %s)' % q(x)


def a_str(s):
    return '(AStr %s)' % core.cq_str(s)


def a_any(x):
    """recorded content -> Coq `arg` (None, float, str, list of floats (array), list of str (label list))"""
    if x is None:
        return 'ANone'
    if isinstance(x, (int, float)):
        return a_num(x)
    if isinstance(x, str):
        return a_str(x)
    if isinstance(x, dict):
        return a_arr(x['arr']) if 'arr' in x else a_strs(x['strs'])
    raise ValueError(x)


def content(x):
    """deep, JSON-able content of an argument / returned value"""
    import numpy as np
    if x is None or isinstance(x, str):
        return x
    if isinstance(x, np.ndarray):
        return {'arr': [float(v) for v in np.asarray(x, dtype=float).ravel()]}
    if isinstance(x, (list, tuple)):
        return {'strs': [str(v) for v in x]}
    return float(x)


class U(core.Unit):
    name = 'purity_helpers'
    requires = ['ME.Model.Prelude', 'ME.Model.Heap', 'ME.Model.HeapPrograms']
    mirrors = [('mir_eval/util.py', 'adjust_intervals'), ('mir_eval/util.py', 'adjust_events'),
               ('mir_eval/melody.py', 'freq_to_voicing'), ('mir_eval/melody.py', 'to_cent_voicing')]
    counts = {'quick': 1600, 'thorough': 16000}
    shard = 200
    header = '''
Open Scope Q_scope.
Inductive fn := FAI | FAE | FFTV | FTCV.
(* (function, old?, arguments, arguments after the call, raised?, returned contents) *)
Definition case := (fn * bool * list arg * list arg * bool * list arg)%type.
Definition args_agree (obs : option (list (option arg) * option (list (option arg)))) (after : list arg) : bool :=
  match obs with
  | Some (aft, _) => (List.length aft =? List.length after)%nat && forallb (fun p => oarg_eqb (fst p) (snd p)) (combine aft after)
  | None => false
  end.
Definition check_case (c : case) : bool :=
  let '(f, old, args, after, raised, rets) := c in
  let P := if old then helpers_prog_old else helpers_prog in
  match f with
  | FAI => agrees true (observe P (if old then adjust_intervals_old_def else adjust_intervals_def) args) after raised rets
  | FAE => agrees true (observe P (if old then adjust_events_old_def else adjust_events_def) args) after raised rets
  | FFTV => agrees true (observe P (if old then freq_to_voicing_old_def else freq_to_voicing_def) args) after raised rets
  | FTCV => args_agree (observe P to_cent_voicing_def args) after     (* numeric contents of the resampling are abstracted *)
  end.
'''

    # ---------------------------------------------------------------------------------------
    def exhaustive(self, tier):
        out = []
        for ver in ('cur', 'old'):
            for ivs in ([[1.0, 2.0], [2.0, 3.0]], [[1.0, 2.0], [3.0, 4.0]], [[1.0, 2.0]], []):
                pts = [None, 0.0, 1.0, 1.5, 2.0, 3.0, 4.0, 5.0]
                for a in pts:
                    for b in pts:
                        for labs in (['A', 'B'][:len(ivs)], None):
                            out.append({'fn': 'ai', 'ver': ver, 'x': ivs, 'labs': labs, 'a': a, 'b': b})
            for ev in ([1.0, 2.0, 3.0], [2.0], []):
                pts = [None, 0.0, 1.0, 2.0, 2.5, 3.0, 4.0]
                for a in pts:
                    for b in pts:
                        for labs in (['A', 'B', 'c'][:len(ev)], None):
                            out.append({'fn': 'ae', 'ver': ver, 'x': ev, 'labs': labs, 'a': a, 'b': b})
            for f in ([0.0, 220.0, 0.0], [220.0, 440.0], [0.0], [], [-220.0, 0.0]):
                for v in (None, [1.0] * len(f), [0.5] * len(f), [1.0, 1.0], []):
                    out.append({'fn': 'ftv', 'ver': ver, 'f': f, 'v': v})
            for t0 in (0.0, 0.25):
                for ev in (None, [1.0, 1.0, 0.5, 1.0]):
                    for rr in (None, [1.0, 0.5, 1.0, 1.0]):
                        for hop in (None, 0.25):
                            t = [t0 + 0.25 * i for i in range(4)]
                            out.append({'fn': 'tcv', 'ver': ver, 'rt': t, 'rf': [0.0, 220.0, 0.0, 440.0], 'et': t,
                                        'ef': [220.0, 0.0, 0.0, 440.0], 'ev': ev, 'rr': rr, 'hop': hop})
        return out

    def gen(self, rng, n):
        cases = []
        for _ in range(n):
            ver = 'cur' if rng.random() < 0.6 else 'old'
            den = rng.choice([4, 8, 16, 64])
            r = rng.random()
            if r < 0.35:
                ivs = gen_intervals(rng, den)
                if rng.random() < 0.1:
                    ivs = malform(rng, ivs, den)
                pool = [x for v in ivs for x in v]
                a, b = pick_bound(rng, pool, den), pick_bound(rng, pool, den)
                if a is not None and b is not None and a > b and rng.random() < 0.85:
                    a, b = b, a
                labs = [rng.choice(LABELS) for _ in ivs] if rng.random() < 0.8 else None
                cases.append({'fn': 'ai', 'ver': ver, 'x': ivs, 'labs': labs, 'a': a, 'b': b})
            elif r < 0.6:
                k = rng.choice([0, 1, 2, 3, 4, 6])
                ev = [e / den for e in sorted(rng.sample(range(0, 10 * den), k))]
                a, b = pick_bound(rng, ev, den), pick_bound(rng, ev, den)
                if a is not None and b is not None and a > b and rng.random() < 0.85:
                    a, b = b, a
                labs = [rng.choice(LABELS) for _ in ev] if rng.random() < 0.8 else None
                cases.append({'fn': 'ae', 'ver': ver, 'x': ev, 'labs': labs, 'a': a, 'b': b})
            elif r < 0.8:
                k = rng.choice([0, 1, 2, 3, 5, 8])
                f = [rng.choice(FREQS) for _ in range(k)]
                v = None
                if rng.random() < 0.8:
                    kv = k if rng.random() < 0.9 else rng.choice([0, 1, k + 1])
                    v = [rng.choice(VOICE) for _ in range(kv)]
                cases.append({'fn': 'ftv', 'ver': ver, 'f': f, 'v': v})
            else:
                def series():
                    k = rng.choice([1, 2, 3, 5, 8])
                    t0 = rng.choice([0.0, 0.0, 0.125, 0.5])
                    t = [t0 + 0.125 * i for i in range(k)]
                    return t, [rng.choice(FREQS) for _ in range(k)]
                rt, rf = series()
                if rng.random() < 0.5:
                    et, ef = list(rt), [rng.choice(FREQS) for _ in rt]
                else:
                    et, ef = series()
                ev = [rng.choice(VOICE) for _ in ef] if rng.random() < 0.7 else None
                rr = [rng.choice(VOICE) for _ in rf] if rng.random() < 0.5 else None
                if rng.random() < 0.05 and ev:
                    ev = ev[:-1]                       # malformed: boolean index mismatch inside freq_to_voicing
                hop = rng.choice([None, None, 0.125, 0.25])
                cases.append({'fn': 'tcv', 'ver': ver, 'rt': rt, 'rf': rf, 'et': et, 'ef': ef, 'ev': ev, 'rr': rr, 'hop': hop})
        return cases

    # ---------------------------------------------------------------------------------------
    def build(self, case):
        """(function, positional arguments) of the real call"""
        import numpy as np
        from mir_eval import util, melody
        fn, old = case['fn'], case['ver'] == 'old'
        if fn == 'ai':
            f = _old('util', 'adjust_intervals')[0] if old else util.adjust_intervals
            labs = None if case['labs'] is None else list(case['labs'])
            return f, [np.array(case['x'], dtype=float).reshape(-1, 2), labs, case['a'], case['b'], '__T_MIN', '__T_MAX']
        if fn == 'ae':
            f = _old('util', 'adjust_events')[0] if old else util.adjust_events
            labs = None if case['labs'] is None else list(case['labs'])
            return f, [np.array(case['x'], dtype=float), labs, case['a'], case['b'], '__']
        if fn == 'ftv':
            f = _old('melody', 'freq_to_voicing')[0] if old else melody.freq_to_voicing
            return f, [_arr(case['f']), _arr(case['v'])]
        f = _old('melody', 'to_cent_voicing')[0] if old else melody.to_cent_voicing
        return f, [_arr(case['rt']), _arr(case['rf']), _arr(case['et']), _arr(case['ef']), _arr(case['ev']), _arr(case['rr']),
                   10.0, case['hop'], 'linear']

    def run(self, case):
        f, args = self.build(case)
        before = [content(a) for a in args]
        tag, val = core.call_impl(f, *args)
        after = [content(a) for a in args]
        changed = [b != a for b, a in zip(before, after)]
        rets = []
        if tag == 'ok' and case['fn'] != 'tcv':
            rets = [content(v) for v in val]
        return {'before': before, 'after': after, 'changed': changed, 'raised': tag == 'exc', 'exc': val if tag == 'exc' else None,
                'rets': rets}

    def emit(self, case, out):
        fn = {'ai': 'FAI', 'ae': 'FAE', 'ftv': 'FFTV', 'tcv': 'FTCV'}[case['fn']]
        return '(%s, %s, %s, %s, %s, %s)' % (
            fn, core.cq_bool(case['ver'] == 'old'), core.cq_list([a_any(x) for x in out['before']]),
            core.cq_list([a_any(x) for x in out['after']]), core.cq_bool(out['raised']), core.cq_list([a_any(x) for x in out['rets']]))

    def nontrivial(self, case, out):
        if case['fn'] in ('ai', 'ae'):
            return case['labs'] is not None and not out['raised'] and (case['a'] is not None or case['b'] is not None)
        if case['fn'] == 'ftv':
            return case['v'] is not None and 0.0 in case['f']
        return case['ev'] is not None or case['rr'] is not None

    def describe(self, case, out):
        return {'case': case, 'changed': out['changed'], 'raised': out['exc'], 'after': out['after']}

    def shrink(self, case):
        for k in ('x', 'labs', 'f', 'v', 'ev', 'rr'):
            v = case.get(k)
            if isinstance(v, list):
                for i in range(len(v)):
                    c = dict(case)
                    c[k] = v[:i] + v[i + 1:]
                    if k == 'x' and isinstance(case.get('labs'), list) and len(case['labs']) == len(v):
                        c['labs'] = case['labs'][:i] + case['labs'][i + 1:]
                    yield c
        for k in ('a', 'b', 'hop', 'labs', 'v', 'ev', 'rr'):
            if case.get(k) is not None:
                c = dict(case)
                c[k] = None
                yield c

    def distribution(self, pairs):
        d = {}

        def inc(k):
            d[k] = d.get(k, 0) + 1
        for c, o in pairs:
            tag = '%s/%s' % (c['fn'], c['ver'])
            inc(tag)
            if o['raised']:
                inc(tag + ': raises ' + str(o['exc']))
            if any(o['changed']):
                inc(tag + ': AN ARGUMENT CHANGED')
            if c['fn'] in ('ai', 'ae'):
                inc(c['fn'] + (': labels=None' if c['labs'] is None else ': labelled'))
                for k in ('a', 'b'):
                    if c[k] is None:
                        inc('%s: t_%s=None' % (c['fn'], 'min' if k == 'a' else 'max'))
                if not o['raised'] and o['rets'] and isinstance(o['rets'][1], dict):
                    ls = o['rets'][1]['strs']
                    if '__T_MIN' in ls:
                        inc(c['fn'] + ': start label inserted')
                    if '__T_MAX' in ls:
                        inc(c['fn'] + ': end label appended')
                    if c['labs'] is not None and len([x for x in ls if not x.startswith('__T_')]) < len(c['labs']):
                        inc(c['fn'] + ': labels cropped')
            elif c['fn'] == 'ftv':
                inc('ftv: voicing=None' if c['v'] is None else 'ftv: voicing given')
                if c['v'] is not None and 0.0 in c['f']:
                    inc('ftv: voicing given and a zero frequency')
            else:
                inc('tcv: ref_time[0]%s0' % ('=' if c['rt'][0] == 0 else '>'))
                inc('tcv: est_time[0]%s0' % ('=' if c['et'][0] == 0 else '>'))
                inc('tcv: est_voicing %s, ref_reward %s' % ('given' if c['ev'] is not None else 'None', 'given' if c['rr'] is not None else 'None'))
                inc('tcv: hop %s' % ('None' if c['hop'] is None else 'given'))
        for key in (('util', 'adjust_intervals'), ('util', 'adjust_events'), ('melody', 'freq_to_voicing')):
            if key in _variants:
                d['old %s: copy statement of the fix %s' % (key[1], 'deleted' if _variants[key][1] else 'NOT FOUND (old == current source)')] = 1
        return d


UNIT = U()
