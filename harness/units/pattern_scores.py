"""pattern.validate / _n_onset_midi / _compute_score_matrix / standard_FPR / establishment_FPR / occurrence_FPR /
three_layer_FPR / first_n_three_layer_P / first_n_target_proportion_R vs ME.Model.Pattern.

Inputs: 0-3 patterns with 1-3 occurrences of 0-5 notes; onsets are multiples of 1/4, pitches integers (sometimes Python
ints, sometimes floats: tuples compare numerically). Estimates are built from the reference (identical, perturbed
occurrences, translated copies, permuted, truncated) so that intersections are non-trivial. Thresholds are drawn from
values a cardinality score can take exactly (1/4, 1/3, 1/2, 2/3, 3/4, 1; each checked to compare identically as a float and
as a rational against every score k/d, d <= 8). standard_FPR tolerances include lattice values with a deviation exactly
equal to tol. Empty annotations, empty occurrences (ZeroDivisionError / ValueError paths), empty patterns and malformed
(onset, midi) entries are generated; exceptions are compared by class. Scores are compared with 1e-9."""
from fractions import Fraction
from lib import core


def thr_safe(t):
    for d in range(1, 9):
        for k in range(0, d + 1):
            if (float(k) / float(d) >= t) != (Fraction(k, d) >= Fraction(t)):
                return False
    return True


THRES = [t for t in [0.5, 0.75, 0.25, 1.0, 0.0, 1.0 / 3.0, 2.0 / 3.0, 0.6, 0.8, 0.3, 1.25] if thr_safe(t)]
TOLS = [1e-5, 1e-5, 0.25, 0.5, 1.0, 0.0]
NS = [5, 5, 1, 2, 3, 0, -1, -2]


def rand_occ(rng, k=None):
    k = rng.choice([2, 3, 4, 2, 3, 4, 1, 5]) if k is None else k
    t = float(rng.randint(0, 8))
    out = []
    for _ in range(k):
        p = rng.randint(60, 66)
        out.append([t, p if rng.random() < 0.5 else float(p)])
        t += rng.choice([1.0, 1.0, 2.0, 0.5, 0.25, 0.0])
    return out


def translate(o, dt, dp=0):
    return [[n[0] + dt, n[1] + dp] + n[2:] for n in o]


def perturb(rng, o):
    o = [list(n) for n in o]
    r = rng.random()
    if r < 0.3 or not o:
        return o
    i = rng.randrange(len(o))
    if r < 0.5:
        o[i][1] = o[i][1] + 1
    elif r < 0.65:
        del o[i]
    elif r < 0.8:
        o.insert(i, [o[i][0] + 0.5, 70])
    elif r < 0.9:
        o[i][0] = o[i][0] + rng.choice([0.25, 0.5, -0.25])
    else:
        o.append(list(o[i]))           # duplicate note
    return o


def rand_pattern(rng):
    proto = rand_occ(rng)
    occs = [proto]
    for _ in range(rng.choice([0, 1, 1, 2])):
        r = rng.random()
        if r < 0.5:
            occs.append(perturb(rng, translate(proto, float(rng.randint(4, 16)), rng.choice([0, 0, 0, 5]))))
        elif r < 0.8:
            occs.append(perturb(rng, proto))
        else:
            occs.append(rand_occ(rng))
    return occs


def rand_patterns(rng):
    return [rand_pattern(rng) for _ in range(rng.choice([1, 2, 2, 3, 3]))]


def as_py(ps):
    return [[[tuple(n) for n in o] for o in p] for p in ps]


def cq_raw(ps):
    return core.cq_list([core.cq_list([core.cq_list([core.cq_list([core.cq_Q(x) for x in n]) for n in o]) for o in p]) for p in ps])


class U(core.Unit):
    name = 'pattern_scores'
    requires = ['ME.Model.Prelude', 'ME.Model.Pattern']
    mirrors = [('mir_eval/pattern.py', f) for f in ['_n_onset_midi', 'validate', '_occurrence_intersection',
                                                    '_compute_score_matrix', 'standard_FPR', 'establishment_FPR',
                                                    'occurrence_FPR', 'three_layer_FPR', 'first_n_three_layer_P',
                                                    'first_n_target_proportion_R']] + [('mir_eval/util.py', 'f_measure')]
    counts = {'quick': 1500, 'thorough': 15000}
    shard = 250
    header = '''
Open Scope Q_scope.
Definition tolq : Q := 1#1000000000.
Definition fpr_eqb (a b : Q * Q * Q) : bool :=
  let '(f, p, r) := a in let '(f', p', r') := b in Qclose tolq f f' && Qclose tolq p p' && Qclose tolq r r'.
Definition rf := res_eqb fpr_eqb.
Definition rq := res_eqb (Qclose tolq).
Definition ru := res_eqb (fun _ _ : unit => true).
Definition raw := list (list (list (list Q))).
Definition C (ref est : raw) (tol thres : Q) (n : Z) (st es oc tl : res (Q * Q * Q)) (fp fr : res Q) (v : res unit)
             (nr ne : nat) (sm : option (list (list Q))) := (ref, est, tol, thres, n, st, es, oc, tl, fp, fr, v, nr, ne, sm).
Definition check_case (c : raw * raw * Q * Q * Z * res (Q * Q * Q) * res (Q * Q * Q) * res (Q * Q * Q) * res (Q * Q * Q)
                           * res Q * res Q * res unit * nat * nat * option (list (list Q))) : bool :=
  let '(ref, est, tol, thres, n, st, es, oc, tl, fp, fr, v, nr, ne, sm) := c in
  rf (with_raw (fun r e => standard_FPR r e tol) ref est) st
  && rf (with_raw establishment_FPR ref est) es
  && rf (with_raw (fun r e => occurrence_FPR r e thres) ref est) oc
  && rf (with_raw three_layer_FPR ref est) tl
  && rq (with_raw (fun r e => first_n_three_layer_P r e n) ref est) fp
  && rq (with_raw (fun r e => first_n_target_proportion_R r e n) ref est) fr
  && ru (validate_raw ref est) v
  && Nat.eqb (n_onset_midi (of_raw ref)) nr && Nat.eqb (n_onset_midi (of_raw est)) ne
  && match sm with
     | None => true
     | Some m => list_eqb (list_eqb (Qclose tolq)) (score_matrix (hd [] (of_raw ref)) (hd [] (of_raw est))) m
     end.
'''

    def exhaustive(self, tier):
        A = [[0.0, 60], [1.0, 62], [2.0, 64]]
        B = translate(A, 10.0)
        A4 = A + [[3.0, 65]]
        D = [[1.0, 60], [1.0, 60.0]]
        out = []

        def add(r, e, tol=1e-5, thres=0.75, n=5):
            out.append([r, e, tol, thres, n])
        add([[A], [B]], [[A]])                                 # standard precision 2.0
        add([[A], [B]], [[translate(A, 3.0, 5)]])
        add([[A]], [[A], [B]])
        add([[A, B]], [[A, B]])
        add([[D]], [[D]])                                      # duplicate notes: perfect estimate scores 1/2
        add([[D]], [[D]], thres=0.5)
        for r, e in [([[[]], [A]], [[[]], [A]]), ([[[]], [A]], [[A]]), ([[A]], [[[]], [A]]), ([[A]], []), ([], [[A]]), ([], []),
                     ([[]], [[A]]), ([[A]], [[]]), ([[A, []]], [[A]]), ([[A]], [[A, []]]), ([[A, []]], [[A, []]]),
                     ([[[]]], [[A]]), ([[A]], [[[]]]), ([[[]]], [[[]]]), ([[A, [[1.0]]]], [[A]]), ([[A]], [[[[1.0, 60, 3]]]]),
                     ([[[[]]]], [[A]]), ([[[], A]], [[[], A]]), ([[A], [[]]], [[B], [[]]]), ([[[], A]], [[A]])]:
            for thres in [0.75, 0.5]:
                add(r, e, thres=thres)
        # thresholds exactly met: scores 1/2, 2/3, 3/4, 1/3, 1/4
        for thres in THRES:
            add([[A4]], [[A4[:2]]], thres=thres)
            add([[A4]], [[A4[:3]]], thres=thres)
            add([[A4]], [[A4[:1]]], thres=thres)
            add([[A]], [[A[:2]]], thres=thres)
            add([[A]], [[A[:1]]], thres=thres)
            add([[A, B], [A4]], [[A[:2], B], [A4[:3], A]], thres=thres)
        # standard_FPR tolerance boundary (strict <), single-note prototypes, pitch transposition
        for tol in TOLS:
            add([[A]], [[[[5.0, 60], [6.25, 62], [7.25, 64]]]], tol=tol)
            add([[A]], [[[[5.0, 60], [6.5, 62], [7.5, 64]]]], tol=tol)
            add([[A]], [[[[5.0, 60], [6.0, 62.5], [7.0, 64]]]], tol=tol)
            add([[A[:1]]], [[[[9.0, 71]]]], tol=tol)
            add([[A]], [[A[:2]], [B]], tol=tol)
            add([[A], [A], [B]], [[A[:2]], [B]], tol=tol)
        # first-n
        for n in NS + [4, -3, 100]:
            add([[A], [B], [A4]], [[A4], [B], [A]], n=n)
            add([[A], [B]], [[[]], [A], [B]], n=n)           # truncation removes / keeps the empty occurrence
            add([[A]], [[[[9.0, 1]]], [A]], n=n)
        return out

    def gen(self, rng, n):
        out = []
        for _ in range(n):
            ref = rand_patterns(rng)
            r = rng.random()
            if r < 0.12:
                est = [[list(map(list, o)) for o in p] for p in ref]
            elif r < 0.55:
                est = [[perturb(rng, o) for o in p] for p in ref]
                if rng.random() < 0.4:
                    rng.shuffle(est)
                if rng.random() < 0.3:
                    est.append(rand_pattern(rng))
                if rng.random() < 0.3 and len(est) > 1:
                    est.pop(rng.randrange(len(est)))
                for p in est:
                    if rng.random() < 0.3:
                        rng.shuffle(p)
            elif r < 0.75:
                est = []
                for p in ref:
                    dt, dp = float(rng.randint(-3, 12)), rng.choice([0, 0, 7])
                    q = [translate(o, dt, dp) for o in p]
                    if rng.random() < 0.4:
                        q[0] = perturb(rng, q[0])
                    est.append(q)
                if rng.random() < 0.5:
                    est = est[:rng.randint(1, len(est))]
                if rng.random() < 0.4:
                    est = est + [[perturb(rng, o) for o in rng.choice(ref)]]
            elif r < 0.9:
                est = rand_patterns(rng)
                if rng.random() < 0.5:
                    est[0] = [list(map(list, o)) for o in rng.choice(ref)]
            else:
                est = rng.choice([[], [[[]]], [[rand_occ(rng, 0)], rand_pattern(rng)], [rand_pattern(rng) + [[]]]])
            q = rng.random()
            if q < 0.03:
                ref = rng.choice([[], [[[]]], ref + [[[]]], [[[]]] + ref, [p + [[]] for p in ref]])
            elif q < 0.05:
                ref = ref + [[]]
            elif q < 0.07:
                est = est + [[]]
            elif q < 0.09 and est and est[0] and est[0][0]:
                est[0][0][0] = rng.choice([[1.0], [1.0, 60, 2.0], []])
            elif q < 0.10 and ref[0][0]:
                ref[0][0][0] = rng.choice([[1.0], [1.0, 60, 2.0], []])
            if rng.random() < 0.15:        # swapped twin
                ref, est = est, ref
            out.append([ref, est, rng.choice(TOLS), rng.choice(THRES), rng.choice(NS)])
        return out

    def run(self, case):
        from mir_eval import pattern as P
        ref, est, tol, thres, n = case
        r, e = as_py(ref), as_py(est)

        def fpr(fn, *a, **kw):
            t, v = core.call_impl(fn, r, e, *a, **kw)
            return ['ok', [float(x) for x in v]] if t == 'ok' else ['exc', v]

        def sc(fn, **kw):
            t, v = core.call_impl(fn, r, e, **kw)
            return ['ok', float(v)] if t == 'ok' else ['exc', v]
        t, v = core.call_impl(P.validate, r, e)
        va = ['ok', None] if t == 'ok' else ['exc', v]
        sm = None
        if va[0] == 'ok' and r and e:
            t, v = core.call_impl(P._compute_score_matrix, r[0], e[0])
            if t == 'ok':
                sm = [[float(x) for x in row] for row in v]
        return [fpr(P.standard_FPR, tol=tol), fpr(P.establishment_FPR), fpr(P.occurrence_FPR, thres=thres), fpr(P.three_layer_FPR),
                sc(P.first_n_three_layer_P, n=n), sc(P.first_n_target_proportion_R, n=n), va,
                P._n_onset_midi(r), P._n_onset_midi(e), sm]

    def emit(self, case, out):
        ref, est, tol, thres, n = case
        st, es, oc, tl, fp, fr, va, nr, ne, sm = out
        f3 = lambda v: '(%s,%s,%s)' % tuple(core.cq_Q(x) for x in v)
        return '(C %s %s %s %s %s%%Z %s %s %s %s %s %s %s %d %d %s)' % (
            cq_raw(ref), cq_raw(est), core.cq_Q(tol), core.cq_Q(thres), core.cq_Z(n),
            core.cq_res(st, f3), core.cq_res(es, f3), core.cq_res(oc, f3), core.cq_res(tl, f3),
            core.cq_res(fp, core.cq_Q), core.cq_res(fr, core.cq_Q), core.cq_res(va, lambda _: 'tt'), nr, ne,
            core.cq_opt(sm, lambda m: core.cq_list([core.cq_list([core.cq_Q(x) for x in row]) for row in m])))

    def nontrivial(self, case, out):
        return out[1][0] == 'ok' and 0.0 < out[1][1][0] < 1.0

    def shrink(self, case):
        ref, est, tol, thres, n = case
        for which in (0, 1):
            ps = case[which]
            for i in range(len(ps)):
                c = list(case)
                c[which] = ps[:i] + ps[i + 1:]
                yield c
            for i, p in enumerate(ps):
                for j in range(len(p)):
                    c = list(case)
                    c[which] = ps[:i] + [p[:j] + p[j + 1:]] + ps[i + 1:]
                    yield c
                    for k in range(len(p[j])):
                        c = list(case)
                        c[which] = ps[:i] + [p[:j] + [p[j][:k] + p[j][k + 1:]] + p[j + 1:]] + ps[i + 1:]
                        yield c

    def distribution(self, pairs):
        d = {}

        def add(k):
            d[k] = d.get(k, 0) + 1

        def cls(name, o):
            if o[0] != 'ok':
                add(name + ':raise ' + o[1])
                return
            v = o[1] if isinstance(o[1], list) else [o[1]]
            if any(x > 1.0 for x in v):
                add(name + ':>1')
            elif all(x == 0.0 for x in v):
                add(name + ':0')
            elif all(x == 1.0 for x in v):
                add(name + ':1')
            else:
                add(name + ':mid')
        for c, o in pairs:
            st, es, oc, tl, fp, fr, va, nr, ne, sm = o
            add('validate:' + ('ok' if va[0] == 'ok' else va[1]))
            if va[0] != 'ok':
                continue
            if nr == 0 or ne == 0:
                add('empty annotation (early return)')
                continue
            for name, x in [('standard', st), ('establishment', es), ('occurrence', oc), ('three_layer', tl), ('first_n_P', fp),
                            ('first_n_R', fr)]:
                cls(name, x)
            add('patterns ref=%d est=%d' % (len(c[0]), len(c[1])))
        return d


UNIT = U()
