"""separation.bss_eval_sources_framewise / bss_eval_images_framewise / validate / _any_source_silent
vs ME.Model.Separation (framewise_sources_sig, framewise_images_sig, validate_detail, silent2, silent3).

A 'frame' case runs the real framewise function on short integer-valued signals and, from outside, the real
NON-framewise function on every window slice and on the whole signals.  Coq rebuilds the framewise answer from those
per-window results with the model's plan (nwin formula, `nwin < 2` fallback with a trailing axis, silence flags computed
by the model from the data, NaN in every output for silent windows, arity 4 / 5 for empty and non-empty input, exception
classes) and compares it with the observed answer exactly (bit-identical floats, NaN = NaN, inf = inf).
'validate' cases compare which check of validate fires (by message) / which warnings are issued on shape descriptors;
'silent' cases compare _any_source_silent with silent2 / silent3 on data (including channels that cancel)."""
import math
import warnings
from lib import core

MAXWIN = 7


def _arr(data, rank):
    import numpy as np
    a = np.array(data, dtype=float)
    if rank == 1:
        return a.reshape(len(data))
    if rank == 2:
        return a.reshape(len(data), len(data[0]) if data else 0)
    n1 = len(data[0]) if data else 0
    n2 = len(data[0][0]) if data and data[0] else 0
    return a.reshape(len(data), n1, n2)


def _nsampl(data, rank):
    if rank == 1:
        return len(data)
    return len(data[0]) if data else 0


def _res_list(val):
    """tuple/list of arrays -> nested lists of floats"""
    return [[(float(x) if not isinstance(x, list) else [float(y) for y in x]) for x in a.tolist()] for a in val]


def _xv(x):
    if isinstance(x, float) and math.isnan(x):
        return 'NaN'
    if x == math.inf:
        return 'PInf'
    if x == -math.inf:
        return 'NInf'
    return '(Fin %s)' % core.cq_Q(x)


def _xl(l):
    return core.cq_list([_xv(x) for x in l])


def _xll(ll):
    return core.cq_list([_xl(l) for l in ll])


def _xlll(lll):
    return core.cq_list([_xll(ll) for ll in lll])


def _sig(data, rank):
    q = core.cq_Q
    if rank == 1:
        return '(In1 %s)' % core.cq_list([q(x) for x in data])
    if rank == 2:
        return '(In2 %s)' % core.cq_list([core.cq_list([q(x) for x in r]) for r in data])
    return '(In3 %s)' % core.cq_list([core.cq_list([core.cq_list([q(x) for x in fr]) for fr in r]) for r in data])


VMSG = [('The shape of estimated sources', 'ShapeMismatch'), ('The number of dimensions is too high', 'TooManyDims'),
        ('All the reference sources should be non-silent', 'SilentRef'),
        ('All the estimated sources should be non-silent', 'SilentEst'),
        ('The supplied matrices should be of shape', 'TooManySources')]


class U(core.Unit):
    name = 'sep_framewise'
    requires = ['ME.Model.Prelude', 'ME.Model.Separation']
    mirrors = [('mir_eval/separation.py', 'bss_eval_sources_framewise'), ('mir_eval/separation.py', 'bss_eval_images_framewise'),
               ('mir_eval/separation.py', 'validate'), ('mir_eval/separation.py', '_any_source_silent')]
    counts = {'quick': 70, 'thorough': 700}
    shard = 60
    header = '''
Inductive sigin := In1 (x : vec) | In2 (x : list vec) | In3 (x : list (list vec)).
Definition to2 (s : sigin) : list vec := match s with In1 x => promote_1to2 x | In2 x => x | In3 _ => [] end.
Definition to3 (s : sigin) : list (list vec) := match s with In1 x => promote_1to3 x | In2 x => promote_2to3 x | In3 x => x end.
Inductive case :=
| CFrame (images : bool) (maxsrc : nat) (ref est : sigin) (window hop : nat)
         (wins : list (res result)) (glob : res result) (obs : res (list table))
| CValidate (maxsrc : nat) (rshape eshape : list nat) (rsil esil : bool) (obs : verr + (bool * bool))
| CSilent (x : sigin) (obs : bool).
Definition xeq := xval_eqb 0.
Definition tbl (l : list (res result)) (k : nat) : res result := nth k l (Raise OtherExn).
Definition vd_eqb (a b : verr + (bool * bool)) : bool :=
  match a, b with
  | inl x, inl y => verr_eqb x y
  | inr (a1, a2), inr (b1, b2) => Bool.eqb a1 b1 && Bool.eqb a2 b2
  | _, _ => false
  end.
Definition check_case (c : case) : bool :=
  match c with
  | CFrame false mx ref est w h wins glob obs =>
      res_eqb (list_eqb (list_eqb (list_eqb xeq))) (framewise_sources_sig mx (to2 ref) (to2 est) w h (tbl wins) glob) obs
  | CFrame true mx ref est w h wins glob obs =>
      res_eqb (list_eqb (list_eqb (list_eqb xeq))) (framewise_images_sig mx (to3 ref) (to3 est) w h (tbl wins) glob) obs
  | CValidate mx rs es a b obs => vd_eqb (validate_detail mx rs es a b) obs
  | CSilent (In2 x) obs => Bool.eqb (silent2 x) obs
  | CSilent (In3 x) obs => Bool.eqb (silent3 x) obs
  | CSilent (In1 _) _ => false
  end.
'''

    # ---------------------------------------------------------------- cases
    @staticmethod
    def _frame(images, rank, ref, est, window, hop, cp):
        return {'kind': 'frame', 'images': images, 'rank': rank, 'ref': ref, 'est': est, 'window': window, 'hop': hop, 'cp': cp}

    @staticmethod
    def _signal(rng, nsrc, n, nchan=None, zero=None):
        """integer-valued samples; zero = list of (source, a, b) stretches set to 0"""
        def sample():
            v = rng.choice([-3, -2, -1, 1, 2, 3, 1, 2])
            return float(v)
        if nchan is None:
            x = [[sample() for _ in range(n)] for _ in range(nsrc)]
        else:
            x = [[[sample() for _ in range(nchan)] for _ in range(n)] for _ in range(nsrc)]
        for (s, a, b, cancel) in (zero or []):
            for t in range(max(a, 0), min(b, n)):
                if nchan is None:
                    x[s][t] = 0.0
                elif cancel and nchan == 2:
                    x[s][t] = [x[s][t][0], -x[s][t][0]]      # channels cancel: counted as silent by the code
                else:
                    x[s][t] = [0.0] * nchan
        return x

    def exhaustive(self, tier):
        out = []
        one = [[1.0, 2.0, -1.0, 3.0, 1.0, -2.0, 2.0, 1.0, 1.0, -3.0, 2.0, 1.0]]
        est = [[2.0, 1.0, -1.0, 1.0, 3.0, -1.0, 1.0, 2.0, -1.0, -2.0, 1.0, 3.0]]
        # nwin formula boundaries on 12 samples (hop 3): window 9 -> 2 windows exactly, 10 -> 1 (fallback), 6 -> 3, 7 -> 2
        for w, h in [(9, 3), (10, 3), (6, 3), (7, 3), (12, 3), (13, 3), (16, 3), (40, 3), (0, 6), (6, 6), (6, 7), (1, 11), (12, 12)]:
            out.append(self._frame(False, 2, one, est, w, h, False))
        out.append(self._frame(True, 2, one, est, 6, 3, False))
        out.append(self._frame(True, 2, one, est, 10, 3, True))
        out.append(self._frame(False, 1, one[0], est[0], 6, 3, True))
        out.append(self._frame(True, 1, one[0], est[0], 6, 6, False))
        # hop = 0
        out.append(self._frame(False, 2, one, est, 6, 0, False))
        out.append(self._frame(True, 2, one, est, 6, 0, False))
        # a silent window in the reference / in the estimate only / in both; window 4 hop 4 on 12 samples
        zr = [[1.0, 2.0, -1.0, 3.0, 0.0, 0.0, 0.0, 0.0, 1.0, -3.0, 2.0, 1.0]]
        ze = [[2.0, 1.0, -1.0, 1.0, 3.0, -1.0, 1.0, 2.0, 0.0, 0.0, 0.0, 0.0]]
        for images in (False, True):
            out.append(self._frame(images, 2, zr, est, 4, 4, False))
            out.append(self._frame(images, 2, one, ze, 4, 4, False))
            out.append(self._frame(images, 2, zr, ze, 4, 4, True))
            out.append(self._frame(images, 2, zr, ze, 4, 2, False))    # overlapping windows, some partly silent only
        # whole source silent -> ValueError of validate
        allz = [[0.0] * 12]
        out.append(self._frame(False, 2, allz, est, 4, 4, False))
        out.append(self._frame(True, 2, one, allz, 4, 4, False))
        # empty inputs of every flavour, both variants (documented arity 4 / 5)
        for images in (False, True):
            out.append(self._frame(images, 1, [], [], 4, 2, False))
            out.append(self._frame(images, 2, [], [], 4, 2, False))
            out.append(self._frame(images, 2, [[]], [[]], 4, 2, False))
            out.append(self._frame(images, 2, [[], []], [[], []], 4, 0, True))
            out.append(self._frame(images, 2, [], [[]], 4, 2, False))          # shapes (0,0) vs (1,0): mismatch
            out.append(self._frame(images, 2, one, [[1.0] * 11], 4, 2, False))  # shape mismatch
        out.append(self._frame(True, 3, [], [], 4, 2, False))
        out.append(self._frame(True, 3, [[]], [[]], 4, 2, False))
        out.append(self._frame(True, 3, [[[], []]], [[[], []]], 4, 2, False))
        # images: channels that cancel make a window "silent"
        c3 = [[[1.0, -1.0], [2.0, -2.0], [1.0, 1.0], [2.0, 1.0], [1.0, 3.0], [-1.0, 2.0]]]
        e3 = [[[1.0, 2.0], [2.0, 1.0], [1.0, -1.0], [2.0, 3.0], [1.0, 1.0], [-1.0, 1.0]]]
        out.append(self._frame(True, 3, c3, e3, 2, 2, False))
        out.append(self._frame(True, 3, e3, c3, 2, 2, False))
        # validate: shape descriptors
        V = lambda rs, es, rz=None, ez=None: {'kind': 'validate', 'rshape': rs, 'eshape': es, 'rzero': rz, 'ezero': ez}
        out += [V([2, 5], [2, 5]), V([2, 5], [2, 6]), V([2, 5], [5, 2]), V([2, 5], [2, 5, 1]), V([1, 2, 2, 2], [1, 2, 2, 2]),
                V([1, 2, 2, 2], [1, 2, 2, 3]), V([2, 5], [2, 5], 0, None), V([2, 5], [2, 5], None, 1), V([2, 5], [2, 5], 1, 0),
                V([0, 5], [0, 5]), V([2, 0], [2, 0]), V([0], [0]), V([5], [5]), V([], []), V([100, 2], [100, 2]),
                V([101, 2], [101, 2]), V([101, 0], [101, 0]), V([101, 2], [101, 2], 3, None), V([2, 3, 2], [2, 3, 2]),
                V([2, 3, 2], [2, 3, 2], 1, None), V([2, 3, 2], [2, 3, 2], None, 0), V([2, 3, 0], [2, 3, 0]),
                V([101, 2, 1], [101, 2, 1]), V([0, 0, 0, 0], [0, 0, 0, 0]), V([5], [6]), V([2, 2, 2, 2, 2], [2, 2, 2, 2, 2])]
        # silent: data
        Sx = lambda rank, x: {'kind': 'silent', 'rank': rank, 'x': x}
        out += [Sx(2, [[1.0, 0.0], [0.0, 0.0]]), Sx(2, [[1.0, 0.0], [0.0, 2.0]]), Sx(2, [[1.0, -1.0]]), Sx(2, [[], []]),
                Sx(3, [[[1.0, -1.0], [2.0, -2.0]]]), Sx(3, [[[1.0, -1.0], [2.0, 2.0]]]), Sx(3, [[[0.0, 0.0]], [[1.0, 0.0]]]),
                Sx(3, [[[1.0], [0.0]], [[0.0], [0.0]]]), Sx(3, [[[], []]]), Sx(2, [[0.0]]), Sx(2, [[3.0]])]
        return out

    def gen(self, rng, n):
        cases = []
        for _ in range(n):
            r = rng.random()
            if r < 0.12:
                cases.append(self._gen_validate(rng))
            elif r < 0.22:
                cases.append(self._gen_silent(rng))
            else:
                cases.append(self._gen_frame(rng))
        return cases

    def _gen_validate(self, rng):
        nd = rng.choice([1, 2, 2, 2, 3, 3, 4])
        rs = [rng.choice([0, 1, 2, 3, 100, 101]) if i == 0 else rng.choice([0, 1, 2, 3, 4]) for i in range(nd)]
        if rng.random() < 0.75:
            es = list(rs)
        else:
            es = list(rs)
            i = rng.randrange(nd)
            es[i] = es[i] + 1
            if rng.random() < 0.3:
                es = es + [1]
        rz = rng.randrange(rs[0]) if rs[0] and rng.random() < 0.3 else None
        ez = rng.randrange(es[0]) if es[0] and rng.random() < 0.3 else None
        return {'kind': 'validate', 'rshape': rs, 'eshape': es, 'rzero': rz, 'ezero': ez}

    def _gen_silent(self, rng):
        rank = rng.choice([2, 3])
        nsrc, n = rng.randint(1, 3), rng.randint(0, 5)
        if rank == 2:
            x = [[float(rng.choice([0, 0, 0, 1, -1, 2])) for _ in range(n)] for _ in range(nsrc)]
        else:
            nch = rng.randint(1, 3)
            x = []
            for _s in range(nsrc):
                row = []
                for _t in range(n):
                    k = rng.random()
                    if k < 0.4:
                        row.append([0.0] * nch)
                    elif k < 0.75 and nch >= 2:
                        v = float(rng.choice([1, 2, 3]))
                        row.append([v, -v] + [0.0] * (nch - 2))
                    else:
                        row.append([float(rng.choice([0, 1, -1, 2])) for _ in range(nch)])
                x.append(row)
        return {'kind': 'silent', 'rank': rank, 'x': x}

    def _gen_frame(self, rng):
        images = rng.random() < 0.4
        nsrc = 1 if rng.random() < 0.8 else 2
        nchan = None
        if images and rng.random() < 0.6:
            nchan = 1 if (nsrc == 2 or rng.random() < 0.5) else 2
        n = rng.randint(6, 28)
        # choose hop / window so that the number of windows is small; boundaries of the formula on purpose
        target = rng.choice([0, 1, 1, 2, 2, 3, 3, 4, 5])
        hop = rng.randint(1, 9)
        if target == 0:
            window = n + hop + rng.randint(0, 5)              # (n - window + hop) <= 0
        else:
            # nwin = target  <=>  target*hop <= n - window + hop < (target+1)*hop
            lo = n + hop - (target + 1) * hop + 1
            hi = n + hop - target * hop
            if hi < 0:
                hop = max(1, n // (target + 1))
                lo = n + hop - (target + 1) * hop + 1
                hi = n + hop - target * hop
            lo = max(lo, 0)
            hi = max(hi, lo)
            window = rng.choice([lo, hi, rng.randint(lo, hi)])
        # silent stretches aligned with windows (whole windows) or cutting into them
        zero_r, zero_e = [], []
        if window > 0 and rng.random() < 0.6:
            for z in (zero_r, zero_e):
                if rng.random() < 0.6:
                    k = rng.randint(0, max(0, target - 1))
                    a = k * hop + rng.choice([0, 0, 0, 1, -1])
                    b = k * hop + window + rng.choice([0, 0, 0, -1, 1, hop])
                    z.append((rng.randrange(nsrc), a, b, rng.random() < 0.4))
        if rng.random() < 0.04:
            zero_r.append((rng.randrange(nsrc), 0, n, False))   # a silent source: validate raises
        ref = self._signal(rng, nsrc, n, nchan, zero_r)
        est = self._signal(rng, nsrc, n, nchan, zero_e)
        rank = 2 if nchan is None else 3
        if rank == 2 and nsrc == 1 and rng.random() < 0.25:
            rank, ref, est = 1, ref[0], est[0]
        m = rng.random()
        if m < 0.03:
            hop = 0
        elif m < 0.06 and rank >= 2:
            est = [row[:-1] for row in est]                     # shape mismatch
        cp = rng.random() < (0.5 if nsrc == 1 else 0.3)
        return self._frame(images, rank, ref, est, window, hop, cp)

    # ---------------------------------------------------------------- implementation
    def run(self, case):
        import numpy as np
        from mir_eval import separation as S
        if case['kind'] == 'silent':
            x = _arr(case['x'], case['rank'])
            return bool(S._any_source_silent(x))
        if case['kind'] == 'validate':
            def build(shape, zero):
                a = np.ones(shape)
                if zero is not None and a.size:
                    a[zero] = 0.0
                return a
            ref, est = build(case['rshape'], case['rzero']), build(case['eshape'], case['ezero'])
            flags = []
            for a in (ref, est):
                try:
                    flags.append(bool(S._any_source_silent(a)) if a.size else False)
                except Exception:
                    flags.append(False)
            with warnings.catch_warnings(record=True) as w:
                warnings.simplefilter('always')
                try:
                    S.validate(ref, est)
                    msgs = [str(x.message) for x in w]
                    out = ['ok', any(m.startswith('reference_sources is empty') for m in msgs),
                           any(m.startswith('estimated_sources is empty') for m in msgs)]
                except Exception as e:  # noqa
                    tag = 'BadAxis' if type(e).__name__ == 'AxisError' else None
                    for pre, t in VMSG:
                        if str(e).startswith(pre):
                            tag = t
                    out = ['err', tag or ('?' + type(e).__name__)]
            return {'flags': flags, 'max': int(S.MAX_SOURCES), 'out': out}
        # frame
        images, rank = case['images'], case['rank']
        fw = S.bss_eval_images_framewise if images else S.bss_eval_sources_framewise
        nf = S.bss_eval_images if images else S.bss_eval_sources
        ref, est = _arr(case['ref'], rank), _arr(case['est'], rank)
        window, hop, cp = case['window'], case['hop'], case['cp']
        tag, val = core.call_impl(fw, ref, est, window=window, hop=hop, compute_permutation=cp)
        obs = ['ok', _res_list(val)] if tag == 'ok' else ['exc', val]
        # the non-framewise function from outside, on the arrays as the framewise function sees them
        if images:
            r3, e3 = np.atleast_3d(ref), np.atleast_3d(est)
        else:
            r3 = ref[np.newaxis, :] if ref.ndim == 1 else ref
            e3 = est[np.newaxis, :] if est.ndim == 1 else est
        n = r3.shape[1] if r3.ndim >= 2 else 0
        K = 0
        if hop > 0:
            while K * hop + window <= n and K < MAXWIN:
                K += 1
        wins = []
        for k in range(K + 1 if hop > 0 else 0):
            sl = slice(k * hop, k * hop + window)
            try:
                a, b = (r3[:, sl, :], e3[:, sl, :]) if images else (r3[:, sl], e3[:, sl])
            except Exception as e:  # noqa
                wins.append(['exc', type(e).__name__])
                continue
            t, v = core.call_impl(nf, a, b, cp)
            wins.append(['ok', _res_list(v)] if t == 'ok' else ['exc', v])
        t, v = core.call_impl(nf, r3, e3, cp)
        glob = ['ok', _res_list(v)] if t == 'ok' else ['exc', v]
        return {'obs': obs, 'wins': wins, 'glob': glob, 'max': int(S.MAX_SOURCES)}

    def emit(self, case, out):
        if case['kind'] == 'silent':
            return '(CSilent %s %s)' % (_sig(case['x'], case['rank']), core.cq_bool(out))
        if case['kind'] == 'validate':
            o = out['out']
            if o[0] == 'err' and o[1].startswith('?'):
                # an exception the model has no name for: emit a case that cannot agree
                return '(CValidate %d [0%%nat] [0%%nat] false false (inl ShapeMismatch))' % out['max']
            obs = '(inr (%s,%s))' % (core.cq_bool(o[1]), core.cq_bool(o[2])) if o[0] == 'ok' else '(inl %s)' % o[1]
            return '(CValidate %d %s %s %s %s %s)' % (
                out['max'], core.cq_list(['%d%%nat' % x for x in case['rshape']]), core.cq_list(['%d%%nat' % x for x in case['eshape']]),
                core.cq_bool(out['flags'][0]), core.cq_bool(out['flags'][1]), obs)
        wins = core.cq_list([core.cq_res(w, _xll) for w in out['wins']])
        return '(CFrame %s %d %s %s %d %d %s %s %s)' % (
            core.cq_bool(case['images']), out['max'], _sig(case['ref'], case['rank']), _sig(case['est'], case['rank']),
            case['window'], case['hop'], wins, core.cq_res(out['glob'], _xll), core.cq_res(out['obs'], _xlll))

    def nontrivial(self, case, out):
        if case['kind'] != 'frame':
            return True
        o = out['obs']
        return o[0] == 'ok' and len(o[1]) > 0 and len(o[1][0]) > 0 and len(o[1][0][0]) >= 2

    def shrink(self, case):
        if case['kind'] != 'frame':
            return
        if case['cp']:
            yield dict(case, cp=False)
        if case['window'] > 0:
            yield dict(case, window=case['window'] - 1)
        if case['hop'] > 1:
            yield dict(case, hop=case['hop'] - 1)

    def distribution(self, pairs):
        d = {'frame': 0, 'validate': 0, 'silent': 0, 'sources': 0, 'images': 0, 'exc': {}, 'empty_ok': 0, 'fallback_lt2': 0,
             'windows>=2': 0, 'nan_columns': 0, 'computed_columns': 0, 'rank1': 0, 'rank2': 0, 'rank3': 0, 'cp_true': 0,
             'nsrc2': 0, 'validate_outcomes': {}, 'silent_true': 0}
        for c, o in pairs:
            d[c['kind']] += 1
            if c['kind'] == 'silent':
                d['silent_true'] += int(o)
                continue
            if c['kind'] == 'validate':
                k = o['out'][1] if o['out'][0] == 'err' else 'ok_warn_%d%d' % (o['out'][1], o['out'][2])
                d['validate_outcomes'][k] = d['validate_outcomes'].get(k, 0) + 1
                continue
            d['images' if c['images'] else 'sources'] += 1
            d['rank%d' % c['rank']] += 1
            d['cp_true'] += int(c['cp'])
            if c['rank'] >= 2 and len(c['ref']) == 2:
                d['nsrc2'] += 1
            ob = o['obs']
            if ob[0] == 'exc':
                d['exc'][ob[1]] = d['exc'].get(ob[1], 0) + 1
                continue
            tables = ob[1]
            if not tables or not tables[0]:
                d['empty_ok'] += 1
                continue
            ncol = len(tables[0][0])
            # which path was taken is decided from the recorded inputs, not from the model
            n = _nsampl(c['ref'], c['rank'])
            nat = 0
            while c['hop'] > 0 and nat * c['hop'] + c['window'] <= n:
                nat += 1
            if nat < 2:
                d['fallback_lt2'] += 1
            else:
                d['windows>=2'] += 1
                for k in range(ncol):
                    col_nan = all(isinstance(t[0][k], float) and math.isnan(t[0][k]) for t in tables)
                    if col_nan:
                        d['nan_columns'] += 1
                    else:
                        d['computed_columns'] += 1
        return d


UNIT = U()
