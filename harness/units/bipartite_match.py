"""util._bipartite_match vs ME.Model.Matching.bipartite_match: the *same dict in the same order*."""
import itertools
from lib import core


class U(core.Unit):
    name = 'bipartite_match'
    requires = ['ME.Model.Dict', 'ME.Model.Matching']
    mirrors = [('mir_eval/util.py', '_bipartite_match')]
    counts = {'quick': 1500, 'thorough': 20000}
    shard = 700
    header = '''
Definition eqnn (a b : nat * nat) : bool := Nat.eqb (fst a) (fst b) && Nat.eqb (snd a) (snd b).
Definition check_case (c : graph * option matching) : bool :=
  opt_eqb (list_eqb eqnn) (bipartite_match (fst c)) (snd c).
Open Scope nat_scope.
'''

    def exhaustive(self, tier):
        # all graphs up to 3x3 (quick) / 3x4 (thorough), two adjacency orders each
        out = []
        maxu, maxv = (3, 3) if tier == 'quick' else (3, 4)
        for nu in range(0, maxu + 1):
            for nv in range(0, maxv + 1):
                for bits in range(1 << (nu * nv)):
                    for rev in (False, True):
                        g = []
                        for u in range(nu):
                            vs = [v for v in range(nv) if bits >> (u * nv + v) & 1]
                            if rev:
                                vs = vs[::-1]
                            if vs:
                                g.append([u, vs])
                        if rev:
                            g = g[::-1]
                        out.append(g)
        # many-phase graphs: k disjoint chains whose augmenting paths have the k distinct lengths 3, 5, ..., 2k+1 (greedy leaves one free
        # vertex per chain); Hopcroft-Karp needs one phase per length, so k phases on k(k+3)/2 left vertices
        for k in (2, 3, 4, 5, 6, 7, 8, 9):
            out.append(self.chains(list(range(1, k + 1))))
            out.append(self.chains(list(range(k, 0, -1))))
        out.append(self.chains([3, 3, 5, 5, 7, 7, 2, 2]))
        # de-duplicate
        seen, res = set(), []
        for g in out:
            k = repr(g)
            if k not in seen:
                seen.add(k)
                res.append(g)
        return res

    @staticmethod
    def chains(ms, rng=None):
        """disjoint chains; chain with parameter m has left a_0..a_m, right b_0..b_m, a_i: [b_{i+1}, b_i] (i < m), a_m: [b_m]: greedy
        (in key order) matches a_i - b_{i+1} and leaves a_m and b_0 free; the only augmenting path has 2m+1 edges"""
        g, base = [], 0
        for m in ms:
            for i in range(m + 1):
                vs = [base + i + 1, base + i] if i < m else [base + m]
                g.append([base + i, vs])
            base += m + 1
        if rng is not None and rng.random() < 0.5:
            # interleave the chains (keeps the order inside each chain, hence what greedy does)
            per, base = [], 0
            for m in ms:
                per.append([x for x in g if base <= x[0] <= base + m])
                base += m + 1
            g = []
            while any(per):
                c = rng.choice([c for c in per if c])
                g.append(c.pop(0))
        return g

    def gen(self, rng, n):
        cases = []
        for t in range(n):
            kind = rng.random()
            if kind < 0.04:
                k = rng.randint(2, 8)
                ms = [rng.randint(1, 8) for _ in range(k)] if rng.random() < 0.5 else rng.sample(range(1, 10), k)
                cases.append(self.chains(ms, rng))
                continue
            if kind < 0.08:        # larger random graphs
                nu, nv = rng.randint(10, 30), rng.randint(10, 30)
                dens = rng.choice([0.05, 0.1, 0.2])
                g = []
                for u in range(nu):
                    vs = [v for v in range(nv) if rng.random() < dens]
                    rng.shuffle(vs)
                    if vs:
                        g.append([u, vs])
                cases.append(g)
                continue
            kind = rng.random()
            nu = rng.randint(0, 9)
            nv = rng.randint(0, 9)
            g = []
            us = list(range(nu))
            rng.shuffle(us)
            if kind < 0.5:
                dens = rng.choice([0.15, 0.3, 0.5, 0.8])
                for u in us:
                    vs = [v for v in range(nv) if rng.random() < dens]
                    rng.shuffle(vs)
                    if vs or rng.random() < 0.3:
                        g.append([u, vs])
            elif kind < 0.8:
                # alternating-path rich: a path / comb where greedy goes wrong
                k = rng.randint(1, 8)
                for u in range(k):
                    vs = [u] + ([u + 1] if u + 1 <= k else [])
                    if rng.random() < 0.5:
                        vs = vs[::-1]
                    if rng.random() < 0.2:
                        vs.append(rng.randint(0, k))
                    g.append([u, list(dict.fromkeys(vs))])
                if rng.random() < 0.7:
                    g = g[::-1]
                if rng.random() < 0.3:
                    rng.shuffle(g)
            else:
                # near-perfect matching minus an edge, plus noise
                k = rng.randint(2, 8)
                perm = list(range(k))
                rng.shuffle(perm)
                for u in range(k):
                    vs = {perm[u]}
                    for _ in range(rng.randint(0, 2)):
                        vs.add(rng.randint(0, k - 1))
                    vs = list(vs)
                    rng.shuffle(vs)
                    g.append([u, vs])
                rng.shuffle(g)
                if g and rng.random() < 0.5:
                    g[0][1] = g[0][1][:1]
            cases.append(g)
        return cases

    def run(self, case):
        from mir_eval import util
        g = {u: list(vs) for u, vs in case}
        tag, val = core.call_impl(util._bipartite_match, g)
        if tag == 'ok':
            return ['ok', [[int(v), int(u)] for v, u in val.items()]]
        return ['exc', val]

    def emit(self, case, out):
        g = core.cq_list(['(%d,%s)' % (u, core.cq_list([str(v) for v in vs])) for u, vs in case])
        if out[0] == 'ok':
            m = '(Some %s)' % core.cq_list(['(%d,%d)' % (v, u) for v, u in out[1]])
        else:
            m = 'None'
        return '(%s,%s)' % (g, m)

    def nontrivial(self, case, out):
        return out[0] == 'ok' and len(out[1]) >= 2

    def shrink(self, case):
        for i in range(len(case)):
            yield case[:i] + case[i + 1:]
        for i in range(len(case)):
            u, vs = case[i]
            for j in range(len(vs)):
                yield case[:i] + [[u, vs[:j] + vs[j + 1:]]] + case[i + 1:]

    def distribution(self, pairs):
        sizes = {}
        for c, o in pairs:
            k = 'edges<=%d' % (4 * ((sum(len(vs) for _, vs in c) + 3) // 4))
            sizes[k] = sizes.get(k, 0) + 1
        return sizes


UNIT = U()
