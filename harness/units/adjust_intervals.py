"""util.adjust_intervals / util.adjust_events vs ME.Model.Intervals: same rows (exact), same labels, same exception class.

Times are drawn from the lattices 1/4 ... 1/64 (all NumPy operations involved -- comparisons, maximum, minimum, min,
max -- are exact there); t_min / t_max are copied from an existing boundary in more than 40 % of the cases, lie inside
an interval, in a gap, beyond either end, or are None.  Labels are the integers 1..n (the implementation treats them
as opaque objects); the fill labels are 100 / 200 (for adjust_events the strings '__T_MIN' / '__T_MAX' are mapped to
100 / 200 when the outcome is recorded)."""
from lib import core

START, END = 100, 200


def q(x):
    return core.cq_Q(x)


def gen_intervals(rng, den):
    """valid, possibly non-contiguous, time-ordered intervals on the lattice 1/den"""
    n = rng.choice([0, 1, 1, 2, 2, 3, 3, 4, 5, 6])
    if n == 0:
        return []
    hi = 10 * den
    if rng.random() < 0.5:
        b = sorted(rng.sample(range(0, hi), n + 1))
        return [[b[i] / den, b[i + 1] / den] for i in range(n)]
    pts = sorted(rng.sample(range(0, hi), 2 * n))
    ivs = []
    for i in range(n):
        ivs.append([pts[2 * i] / den, pts[2 * i + 1] / den])
    # make some neighbours touch
    for i in range(n - 1):
        if rng.random() < 0.3:
            ivs[i][1] = ivs[i + 1][0]
    return ivs


def malform(rng, ivs, den):
    ivs = [list(v) for v in ivs]
    k = rng.random()
    if not ivs:
        return ivs
    if k < 0.3:
        rng.shuffle(ivs)
    elif k < 0.5:
        i = rng.randrange(len(ivs))
        ivs[i] = [ivs[i][1], ivs[i][0]]
    elif k < 0.7:
        i = rng.randrange(len(ivs))
        ivs[i] = [ivs[i][0], ivs[i][0]]
    elif k < 0.85:
        i = rng.randrange(len(ivs))
        ivs[i][1] = ivs[i][1] + rng.randrange(1, 4 * den) / den   # overlap with the successors
    else:
        ivs = [[-a, -b] if rng.random() < 0.5 else [a, b] for a, b in ivs]
    return ivs


def pick_bound(rng, pool, den):
    r = rng.random()
    if r < 0.12:
        return None
    if r < 0.62 and pool:
        return rng.choice(pool)
    if r < 0.72 and pool:
        return rng.choice(pool) + rng.choice([-1, 1]) / den
    return rng.randrange(-2 * den, 12 * den) / den


class U(core.Unit):
    name = 'adjust_intervals'
    requires = ['ME.Model.Prelude', 'ME.Model.Intervals']
    mirrors = [('mir_eval/util.py', 'adjust_intervals'), ('mir_eval/util.py', 'adjust_events')]
    counts = {'quick': 2400, 'thorough': 24000}
    shard = 400
    header = '''
Open Scope Q_scope.
Definition ivs_eqb := list_eqb (pair_eqb Qeqb Qeqb).
Definition labs_eqb := opt_eqb (list_eqb Nat.eqb).
Inductive case :=
| CI (ivs : list (Q * Q)) (labs : option (list nat)) (tmin tmax : option Q) (out : res (list (Q * Q) * option (list nat)))
| CE (ev : list Q) (labs : option (list nat)) (tmin tmax : option Q) (out : res (list Q * option (list nat))).
Definition check_case (c : case) : bool :=
  match c with
  | CI i l a b o => res_eqb (pair_eqb ivs_eqb labs_eqb) (adjust_intervals 100%nat 200%nat i l a b) o
  | CE e l a b o => res_eqb (pair_eqb (list_eqb Qeqb) labs_eqb) (adjust_events 100%nat 200%nat e l a b) o
  end.
'''

    # ---------------------------------------------------------------------------------------
    def exhaustive(self, tier):
        out = []
        # every relative position of t_min / t_max w.r.t. a two-interval annotation with and without a gap
        for ivs in ([[1.0, 2.0], [2.0, 3.0]], [[1.0, 2.0], [3.0, 4.0]], [[1.0, 2.0]], []):
            pts = [None] + [x / 2 for x in range(0, 10)]
            for a in pts:
                for b in pts:
                    for lab in (True, False):
                        out.append({'fn': 'iv', 'x': ivs, 'lab': lab, 'a': a, 'b': b})
        for ev in ([1.0, 2.0, 3.0], [2.0], []):
            pts = [None] + [x / 2 for x in range(0, 8)]
            for a in pts:
                for b in pts:
                    for lab in (True, False):
                        out.append({'fn': 'ev', 'x': ev, 'lab': lab, 'a': a, 'b': b})
        return out

    def gen(self, rng, n):
        cases = []
        for t in range(n):
            den = rng.choice([4, 8, 16, 32, 64])
            lab = rng.random() < 0.75
            if rng.random() < 0.72:
                ivs = gen_intervals(rng, den)
                if rng.random() < 0.12:
                    ivs = malform(rng, ivs, den)
                pool = [x for v in ivs for x in v]
                a, b = pick_bound(rng, pool, den), pick_bound(rng, pool, den)
                if a is not None and b is not None and a > b and rng.random() < 0.85:
                    a, b = b, a
                cases.append({'fn': 'iv', 'x': ivs, 'lab': lab, 'a': a, 'b': b})
            else:
                k = rng.choice([0, 1, 2, 3, 4, 6])
                ev = sorted(rng.sample(range(0, 10 * den), k))
                ev = [e / den for e in ev]
                if rng.random() < 0.1 and ev:
                    rng.shuffle(ev)
                if rng.random() < 0.1 and len(ev) > 1:
                    ev[1] = ev[0]
                a, b = pick_bound(rng, ev, den), pick_bound(rng, ev, den)
                if a is not None and b is not None and a > b and rng.random() < 0.85:
                    a, b = b, a
                cases.append({'fn': 'ev', 'x': ev, 'lab': lab, 'a': a, 'b': b})
        return cases

    # ---------------------------------------------------------------------------------------
    def run(self, case):
        import numpy as np
        from mir_eval import util
        n = len(case['x'])
        labels = list(range(1, n + 1)) if case['lab'] else None
        if case['fn'] == 'iv':
            arr = np.array(case['x'], dtype=float).reshape(-1, 2)
            tag, val = core.call_impl(util.adjust_intervals, arr, labels, case['a'], case['b'], START, END)
            if tag == 'exc':
                return ['exc', val]
            oi, ol = val
            return ['ok', [[float(r[0]), float(r[1])] for r in np.asarray(oi, dtype=float)],
                    None if ol is None else [int(x) for x in ol]]
        arr = np.array(case['x'], dtype=float)
        tag, val = core.call_impl(util.adjust_events, arr, labels, case['a'], case['b'])
        if tag == 'exc':
            return ['exc', val]
        oe, ol = val
        m = {'__T_MIN': START, '__T_MAX': END}
        return ['ok', [float(e) for e in oe], None if ol is None else [m.get(x, x) for x in ol]]

    def emit(self, case, out):
        n = len(case['x'])
        labs = core.cq_opt(list(range(1, n + 1)) if case['lab'] else None,
                           lambda l: core.cq_list([str(x) for x in l]) + '%nat')
        a = core.cq_opt(case['a'], q)
        b = core.cq_opt(case['b'], q)

        def olabs(ol):
            return core.cq_opt(ol, lambda l: core.cq_list([str(x) for x in l]) + '%nat')
        if case['fn'] == 'iv':
            x = core.cq_list(['(%s,%s)' % (q(u), q(v)) for u, v in case['x']])
            if out[0] == 'ok':
                o = '(Ok (%s,%s))' % (core.cq_list(['(%s,%s)' % (q(u), q(v)) for u, v in out[1]]), olabs(out[2]))
            else:
                o = '(Raise %s)' % core.cq_exn(out[1])
            return '(CI %s %s %s %s %s)' % (x, labs, a, b, o)
        x = core.cq_list([q(e) for e in case['x']])
        if out[0] == 'ok':
            o = '(Ok (%s,%s))' % (core.cq_list([q(e) for e in out[1]]), olabs(out[2]))
        else:
            o = '(Raise %s)' % core.cq_exn(out[1])
        return '(CE %s %s %s %s %s)' % (x, labs, a, b, o)

    def nontrivial(self, case, out):
        return out[0] == 'ok' and len(case['x']) >= 1 and (case['a'] is not None or case['b'] is not None)

    def shrink(self, case):
        x = case['x']
        for i in range(len(x)):
            c = dict(case)
            c['x'] = x[:i] + x[i + 1:]
            yield c
        for k in ('a', 'b'):
            if case[k] is not None:
                c = dict(case)
                c[k] = None
                yield c
        if case['lab']:
            c = dict(case)
            c['lab'] = False
            yield c

    def distribution(self, pairs):
        d = {}

        def inc(k):
            d[k] = d.get(k, 0) + 1
        for c, o in pairs:
            inc('fn=' + c['fn'])
            inc('n=%d' % min(len(c['x']), 5))
            inc('labelled' if c['lab'] else 'unlabelled')
            flatx = [x for v in c['x'] for x in v] if c['fn'] == 'iv' else list(c['x'])
            for k in ('a', 'b'):
                if c[k] is None:
                    inc(k + '=None')
                elif c[k] in flatx:
                    inc(k + ' on a boundary')
            if c['a'] in flatx or c['b'] in flatx:
                inc('t_min or t_max on a boundary')
            if o[0] == 'exc':
                inc('raises ' + o[1])
            elif c['fn'] == 'iv':
                if any(r[0] == r[1] for r in o[1]):
                    inc('iv: zero-duration row in the output')
                if o[2] is not None and START in o[2]:
                    inc('iv: start fill')
                if o[2] is not None and END in o[2]:
                    inc('iv: end fill')
                if len(o[1]) < len(c['x']):
                    inc('iv: rows cropped')
            else:
                if o[2] is not None and (START in o[2] or END in o[2]):
                    inc('ev: fill event')
                if len(o[1]) < len(c['x']):
                    inc('ev: events cropped')
        return d


UNIT = U()
