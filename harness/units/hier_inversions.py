"""hierarchy._count_inversions / _compare_frame_rankings vs ME.Model.Hierarchy.count_inversions / compare_frame_rankings
(exact integers: inversions and normalizer)."""
import itertools
from lib import core


def _arr(xs, dtype):
    import numpy as np
    return np.array(xs, dtype=dtype)


class U(core.Unit):
    name = 'hier_inversions'
    requires = ['ME.Model.Prelude', 'ME.Model.Hierarchy']
    mirrors = [('mir_eval/hierarchy.py', '_count_inversions'), ('mir_eval/hierarchy.py', '_compare_frame_rankings')]
    counts = {'quick': 1500, 'thorough': 15000}
    shard = 500
    header = '''
Open Scope nat_scope.
Inductive case :=
| CI (a b : list nat) (out : nat)
| CFR (r e : list nat) (tr : bool) (out : res (nat * nat)).
Definition check_case (c : case) : bool :=
  match c with
  | CI a b o => count_inversions a b =? o
  | CFR r e t o => res_eqb (pair_eqb Nat.eqb Nat.eqb) (compare_frame_rankings r e t) o
  end.
'''

    def exhaustive(self, tier):
        out = []
        # every pair of arrays over {0,1,2} up to length 2 / 3
        k = 2 if tier == 'quick' else 3
        vals = [0, 1, 2]
        arrs = [list(t) for n in range(k + 1) for t in itertools.product(vals, repeat=n)]
        for a in arrs:
            for b in arrs:
                out.append(['ci', a, b, 'int64'])
        # every (ref, est) over ref levels {0,1,3} (a gap: level 2 absent), est over {0,1}, length <= 3
        for n in range(0, 4):
            for r in itertools.product([0, 1, 3], repeat=n):
                for e in itertools.product([0, 1], repeat=n):
                    for tr in (False, True):
                        out.append(['cfr', list(r), list(e), tr, 'uint8'])
        # length mismatches
        for tr in (False, True):
            out.append(['cfr', [0, 1, 2], [1, 0], tr, 'int64'])
            out.append(['cfr', [0, 1], [1, 0, 5, 7], tr, 'int64'])
            out.append(['cfr', [1, 0], [], tr, 'int64'])
            out.append(['cfr', [], [3, 4], tr, 'int64'])
        return out

    def _levels(self, rng, n):
        kind = rng.random()
        if kind < 0.4:       # contiguous levels 0..k (what an LCA row looks like)
            k = rng.randint(0, 4)
            return [rng.randint(0, k) for _ in range(n)]
        if kind < 0.7:       # levels with gaps
            pool = rng.sample(range(0, 9), rng.randint(1, 4))
            return [rng.choice(pool) for _ in range(n)]
        if kind < 0.85:      # constant
            v = rng.randint(0, 4)
            return [v] * n
        return [rng.randint(0, 200) for _ in range(n)]

    def gen(self, rng, n):
        out = []
        for _ in range(n):
            dt = rng.choice(['uint8', 'int64'])
            if rng.random() < 0.35:
                a = self._levels(rng, rng.randint(0, 12))
                b = self._levels(rng, rng.randint(0, 12))
                if rng.random() < 0.3:
                    b = list(a)
                    rng.shuffle(b)
                out.append(['ci', a, b, dt])
            else:
                m = rng.randint(0, 14)
                r = self._levels(rng, m)
                x = rng.random()
                if x < 0.2:
                    e = list(r)                         # identical rankings: no inversion
                elif x < 0.35:
                    e = [max(r) - v for v in r] if r else []   # reversed ranking: everything inverted
                elif x < 0.5:
                    e = [v // 2 for v in r]             # coarser estimate: ties count as inversions
                else:
                    e = self._levels(rng, m)
                if rng.random() < 0.04:                 # malformed: lengths differ
                    if rng.random() < 0.5 and e:
                        e = e[:rng.randint(0, len(e) - 1)]
                    else:
                        e = e + self._levels(rng, rng.randint(1, 3))
                out.append(['cfr', r, e, rng.random() < 0.5, dt])
        return out

    def run(self, case):
        from mir_eval import hierarchy as H
        if case[0] == 'ci':
            _, a, b, dt = case
            t, v = core.call_impl(H._count_inversions, _arr(a, dt), _arr(b, dt))
            return ['ok', int(v)] if t == 'ok' else ['exc', v]
        _, r, e, tr, dt = case
        t, v = core.call_impl(H._compare_frame_rankings, _arr(r, dt), _arr(e, dt), transitive=tr)
        if t != 'ok':
            return ['exc', v]
        inv, norm = v
        if float(norm) != int(norm) or float(inv) != int(inv):
            return ['exc', 'NonInteger']
        return ['ok', [int(inv), int(norm)]]

    def emit(self, case, out):
        nl = lambda xs: core.cq_list([core.cq_nat(x) for x in xs])
        if case[0] == 'ci':
            assert out[0] == 'ok', (case, out)
            return '(CI %s %s %d)' % (nl(case[1]), nl(case[2]), out[1])
        return '(CFR %s %s %s %s)' % (nl(case[1]), nl(case[2]), core.cq_bool(case[3]),
                                      core.cq_res(out, lambda v: '(%d,%d)' % (v[0], v[1])))

    def nontrivial(self, case, out):
        if out[0] != 'ok':
            return False
        return (out[1] > 0) if case[0] == 'ci' else (out[1][1] > 0)

    def shrink(self, case):
        if case[0] == 'ci':
            _, a, b, dt = case
            for i in range(len(a)):
                yield ['ci', a[:i] + a[i + 1:], b, dt]
            for i in range(len(b)):
                yield ['ci', a, b[:i] + b[i + 1:], dt]
        else:
            _, r, e, tr, dt = case
            for i in range(min(len(r), len(e))):
                yield ['cfr', r[:i] + r[i + 1:], e[:i] + e[i + 1:], tr, dt]

    def distribution(self, pairs):
        d = {}

        def inc(k):
            d[k] = d.get(k, 0) + 1
        for c, o in pairs:
            if c[0] == 'ci':
                inc('ci')
                inc('ci inv>0' if o[1] > 0 else 'ci inv=0')
            else:
                inc('cfr transitive' if c[3] else 'cfr reduced')
                if o[0] != 'ok':
                    inc('cfr ' + o[1])
                elif o[1][1] == 0:
                    inc('cfr normalizer=0')
                elif o[1][0] == 0:
                    inc('cfr inv=0<norm')
                elif o[1][0] == o[1][1]:
                    inc('cfr inv=norm')
                else:
                    inc('cfr 0<inv<norm')
                if len(c[1]) != len(c[2]):
                    inc('cfr length mismatch')
                lv = sorted(set(c[1]))
                if any(b - a > 1 for a, b in zip(lv, lv[1:])):
                    inc('cfr ref levels with a gap')
        return d


UNIT = U()
