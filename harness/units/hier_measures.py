"""hierarchy._lca / _meet (exact matrices), tmeasure / lmeasure (score triples, exception classes) vs ME.Model.Hierarchy.

Times lie on the 1/4 lattice and frame sizes are powers of two, so that hierarchy._round is exact; for decimal
frame sizes (0.1, 0.3) the frame indices are taken from the implementation's own quantiser and only the
frame-level constructions lca_frames / meet_frames are compared (kinds 'lcaf' / 'meetf')."""
from lib import core

LABS = ['a', 'A', 'b', 'B', 'c', 'ab', 'Ab', 'aB', 'x1']
FS = [0.25, 0.5, 0.5, 1.0, 1.0, 2.0, 0.125]


def rand_level(rng, T, parent=None, kmin=0, kmax=4, step=0.25):
    cuts = set([0.0, T])
    if parent is not None:
        cuts |= set(parent)
    inner = [k * step for k in range(1, int(T / step)) if k * step not in cuts]
    rng.shuffle(inner)
    cuts |= set(inner[:rng.randint(min(kmin, len(inner)), min(kmax, len(inner)))])
    return sorted(cuts)


def rand_hier(rng, T, levels, nested, step=0.25):
    out, prev = [], None
    for lv in range(levels):
        b = rand_level(rng, T, parent=prev if nested else None, kmin=0 if (lv == 0 or rng.random() < 0.1) else 1, step=step)
        out.append([[s, e] for s, e in zip(b, b[1:])])
        prev = b
    return out


def rand_labels(rng, hier):
    """labels per level; deeper levels use at least two labels that differ after lower-casing, written in random case"""
    base = ['a', 'b', 'c', 'ab', 'x1']
    out = []
    for d, lvl in enumerate(hier):
        pool = rng.sample(base, rng.randint(1, 2) if (d == 0 and len(hier) > 1) else rng.randint(1 if rng.random() < 0.1 else 2, 4))
        labs = []
        for _ in lvl:
            s = rng.choice(pool)
            labs.append(''.join(ch.upper() if rng.random() < 0.3 else ch for ch in s))
        out.append(labs)
    return out


def arrays(hier):
    import numpy as np
    return [np.array(l, dtype=float).reshape(-1, 2) for l in hier]


class U(core.Unit):
    name = 'hier_measures'
    requires = ['ME.Model.Prelude', 'ME.Model.Hierarchy']
    mirrors = [('mir_eval/hierarchy.py', f) for f in
               ['_round', '_hierarchy_bounds', '_lca', '_meet', '_gauc', '_compare_frame_rankings', '_count_inversions',
                'validate_hier_intervals', 'tmeasure', 'lmeasure', 'evaluate', '_align_intervals']] + \
              [('mir_eval/segment.py', 'validate_structure'), ('mir_eval/util.py', 'validate_intervals'),
               ('mir_eval/util.py', 'index_labels'), ('mir_eval/util.py', 'f_measure')]
    counts = {'quick': 600, 'thorough': 5000}
    shard = 150
    header = '''
Open Scope nat_scope.
Inductive case :=
| LCA (H : hier) (fs : Q) (out : res mat)
| MEET (L : lhier) (fs : Q) (out : res mat)
| LCAF (n : nat) (F : list (list (Z * Z))) (out : mat)
| MEETF (n : nat) (F : list (list seg)) (out : mat)
| TM (r e : hier) (tr : bool) (w : option Q) (fs beta : Q) (out : res (Q * Q * Q))
| LM (r e : lhier) (fs beta : Q) (out : res (Q * Q * Q))
(* hierarchy.evaluate on annotations that already start at 0 and end together (so that _align_intervals is the identity, checked by the
   harness): the nine scores are T reduced, T full (both with the window) and L (never windowed), in that order *)
| EV (r e : lhier) (w : option Q) (fs beta : Q) (out : res (list (Q * Q * Q))).
Definition unlabel (L : lhier) : hier := map (map (fun x => (fst (fst x), snd (fst x)))) L.
Definition evaluate_model (r e : lhier) (w : option Q) (fs beta : Q) : res (list (Q * Q * Q)) :=
  a <- tmeasure (unlabel r) (unlabel e) false w fs beta ;;
  b <- tmeasure (unlabel r) (unlabel e) true w fs beta ;;
  c <- lmeasure r e fs beta ;; Ok [a; b; c].
Definition mat_eqb : mat -> mat -> bool := list_eqb (list_eqb Nat.eqb).
Definition close3 (a b : Q * Q * Q) : bool :=
  let '(p, r, f) := a in let '(p', r', f') := b in
  Qclose (1#1000000000)%Q p p' && Qclose (1#1000000000)%Q r r' && Qclose (1#1000000000)%Q f f'.
Definition check_case (c : case) : bool :=
  match c with
  | LCA H fs o => res_eqb mat_eqb (lca H fs) o
  | MEET L fs o => res_eqb mat_eqb (meet L fs) o
  | LCAF n F o => mat_eqb (lca_frames n F) o
  | MEETF n F o => mat_eqb (meet_frames n F) o
  | TM r e tr w fs b o => res_eqb close3 (tmeasure r e tr w fs b) o
  | LM r e fs b o => res_eqb close3 (lmeasure r e fs b) o
  | EV r e w fs b o => res_eqb (list_eqb close3) (evaluate_model r e w fs b) o
  end.
'''

    # ---------------------------------------------------------------------------------------------
    def exhaustive(self, tier):
        out = []
        ref = [[[0, 4.0]], [[0, 2.0], [2.0, 4.0]]]
        est = [[[0, 4.0]], [[0, 1.0], [1.0, 4.0]]]
        three = [[[0, 6.0]], [[0, 3.0], [3.0, 6.0]], [[0, 1.5], [1.5, 3.0], [3.0, 4.25], [4.25, 6.0]]]
        for tr in (False, True):
            # window: None, below frame_size (rejected), == frame_size and < 2 frame_size (one-frame window: scores 0), multiples, huge
            for w in (None, 0.75, 0.984375, 1.0, 1.5, 1.984375, 2.0, 2.5, 3.0, 100.0, 0.0, -1.0):
                out.append(['tm', ref, est, tr, w, 1.0, 1.0])
            for fs in (0.0, -0.5, -1.0):
                for w in (None, 1.0, -2.0):
                    out.append(['tm', ref, est, tr, w, fs, 1.0])
            for fs in (0.25, 0.5, 1.0, 2.0, 4.0, 8.0):
                out.append(['tm', ref, est, tr, None, fs, 1.0])
                out.append(['tm', three, ref[:1] + [[[0, 2.5], [2.5, 6.0]]], tr, 2 * fs, fs, 2.0])
            out.append(['tm', ref, ref, tr, 2.0, 0.5, 1.0])
            out.append(['tm', three, three, tr, None, 0.25, 0.5])
            out.append(['tm', [], est, tr, None, 1.0, 1.0])                 # intervals_hier[0] on an empty list
            out.append(['tm', ref, [], tr, None, 1.0, 1.0])
            out.append(['tm', [[]], [[]], tr, None, 1.0, 1.0])              # a (0, 2) level and nothing else: min() of nothing
            out.append(['tm', [[], [[0, 2.0]]], [[[0, 2.0]]], tr, None, 0.5, 1.0])
            # one level is never inspected by validate_hier_intervals
            out.append(['tm', [[[1.0, 2.0], [2.0, 3.0]]], [[[1.0, 1.5], [1.5, 3.0]]], tr, None, 0.5, 1.0])
            out.append(['tm', [[[0, 2.0], [2.0, 3.0]]], [[[0, 1.5], [1.5, 3.0]]], tr, None, 0.5, 1.0])
            out.append(['tm', [[[0, 3.0]]], [[[0, 2.0]]], tr, None, 0.5, 1.0])   # different spans: shapes differ
            # end times: np.allclose(ref_end, est_end) thresholds (atol 1e-8 + rtol 1e-5 * |est_end|)
            for T in (1.0, 2.0, 4.0):
                for k in (15, 16, 17, 20):
                    d = 2.0 ** -k
                    out.append(['tm', [[[0, T]], [[0, 0.5], [0.5, T + d]]], [[[0, T]], [[0, 0.25], [0.25, T]]], tr, None, 0.25, 1.0])
                    out.append(['tm', [[[0, T + d]], [[0, 0.5], [0.5, T]]], [[[0, T]], [[0, 0.25], [0.25, T]]], tr, None, 0.25, 1.0])
            # start times: np.allclose(start, 0) threshold 1e-8
            for k in (25, 26, 27, 28):
                d = 2.0 ** -k
                out.append(['tm', [[[0, 2.0]], [[d, 1.0], [1.0, 2.0]]], est[:1] and [[[0, 2.0]], [[0, 0.5], [0.5, 2.0]]], tr, None, 0.5, 1.0])
                out.append(['tm', [[[d, 2.0]], [[0, 1.0], [1.0, 2.0]]], [[[0, 2.0]], [[0, 0.5], [0.5, 2.0]]], tr, None, 0.5, 1.0])
            # invalid intervals
            out.append(['tm', [[[0, 2.0]], [[0, 1.0], [1.0, 1.0], [1.0, 2.0]]], [[[0, 2.0]], [[0, 2.0]]], tr, None, 0.5, 1.0])
            out.append(['tm', [[[0, 2.0]], [[-0.5, 1.0], [1.0, 2.0]]], [[[0, 2.0]], [[0, 2.0]]], tr, None, 0.5, 1.0])
            out.append(['tm', [[[0, 2.0]], [[0.5, 1.0], [1.0, 2.0]]], [[[0, 2.0]], [[0, 2.0]]], tr, None, 0.5, 1.0])
            out.append(['tm', [[[0, 2.0]], [[0, 2.0]]], [[[0, 2.0]], [[0, 1.0], [1.0, 2.5]]], tr, None, 0.5, 1.0])
        lr = [['A'], ['a', 'b']]
        le = [['x'], ['a', 'A']]
        for fs in (1.0, 0.5, 0.0, -1.0, 4.0, 8.0):
            out.append(['lm', ref, lr, est, le, fs, 1.0])
            out.append(['lm', ref, lr, ref, lr, fs, 1.0])
        out.append(['lm', three, [['s'], ['a', 'A'], ['x', 'y', 'X', 'z']], three, [['s'], ['a', 'b'], ['x', 'y', 'x', 'y']], 0.25, 2.0])
        out.append(['lm', [], [], est, le, 1.0, 1.0])
        aba = [[[0, 12.0]], [[0, 4.0], [4.0, 8.0], [8.0, 12.0]]]
        for w in (None, 2.0, 4.0, 6.0, 100.0):
            for fs in (1.0, 0.5):
                out.append(['ev', aba, [['s'], ['a', 'b', 'a']], aba[:1] + [[[0, 6.0], [6.0, 12.0]]], [['s'], ['a', 'a']], w, fs, 1.0])
                out.append(['ev', three, [['s'], ['a', 'A'], ['x', 'y', 'X', 'z']], three, [['s'], ['a', 'b'], ['x', 'y', 'x', 'y']], w, fs, 2.0])
        out.append(['lca', [], 0.5])
        out.append(['lca', [[]], 0.5])
        out.append(['lca', [[[1.0, 2.0], [2.0, 3.5]]], 0.5])
        out.append(['lca', [[[-1.0, 0.5], [0.5, 1.5]]], 0.5])
        out.append(['lca', [[[-2.0, -1.0], [-1.0, 1.5]]], 0.5])
        out.append(['lca', three, 0.25])
        out.append(['lca', three, 0.5])
        out.append(['lca', three, 4.0])
        out.append(['meet', [[[0, 1.0], [1.0, 2.0], [2.0, 3.0]]], [['a', 'B', 'A']], 1.0])
        out.append(['meet', [[[0, 1.0], [1.0, 2.0], [2.0, 3.0]]], [['a', 'B', 'A']], 0.5])
        out.append(['meet', three, [['s'], ['a', 'A'], ['x', 'y', 'X', 'z']], 0.75])
        out.append(['lcaf', three, 0.1])
        out.append(['lcaf', three, 0.3])
        out.append(['meetf', three, [['s'], ['a', 'A'], ['x', 'y', 'X', 'z']], 0.3])
        return out

    def gen(self, rng, n):
        out = []
        for _ in range(n):
            kind = rng.random()
            fs = rng.choice(FS)
            if rng.random() < 0.1:
                T = rng.choice([0.25, 0.5, 1.0, 1.5, 2.0])               # few (0, 1, 2, ...) frames
            else:
                T = fs * rng.randint(3, 14) + rng.choice([0.0, 0.0, 0.0, 0.125, 0.25])   # 3..14 frames, span not always a whole frame
            mk = lambda: rand_hier(rng, T, rng.randint(1, 4), rng.random() < 0.6)
            if kind < 0.12:
                out.append(['lca', mk(), fs])
            elif kind < 0.24:
                h = mk()
                out.append(['meet', h, rand_labels(rng, h), fs])
            elif kind < 0.30:
                out.append(['lcaf', mk(), rng.choice([0.1, 0.3, 0.2, 0.7])])
            elif kind < 0.36:
                h = mk()
                out.append(['meetf', h, rand_labels(rng, h), rng.choice([0.1, 0.3, 0.2, 0.7])])
            elif kind < 0.76:
                r, e = mk(), mk()
                if rng.random() < 0.1:
                    e = [list(map(list, l)) for l in r]
                x = rng.random()
                if x < 0.25:
                    w = None
                elif x < 0.6:
                    w = fs * rng.randint(2, 6)                      # whole number of frames
                elif x < 0.8:
                    w = fs * rng.randint(2, 6) + rng.choice([0.0625, 0.03125]) * rng.randint(1, 3)   # _round(window) matters
                elif x < 0.86:
                    w = fs * rng.choice([1.0, 1.25, 1.5, 1.75])     # one-frame window
                elif x < 0.93:
                    w = fs * rng.choice([0.5, 0.75, 0.875, 0.0, -1.0])   # rejected
                else:
                    w = 50.0
                # malformed stream
                y = rng.random()
                if y < 0.03:
                    fs = rng.choice([0.0, -0.25, -1.0])
                elif y < 0.06 and len(e) > 1:
                    e[-1][-1][1] += rng.choice([0.25, -0.125])      # level with another end time
                elif y < 0.09 and len(r) > 1:
                    r[-1][0][0] = 0.25                              # level not starting at 0
                elif y < 0.11:
                    T2 = T + rng.choice([0.25, 1.0])
                    e = rand_hier(rng, T2, rng.randint(1, 3), True)  # different span: shapes differ
                elif y < 0.13 and len(r) > 1:
                    k = rng.randrange(len(r[-1]))
                    r[-1][k][1] = r[-1][k][0]                       # empty segment
                out.append(['tm', r, e, rng.random() < 0.5, w, fs, rng.choice([1.0, 1.0, 0.5, 2.0])])
            else:
                r, e = mk(), mk()
                if rng.random() < 0.1:
                    e = [list(map(list, l)) for l in r]
                lr, le = rand_labels(rng, r), rand_labels(rng, e)
                if rng.random() < 0.1 and len(e) == len(r) and all(len(a) == len(b) for a, b in zip(r, e)):
                    le = lr
                y = rng.random()
                if y < 0.04:
                    fs = rng.choice([0.0, -0.5])
                elif y < 0.08 and len(e) > 1:
                    e[-1][-1][1] += 0.25
                out.append(['lm', r, lr, e, le, fs, rng.choice([1.0, 1.0, 0.5, 2.0])])
                if fs > 0 and rng.random() < 0.5:
                    # the same annotations through evaluate(), with a window for the T-measures (the L-measure has none)
                    w = rng.choice([None, fs * rng.randint(2, 6), fs * rng.randint(2, 4) + 0.0625, 1000.0])
                    out.append(['ev', r, lr, e, le, w, fs, rng.choice([1.0, 0.5, 2.0])])
        return out

    # ---------------------------------------------------------------------------------------------
    @staticmethod
    def _frames(hier, fs):
        """(n, frame intervals) exactly as _lca / _meet compute them"""
        import numpy as np
        from mir_eval import hierarchy as H
        fs = float(fs)
        n_start, n_end = H._hierarchy_bounds(arrays(hier))
        n = int((H._round(n_end, fs) - H._round(n_start, fs)) / fs)
        fr = [[[int(a), int(b)] for a, b in (H._round(np.asarray(l, dtype=float).reshape(-1, 2), fs) / fs).astype(int)] for l in hier]
        return n, fr

    def run(self, case):
        from mir_eval import hierarchy as H
        k = case[0]
        if k in ('lca', 'lcaf'):
            t, v = core.call_impl(H._lca, arrays(case[1]), case[2])
            if t != 'ok':
                return ['exc', v]
            M = [[int(x) for x in row] for row in v.toarray()]
            if k == 'lcaf':
                n, fr = self._frames(case[1], case[2])
                return ['ok', M, n, fr]
            return ['ok', M]
        if k in ('meet', 'meetf'):
            t, v = core.call_impl(H._meet, arrays(case[1]), case[2], case[3])
            if t != 'ok':
                return ['exc', v]
            M = [[int(x) for x in row] for row in v.toarray()]
            if k == 'meetf':
                n, fr = self._frames(case[1], case[3])
                return ['ok', M, n, fr]
            return ['ok', M]
        if k == 'ev':
            _, r, lr, e, le, w, fs, beta = case
            # evaluate() first re-aligns both annotations; the model is stated for annotations on which that is the identity
            try:
                _, t_end = H._hierarchy_bounds(arrays(r))
                ra, rla = H._align_intervals(arrays(r), lr, t_min=0.0, t_max=None)
                ea, ela = H._align_intervals(arrays(e), le, t_min=0.0, t_max=t_end)
                same = all(len(a) == len(b) and (not len(b) or float(abs(a - b).max()) == 0.0) for a, b in zip(list(ra) + list(ea), arrays(r) + arrays(e))) \
                    and [list(x) for x in rla] == [list(x) for x in lr] and [list(x) for x in ela] == [list(x) for x in le]
            except Exception:  # noqa
                same = False
            if not same:
                return ['skip']
            t, v = core.call_impl(H.evaluate, arrays(r), lr, arrays(e), le, window=w, frame_size=fs, beta=beta)
            if t != 'ok':
                return ['exc', v]
            g = lambda s: [float(v['T-Precision ' + s]), float(v['T-Recall ' + s]), float(v['T-Measure ' + s])]
            return ['ok', [g('reduced'), g('full'), [float(v['L-Precision']), float(v['L-Recall']), float(v['L-Measure'])]]]
        if k == 'tm':
            _, r, e, tr, w, fs, beta = case
            t, v = core.call_impl(H.tmeasure, arrays(r), arrays(e), transitive=tr, window=w, frame_size=fs, beta=beta)
        else:
            _, r, lr, e, le, fs, beta = case
            t, v = core.call_impl(H.lmeasure, arrays(r), lr, arrays(e), le, frame_size=fs, beta=beta)
        if t != 'ok':
            return ['exc', v]
        return ['ok', [float(x) for x in v]]

    def emit(self, case, out):
        Q = core.cq_Q
        k = case[0]
        hier = lambda h: core.cq_list([core.cq_list(['(%s,%s)' % (Q(s), Q(e)) for s, e in l]) for l in h])
        lhier = lambda h, L: core.cq_list([core.cq_list(['(%s,%s,%s)' % (Q(s), Q(e), core.cq_str(lab)) for (s, e), lab in zip(l, labs)])
                                           for l, labs in zip(h, L)])
        mat = lambda M: core.cq_list([core.cq_list([core.cq_nat(x) for x in row]) for row in M])
        trip = lambda v: '(%s,%s,%s)' % (Q(v[0]), Q(v[1]), Q(v[2]))
        if k == 'lca':
            return '(LCA %s %s %s)' % (hier(case[1]), Q(case[2]), core.cq_res(out, mat))
        if k == 'meet':
            return '(MEET %s %s %s)' % (lhier(case[1], case[2]), Q(case[3]), core.cq_res(out, mat))
        if k == 'lcaf':
            assert out[0] == 'ok'
            F = core.cq_list([core.cq_list(['(%s,%s)%%Z' % (core.cq_Z(a), core.cq_Z(b)) for a, b in l]) for l in out[3]])
            return '(LCAF %d %s %s)' % (out[2], F, mat(out[1]))
        if k == 'meetf':
            assert out[0] == 'ok'
            F = core.cq_list([core.cq_list(['((%s,%s)%%Z,%s)' % (core.cq_Z(a), core.cq_Z(b), core.cq_str(lab)) for (a, b), lab in zip(l, labs)])
                              for l, labs in zip(out[3], case[2])])
            return '(MEETF %d %s %s)' % (out[2], F, mat(out[1]))
        if k == 'ev':
            _, r, lr, e, le, w, fs, beta = case
            if out[0] == 'skip':      # re-alignment is not the identity here: emit a trivially true case (not counted as non-trivial)
                return '(LCAF 0 [] [])'
            return '(EV %s %s %s %s %s %s)' % (lhier(r, lr), lhier(e, le), core.cq_opt(w, Q), Q(fs), Q(beta),
                                              core.cq_res(out, lambda v: core.cq_list([trip(x) for x in v])))
        if k == 'tm':
            _, r, e, tr, w, fs, beta = case
            return '(TM %s %s %s %s %s %s %s)' % (hier(r), hier(e), core.cq_bool(tr), core.cq_opt(w, Q), Q(fs), Q(beta),
                                                core.cq_res(out, trip))
        _, r, lr, e, le, fs, beta = case
        return '(LM %s %s %s %s %s)' % (lhier(r, lr), lhier(e, le), Q(fs), Q(beta), core.cq_res(out, trip))

    def nontrivial(self, case, out):
        if out[0] != 'ok':
            return False
        if case[0] == 'ev':
            return out[0] == 'ok' and 0.0 < out[1][2][2] < 1.0
        if case[0] in ('tm', 'lm'):
            return 0.0 < out[1][2] < 1.0
        return len(set(x for row in out[1] for x in row)) >= 2

    def shrink(self, case):
        k = case[0]
        if k in ('tm', 'lm', 'ev'):
            ri, ei = (1, 2) if k == 'tm' else (1, 3)
            for pos in (ri, ei):
                h = case[pos]
                if len(h) > 1:
                    for d in range(len(h)):
                        c = list(case)
                        c[pos] = h[:d] + h[d + 1:]
                        if k in ('lm', 'ev'):
                            c[pos + 1] = case[pos + 1][:d] + case[pos + 1][d + 1:]
                        yield c
        else:
            h = case[1]
            if len(h) > 1:
                for d in range(len(h)):
                    c = list(case)
                    c[1] = h[:d] + h[d + 1:]
                    if k in ('meet', 'meetf'):
                        c[2] = case[2][:d] + case[2][d + 1:]
                    yield c

    def distribution(self, pairs):
        d = {}

        def inc(k):
            d[k] = d.get(k, 0) + 1
        for c, o in pairs:
            k = c[0]
            inc(k)
            if o[0] == 'skip':
                inc(k + ' skipped (re-alignment not the identity)')
                continue
            if o[0] != 'ok':
                inc(k + ' ' + o[1])
            elif k in ('tm', 'lm'):
                f = o[1][2]
                inc(k + (' F=0' if f == 0 else ' F=1' if f == 1 else ' 0<F<1'))
            if k == 'tm':
                w, fs = c[4], c[5]
                inc('tm window None' if w is None else 'tm window<fs' if w < fs else 'tm fs<=window<2fs' if w < 2 * fs else 'tm window>=2fs')
                inc('tm levels ref=%d' % len(c[1]))
        return d


UNIT = U()
