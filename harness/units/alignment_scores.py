"""alignment.validate / absolute_error / percentage_correct / percentage_correct_segments (both duration modes) vs
ME.Model.Alignment.

Lattice: timestamps, windows and durations are multiples of 1/4 below 2^10, so every +, -, abs, min, max, comparison
NumPy performs is exact; only the final divisions (mean, / duration) round and are compared with 1e-9. The median
(middle element or half the sum of the two middle elements) is exact. Deviations exactly `window` are constructed;
estimated segments that just touch / just miss the reference segments, durations exactly max(timestamps), identical
reference timestamps (MIREX mode error) and the validator's rejection cases (not an ndarray, ndim != 1, empty, size
mismatch, non-monotone, negative) are constructed."""
from lib import core

WINDOWS = [0.25, 0.5, 0.3, 0.0, 1.0, 0.75, 2.0]


def mk(spec):
    import numpy as np
    kind, data = spec
    if kind == 'l':
        return [float(x) for x in data]
    a = np.array([float(x) for x in data], dtype=float)
    if kind == '2':
        return a.reshape((-1, 1))
    if kind == '0':
        return np.array(float(data[0]))
    return a


def cq_ts(spec):
    kind, data = spec
    if kind == 'l':
        return 'NotArray'
    nd = {'a': 1, '2': 2, '0': 0}[kind]
    return '(Nd %d %s)' % (nd, core.cq_list([core.cq_Q(float(x)) for x in data]))


class U(core.Unit):
    name = 'alignment_scores'
    requires = ['ME.Model.Prelude', 'ME.Model.Alignment']
    mirrors = [('mir_eval/alignment.py', f) for f in ['validate', 'absolute_error', 'percentage_correct',
                                                      'percentage_correct_segments']]
    counts = {'quick': 2000, 'thorough': 20000}
    shard = 400
    header = '''
Open Scope Q_scope.
Definition tolq : Q := 1#1000000000.
Definition rq := res_eqb (Qclose tolq).
Definition rqq := res_eqb (pair_eqb Qeqb (Qclose tolq)).      (* median exact, mean to 1e-9 *)
Definition ru := res_eqb (fun _ _ : unit => true).
Definition lift {A} (r e : tsin) (f : list Q -> list Q -> res A) : res A :=
  match validate_in r e with Ok (rl, el) => f rl el | Raise x => Raise x end.
(* reference, estimate, window, duration; absolute_error, percentage_correct, pcs(None), pcs(duration), validate *)
Definition C (r e : tsin) (w d : Q) (ae : res (Q * Q)) (pc p0 p1 : res Q) (v : res unit) := (r, e, w, d, ae, pc, p0, p1, v).
Definition check_case (c : tsin * tsin * Q * Q * res (Q * Q) * res Q * res Q * res Q * res unit) : bool :=
  let '(r, e, w, d, ae, pc, p0, p1, v) := c in
  rqq (lift r e absolute_error) ae
  && rq (lift r e (fun a b => percentage_correct a b w)) pc
  && rq (lift r e (fun a b => percentage_correct_segments a b None)) p0
  && rq (lift r e (fun a b => percentage_correct_segments a b (Some d))) p1
  && ru (lift r e validate) v.
'''

    def exhaustive(self, tier):
        A = lambda l: ['a', l]
        out = []
        base = [1.0, 2.0, 4.0, 7.0]
        # identical, boundary deviations, touching / disjoint segments
        for w in [0.25, 0.5, 0.3, 0.0]:
            for dur in [7.0, 7.25, 10.0, 6.75, 0.0, -1.0, 8.0]:
                out.append([A(base), A(base), w, dur])
                out.append([A(base), A([x + w for x in base]), w, dur])
                out.append([A(base), A([x + w + 0.25 for x in base]), w, dur])
                out.append([A(base), A([max(0.0, x - w) for x in base]), w, dur])
                out.append([A(base), A([2.0, 4.0, 7.0, 7.0]), w, dur])          # each estimated segment = next reference segment
                out.append([A(base), A([0.0, 0.0, 0.0, 0.0]), w, dur])
                out.append([A(base), A([7.0, 7.0, 7.0, 8.0]), w, dur])
        # sizes 1, 2, 3 and even / odd medians
        out += [[A([3.0]), A([3.0]), 0.25, 5.0], [A([3.0]), A([2.5]), 0.5, 3.0], [A([0.0]), A([0.0]), 0.0, 1.0],
                [A([1.0, 1.0]), A([1.0, 1.0]), 0.25, 2.0], [A([1.0, 2.0]), A([1.5, 1.75]), 0.5, 2.0],
                [A([1.0, 2.0, 3.0]), A([1.25, 2.75, 3.0]), 0.25, 3.0], [A([0.0, 2.0, 2.0, 5.0]), A([0.5, 1.0, 3.0, 5.0]), 0.5, 5.0],
                [A([1.0, 2.0, 3.0, 4.0, 5.0]), A([1.0, 2.5, 3.25, 4.0, 9.0]), 0.3, 9.0]]
        # rejections
        bad = [[['l', base], A(base)], [A(base), ['l', base]], [['2', base], A(base)], [A(base), ['2', base]],
               [['0', [1.0]], A([1.0])], [A([1.0]), ['0', [1.0]]], [A([]), A([])], [A([]), A(base)], [A(base), A([])],
               [A(base), A(base[:-1])], [A(base[:-1]), A(base)], [A([1.0, 3.0, 2.0]), A([1.0, 2.0, 3.0])],
               [A([1.0, 2.0, 3.0]), A([1.0, 3.0, 2.0])], [A([-1.0, 2.0, 3.0]), A([1.0, 2.0, 3.0])],
               [A([1.0, 2.0, 3.0]), A([-0.25, 2.0, 3.0])], [A([2.0, 2.0, 2.0]), A([1.0, 2.0, 3.0])],
               [A([2.0, 2.0, 2.0]), A([2.0, 2.0, 2.0])], [['l', []], ['l', []]], [['2', []], A([])]]
        for r, e in bad:
            out.append([r, e, 0.25, 10.0])
        return out

    def gen(self, rng, n):
        out = []
        for _ in range(n):
            k = rng.choice([1, 2, 2, 3, 3, 4, 5, 6, 8, 10])
            w = rng.choice(WINDOWS)
            t = 0.25 * rng.randint(0, 40)
            ref = []
            for _ in range(k):
                ref.append(t)
                t += rng.choice([0.0, 0.25, 0.5, 1.0, 1.0, 2.0, 3.5, 0.25 * rng.randint(0, 40)])
            mode = rng.random()
            if mode < 0.1:
                est = list(ref)
            else:
                est = []
                for i, x in enumerate(ref):
                    d = rng.choice([0.0, 0.0, w, -w, w + 0.25, -(w + 0.25), max(0.0, w - 0.25), 0.25 * rng.randint(-12, 12)])
                    if mode > 0.8 and i + 1 < len(ref):
                        d = rng.choice([ref[i + 1] - x, (ref[i + 1] - x) / 2.0, d])      # segment-boundary cases
                    y = max(0.0, x + d)
                    y = float(int(y * 64)) / 64.0
                    est.append(y)
                if rng.random() < 0.93:
                    est.sort()
            top = max(ref + est) if ref + est else 0.0
            dur = rng.choice([top, top, top + 0.25, top + 4.0, top - 0.25, max(ref), 0.25 * rng.randint(0, 400), 0.0, -2.0])
            r, e = ['a', ref], ['a', est]
            q = rng.random()
            if q < 0.02:
                e = ['a', est[:-1]]
            elif q < 0.03:
                r = ['a', [-x for x in ref]]
            elif q < 0.04:
                e = ['a', [x - 1.0 for x in est]]
            elif q < 0.05:
                r = [rng.choice(['l', '2']), ref]
            elif q < 0.06:
                e = [rng.choice(['l', '2']), est]
            elif q < 0.08:
                r = ['a', [ref[0]] * len(ref)]
            out.append([r, e, w, dur])
        return out

    def run(self, case):
        from mir_eval import alignment as A
        rs, es, w, dur = case
        r, e = mk(rs), mk(es)
        t, v = core.call_impl(A.absolute_error, r, e)
        ae = ['ok', [float(v[0]), float(v[1])]] if t == 'ok' else ['exc', v]
        t, v = core.call_impl(A.percentage_correct, r, e, window=w)
        pc = ['ok', float(v)] if t == 'ok' else ['exc', v]
        t, v = core.call_impl(A.percentage_correct_segments, r, e)
        p0 = ['ok', float(v)] if t == 'ok' else ['exc', v]
        t, v = core.call_impl(A.percentage_correct_segments, r, e, duration=dur)
        p1 = ['ok', float(v)] if t == 'ok' else ['exc', v]
        t, v = core.call_impl(A.validate, r, e)
        va = ['ok', None] if t == 'ok' else ['exc', v]
        return [ae, pc, p0, p1, va]

    def emit(self, case, out):
        rs, es, w, dur = case
        ae, pc, p0, p1, va = out
        return '(C %s %s %s %s %s %s %s %s %s)' % (
            cq_ts(rs), cq_ts(es), core.cq_Q(w), core.cq_Q(float(dur)),
            core.cq_res(ae, lambda v: '(%s,%s)' % (core.cq_Q(v[0]), core.cq_Q(v[1]))),
            core.cq_res(pc, core.cq_Q), core.cq_res(p0, core.cq_Q), core.cq_res(p1, core.cq_Q),
            core.cq_res(va, lambda _: 'tt'))

    def nontrivial(self, case, out):
        return out[1][0] == 'ok' and 0.0 < out[1][1]

    def shrink(self, case):
        rs, es, w, dur = case
        if rs[0] == 'a' and es[0] == 'a' and len(rs[1]) == len(es[1]):
            for i in range(len(rs[1])):
                yield [['a', rs[1][:i] + rs[1][i + 1:]], ['a', es[1][:i] + es[1][i + 1:]], w, dur]

    def distribution(self, pairs):
        d = {}

        def add(k):
            d[k] = d.get(k, 0) + 1
        for c, o in pairs:
            ae, pc, p0, p1, va = o
            add('validate:' + ('ok' if va[0] == 'ok' else va[1]))
            if va[0] == 'ok':
                add('pcs(None):' + ('raise' if p0[0] != 'ok' else '1' if p0[1] == 1.0 else '0' if p0[1] == 0.0 else 'mid'))
                add('pcs(dur):' + ('raise' if p1[0] != 'ok' else '1' if p1[1] == 1.0 else '0' if p1[1] == 0.0 else 'mid'))
                add('pc:' + ('1' if pc[1] == 1.0 else '0' if pc[1] == 0.0 else 'mid'))
                rs, es, w, dur = c
                if any(abs(a - b) == w for a, b in zip(rs[1], es[1])):
                    add('a deviation == window')
                add('n even' if len(rs[1]) % 2 == 0 else 'n odd')
        return d


UNIT = U()
