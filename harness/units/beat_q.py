"""beat.trim_beats, _get_reference_beat_variations, goto, p_score, continuity (+ the warnings of validate and of the
"only one beat" tests) and the exact skeleton of cemgil vs ME.Model.Beat.

What is compared inside Coq (vm_compute):
  * trim_beats, the five metrical variations, the per-variation nearest-estimate distances of cemgil: exactly (Qeq);
  * goto: exactly (0 or 1, or the exception class); warnings: exactly;
  * p_score and the four continuity scores: Qclose (1#1000000000) (one float division each).
What is NOT a Coq comparison: cemgil's float scores.  The distances `np.min(np.abs(beat - estimated_beats))` are
observed by running the real cemgil with `mir_eval.beat.np` temporarily replaced by a recording proxy (every attribute
is NumPy's; `min` also records its result) and compared exactly with the model's skeleton inside Coq; the two float
scores are then compared IN PYTHON with  sum(math.exp(-d^2/(2 sigma^2))) / (0.5 (|est| + |variation|))  computed
from those same distances (tolerance 1e-9).  The outcome of this numeric test is passed to Coq as a boolean that
check_case requires to be true; it is a numeric test, not a proof-level comparison.

Lattice: beat times are k/64 (|t| <= 30000); the interpolated double-tempo beats are then k/128 and every +, -, *0.5,
comparison, ceil(t*100) NumPy performs is exact.  Float divisions happen in goto (offset/interval), continuity
(phase, period) and in the mean/std of goto's track; thresholds are passed to the model as the exact value of the
float.  Two streams:
  * exact stream: reference intervals are powers of two (so every quotient is exact) and thresholds are dyadic; values
    exactly on the thresholds (|beat_error| == goto_threshold, phase == threshold, period == threshold,
    thr*median == k + 1/2, bin distance == win) are constructed deliberately;
  * float stream: arbitrary lattice intervals and the float defaults 0.35/0.2/0.2, 0.2, 0.175/0.175.  A case is
    dropped (and counted) when perturbing any threshold (one at a time, and all of one function together) by
    +-(1e-9 relative + 1e-12) changes an output or an internal array (incorrect beats of goto, beat_successes of
    continuity) of the real code, i.e. when some computed quantity is within rounding distance of a threshold (in
    the exact stream this filter is applied to goto_mu / goto_sigma only, whose statistics are not exact, and to
    continuity when the reference intervals are irregular).
p_score builds two impulse trains of 100 samples per second and a full cross-correlation (quadratic), so it is run
only when the beats span <= 40 s (it re-bases at the minimum, so absolute times may be large)."""
import math
import warnings
from fractions import Fraction
from lib import core

DEN = 64
WARN = [('Reference beats are empty', 'W_ref_empty'), ('Estimated beats are empty', 'W_est_empty'),
        ('Only one reference beat', 'W_ref_one'), ('Only one estimated beat', 'W_est_one'), ('bins parameter is even', 'W_bins_even')]
DEFAULTS = {'gthr': 0.35, 'gmu': 0.2, 'gsig': 0.2, 'pthr': 0.2, 'cph': 0.175, 'cpe': 0.175, 'csig': 0.04, 'min': 5.0}
PSCORE_SPAN = 40.0


def warn_tag(msg):
    for pre, tag in WARN:
        if msg.startswith(pre):
            return tag
    return None


class _Rec:
    """NumPy with a few functions recording their results (used only to observe internal values)."""

    def __init__(self, names):
        import numpy
        self._np = numpy
        self.rec = {n: [] for n in names}

    def __getattr__(self, k):
        f = getattr(self._np, k)
        if k in self.rec:
            def g(*a, **kw):
                with warnings.catch_warnings():
                    warnings.simplefilter('ignore')
                    v = f(*a, **kw)
                self.rec[k].append(v)
                return v
            return g
        return f


def call_w(fn, *args, record=(), **kw):
    """-> (['ok', value] | ['exc', name], [warning tags], recorded)"""
    from mir_eval import beat as B
    import numpy
    proxy = _Rec(record)
    if record:
        B.np = proxy
    try:
        with warnings.catch_warnings(record=True) as rec:
            warnings.simplefilter('always')
            try:
                out = ['ok', fn(*args, **kw)]
            except Exception as e:  # noqa
                out = ['exc', type(e).__name__]
    finally:
        B.np = numpy
    tags = [warn_tag(str(w.message)) for w in rec]
    return out, [t for t in tags if t], proxy.rec


def arr(l):
    import numpy as np
    return np.array(l, dtype=float)


def fl(x):
    return float(x)


def run_goto(case, **over):
    from mir_eval import beat as B
    p = dict(case, **over)
    return call_w(B.goto, arr(case['ref']), arr(case['est']), goto_threshold=p['gthr'], goto_mu=p['gmu'], goto_sigma=p['gsig'],
                  record=('flatnonzero', 'mean', 'abs'))


def run_pscore(case, **over):
    from mir_eval import beat as B
    p = dict(case, **over)
    return call_w(B.p_score, arr(case['ref']), arr(case['est']), p_score_threshold=p['pthr'], record=('round',))


def run_cont(case, **over):
    from mir_eval import beat as B
    p = dict(case, **over)
    return call_w(B.continuity, arr(case['ref']), arr(case['est']), continuity_phase_threshold=p['cph'],
                  continuity_period_threshold=p['cpe'], record=('append',))


def invalid(case):
    return any(x > 30000.0 for x in case['ref'] + case['est']) or any(
        l[i + 1] < l[i] for l in (case['ref'], case['est']) for i in range(len(l) - 1))


def span_ok(case):
    a = case['ref'] + case['est']
    return bool(a) and max(a) - min(a) <= PSCORE_SPAN and all(abs(x) <= 40000 for x in a)


def norm_out(o):
    if o[0] != 'ok':
        return o
    v = o[1]
    if isinstance(v, tuple):
        return ['ok', [fl(x) for x in v]]
    return ['ok', fl(v)]


def fragile(case):
    """True when a threshold perturbation changes an output of the real code."""
    def pert(x):
        d = 1e-9 * abs(x) + 1e-12
        return [x - d, x + d]
    # the internal arrays are compared too (incorrect beats of goto, beat_successes of every metrical variation)
    def gobs(r):
        return (norm_out(r[0]), [[int(i) for i in a] for a in r[2]['flatnonzero'][:1]])

    def cobs(r):
        return (norm_out(r[0]), [[bool(x) for x in a] for a in r[2]['append']])
    keys_g = ['gmu', 'gsig'] if case.get('exact') else ['gthr', 'gmu', 'gsig']
    base = gobs(run_goto(case))
    for k in keys_g:
        for v in pert(case[k]):
            if gobs(run_goto(case, **{k: v})) != base:
                return True
    for side in (0, 1):                       # two quantities exactly on two thresholds: perturb them together
        if gobs(run_goto(case, **{k: pert(case[k])[side] for k in keys_g})) != base:
            return True
    if not (case.get('exact') and case.get('regular')):
        base = cobs(run_cont(case))
        for k in ['cph', 'cpe']:
            for v in pert(case[k]):
                if cobs(run_cont(case, **{k: v})) != base:
                    return True
        for side in (0, 1):
            if cobs(run_cont(case, cph=pert(case['cph'])[side], cpe=pert(case['cpe'])[side])) != base:
                return True
    if case.get('exact'):
        return False
    if span_ok(case):
        base = norm_out(run_pscore(case)[0])
        for v in pert(case['pthr']):
            if norm_out(run_pscore(case, pthr=v)[0]) != base:
                return True
    return False


def L(ks):
    return [k / DEN for k in ks]


class U(core.Unit):
    name = 'beat_q'
    requires = ['ME.Model.Prelude', 'ME.Model.Beat']
    mirrors = [('mir_eval/beat.py', f) for f in ['trim_beats', 'validate', '_get_reference_beat_variations', 'cemgil', 'goto',
                                                 'p_score', 'continuity', 'MAX_TIME']] + [('mir_eval/util.py', 'validate_events')]
    counts = {'quick': 1800, 'thorough': 20000}
    shard = 150
    header = '''
From Coq Require Import Qabs.
Open Scope Q_scope.
Definition tolq : Q := 1#1000000000.
Definition ql := list_eqb Qeqb.
Definition qll := list_eqb ql.
Definition q4close (a b : Q * Q * Q * Q) : bool :=
  let '(a1, a2, a3, a4) := a in let '(b1, b2, b3, b4) := b in
  Qclose tolq a1 b1 && Qclose tolq a2 b2 && Qclose tolq a3 b3 && Qclose tolq a4 b4.
Definition wl := list_eqb bwarn_eqb.
Record bcase := mk {
  ref : list Q; est : list Q; mint : Q; gthr : Q; gmu : Q; gsig : Q; pthr : Q; cph : Q; cpe : Q;
  o_trim : list Q; o_vars : res (list (list Q)); o_goto : res Q; o_ps : option (res Q); o_cont : res (Q * Q * Q * Q);
  o_cem : res (option (list (list Q))); o_cem_numeric : bool; w_val : list bwarn; w_int : list bwarn;
  o_gabs : option (list Q); o_succ : option (list (list bool)) }.
(* internal arrays: |beat_error| of goto; beat_successes (one array per metrical variation) of continuity *)
Definition cont_succ (var est : list Q) (pth qth : Q) : list bool :=
  match var with
  | v0 :: vt => cont_loop v0 vt pth qth None est [] ++ repeat false (Nat.max (List.length var) (List.length est) - List.length est)
  | [] => [] end.
Definition check_case (c : bcase) : bool :=
  ql (trim_beats (ref c) (mint c)) (o_trim c)
  && res_eqb qll (Ok (variations (ref c))) (o_vars c)
  && res_eqb Qeqb (goto (ref c) (est c) (gthr c) (gmu c) (gsig c)) (o_goto c)
  && match o_ps c with Some o => res_eqb (Qclose tolq) (p_score (ref c) (est c) (pthr c)) o | None => true end
  && res_eqb q4close (continuity (ref c) (est c) (cph c) (cpe c)) (o_cont c)
  && res_eqb (opt_eqb qll) (cemgil_dists (ref c) (est c)) (o_cem c) && o_cem_numeric c
  && wl (validate_warns (ref c) (est c)) (w_val c) && wl (interval_warns (ref c) (est c)) (w_int c)
  && match o_gabs c with Some a => list_eqb (Qclose tolq) (map Qabs (goto_beat_errors (ref c) (est c))) a | None => true end
  && match o_succ c with
     | Some ss => list_eqb (list_eqb Bool.eqb) (map (fun v => cont_succ v (est c) (cph c) (cpe c)) (variations (ref c))) ss
     | None => true end.
'''

    def __init__(self):
        self.dropped_fragile = 0

    # ------------------------------------------------------------------ cases
    def C(self, ref, est, exact=False, regular=True, **kw):
        c = dict(DEFAULTS)
        c.update({'ref': [float(x) for x in ref], 'est': [float(x) for x in est], 'exact': bool(exact), 'regular': bool(regular)})
        c.update(kw)
        return c

    def exhaustive(self, tier):
        C = self.C
        out = []
        per = L(range(320, 320 + 64 * 8, 64))                 # 5, 6, ..., 12
        # early returns / tiny inputs / malformed
        for r, e in [([], []), ([5.0], []), ([], [5.0]), ([5.0], [5.0]), ([5.0, 6.0], [5.0]), ([5.0], [5.0, 6.0]),
                     ([5.0, 6.0], [5.0, 6.0]), ([5.0, 6.0, 7.0], [5.0, 6.0, 7.0]), ([5.0, 6.0, 7.0, 8.0], [5.0, 6.0, 7.0, 8.0]),
                     (per[:5], per[:5]), (per, per), ([6.0, 5.0], [5.0, 6.0]), ([5.0, 6.0], [6.0, 5.0]), ([30000.0, 30000.015625], [5.0, 6.0]),
                     ([29999.0, 30000.0], [29999.0, 30000.0]), ([5.0, 5.0], [5.0, 6.0]), ([5.0, 6.0], [5.0, 5.0]), ([5.0, 5.0], [5.0, 5.0]),
                     ([5.0, 5.0, 5.0, 5.0], [5.0]), ([5.0, 5.0, 6.0, 6.0, 7.0, 7.0], [5.0, 5.0, 6.0, 6.0, 7.0, 7.0]),
                     ([-3.0, -2.0, -1.0, 0.0, 1.0], [-3.0, -2.0, -1.0, 0.0, 1.0]), ([0.0, 0.0625, 1.0, 1.0625, 2.0], [0.0, 0.0625, 1.0, 1.0625, 2.0])]:
            out.append(C(r, e))
            out.append(C(r, e, exact=True, gthr=0.375, gmu=0.25, gsig=0.25, pthr=0.25, cph=0.1875, cpe=0.1875))
        # the literal-separation counterexample of the conditional P-score bound (times on a 1/1024 lattice; exact in floats)
        out.append(C([x / 1024.0 for x in [1127, 1332, 2151, 2356, 3175]],
                     [x / 1024.0 for x in [0, 1025, 1230, 1435, 2049, 2254, 2459, 3073, 3278]]))
        # goto: one interior error exactly at / next to the threshold 0.375 (interval 1, half interval 0.5)
        for d in [0.1875, 0.171875, 0.203125, -0.1875, -0.203125, 0.0, 0.5, -0.5, 0.484375, -0.515625]:
            e = list(per)
            e[3] = per[3] + d
            out.append(C(per, e, exact=True, gthr=0.375, gmu=0.25, gsig=0.25, pthr=0.25, cph=0.1875, cpe=0.1875))
        # goto: mean / std exactly on mu / sigma (track = beat_error[1:6] of 8 beats)
        for ds, mu, sg in [([-0.125, 0.0, 0.125, 0.0, 0.0, 0.0], 0.25, 0.25), ([0.125, 0.125, 0.125, 0.125, 0.125, 0.0], 0.25, 0.25),
                           ([-0.125, 0.0, 0.125, 0.0, 0.0, 0.0], 0.25, 0.125), ([0.125, 0.125, 0.125, 0.125, 0.125, 0.0], 0.125, 0.25),
                           ([0.125, -0.125, 0.125, -0.125, 0.0, 0.0], 0.25, 0.28125), ([0.0, 0.0, 0.0, 0.0, 0.0, 0.0], 0.0, 0.25),
                           ([0.0, 0.0, 0.0, 0.0, 0.0, 0.0], 0.25, 0.0), ([0.0, 0.0, 0.0, 0.0, 0.0, 0.0], 0.25, -0.25)]:
            e = [per[0]] + [per[i + 1] + ds[i] for i in range(6)] + [per[7]]
            out.append(C(per, e, exact=True, gthr=0.375, gmu=mu, gsig=sg, pthr=0.25, cph=0.1875, cpe=0.1875))
        # goto: an extra estimate exactly on a window boundary (midpoint of two reference beats): it belongs to the later
        # window only; with mu = 0.25 the track [1,0*7,1] (mean 2/9) passes and the score is 1
        l16 = L(range(320, 320 + 64 * 16, 64))
        for mid in [12.5, 6.5, 18.5, 5.5]:
            out.append(C(l16, sorted(l16 + [mid]), exact=True, gthr=0.375, gmu=0.25, gsig=0.5, pthr=0.25, cph=0.1875, cpe=0.1875))
            out.append(C(l16, sorted([x for x in l16 if x != mid + 0.5] + [mid]), exact=True, gthr=0.375, gmu=0.25, gsig=0.5, pthr=0.25,
                         cph=0.1875, cpe=0.1875))
        # goto threshold >= 1 (IndexError), negative threshold, several incorrect beats (track branch)
        for thr in [1.0, 2.0, -1.0, 0.0, 0.984375]:
            out.append(C(per, per, exact=True, gthr=thr, gmu=0.25, gsig=0.25, pthr=0.25, cph=0.1875, cpe=0.1875))
        lng = L(range(320, 320 + 64 * 16, 64))
        for bad in [(3,), (3, 4), (2, 9), (1, 5, 9, 13), (4, 5, 6), (7,), (2, 12)]:
            e = [x for i, x in enumerate(lng) if i not in bad]
            out.append(C(lng, e, exact=True, gthr=0.375, gmu=0.25, gsig=0.25, pthr=0.25, cph=0.1875, cpe=0.1875))
            out.append(C(lng, e))
        # p_score: thr * median on half integers (median 50, 54, 52.5, 2) and wrap-around windows
        for pthr in [0.25, 0.125, 0.5, 0.75, 1.0, 2.0, 3.0, 8.0, -0.25, 0.0]:
            out.append(C([5.0, 5.5, 6.0, 6.5, 7.0], [5.0, 5.5, 6.0, 6.5, 7.0], exact=True, gthr=0.375, gmu=0.25, gsig=0.25, pthr=pthr,
                         cph=0.1875, cpe=0.1875))
            out.append(C([5.0, 5.546875, 6.0, 6.546875, 7.0], [5.125, 5.5, 6.125, 6.5], exact=True, gthr=0.375, gmu=0.25, gsig=0.25,
                         pthr=pthr, cph=0.1875, cpe=0.1875))
            out.append(C([5.0, 5.015625, 5.03125], [5.0, 5.015625, 5.03125, 5.046875], exact=True, gthr=0.375, gmu=0.25, gsig=0.25,
                         pthr=pthr, cph=0.1875, cpe=0.1875))
        # continuity: phase / period exactly at 0.1875 (interval 1): 0.1875 = 12/64
        for d in [0.1875, 0.171875, 0.203125, -0.1875, -0.171875]:
            e = [x + d for x in per]
            out.append(C(per, e, exact=True, gthr=0.375, gmu=0.25, gsig=0.25, pthr=0.25, cph=0.1875, cpe=0.1875))
            e = list(per)
            e[4] = per[4] + d                      # period of beat 4 and 5 changes by d
            out.append(C(per, e, exact=True, gthr=0.375, gmu=0.25, gsig=0.25, pthr=0.25, cph=0.25, cpe=0.1875))
        # continuity with zero reference intervals and thresholds above 1 (phase = 1, period = 0 branch)
        for r, e in [([5.0, 5.0], [5.0, 5.0]), ([5.0, 5.0, 5.0], [5.0, 5.0]), ([5.0, 5.0], [5.0, 5.0, 6.0]), ([5.0, 6.0], [5.5, 5.5]),
                     ([5.0, 6.0], [5.0, 5.0, 6.0, 6.0]), ([5.0, 5.0, 6.0, 6.0], [5.0, 6.0])]:
            out.append(C(r, e, exact=True, gthr=0.375, gmu=0.25, gsig=0.25, pthr=0.25, cph=1.5, cpe=0.5))
            out.append(C(r, e, exact=True, gthr=0.375, gmu=0.25, gsig=0.25, pthr=0.25, cph=1.0, cpe=0.0))
        return out

    def gen_one(self, rng):
        C = self.C
        exact = rng.random() < 0.45
        n = rng.choice([2, 3, 4, 5, 5, 6, 7, 8, 8, 10, 12, 16, 20, 24])
        base = rng.choice([0, 320, 320, 333, 64 * 100 + 7, 64 * 20000 + 11, 64 * 29900, -64 * 3])
        regular = True
        if exact:
            ivs = [rng.choice([16, 32, 32, 64, 64, 128])] * n
            if rng.random() < 0.3:
                ivs = [rng.choice([16, 32, 64, 128]) for _ in range(n)]
                regular = False
        else:
            p = rng.choice([20, 24, 30, 32, 40, 45, 50, 64, 77, 96])
            j = rng.choice([0, 0, 1, 3])
            ivs = [max(1, p + rng.randint(-j, j)) for _ in range(n)]
            if rng.random() < 0.15:
                ivs = [rng.randint(1, 100) for _ in range(n)]
            if rng.random() < 0.1:                               # some very close beats (window overlaps in p_score)
                for _ in range(rng.randint(1, 4)):
                    ivs[rng.randrange(n)] = rng.randint(1, 6)
        ref = [base]
        for iv in ivs[:n - 1]:
            ref.append(ref[-1] + iv)
        if rng.random() < 0.12:                                  # duplicates (validate allows them)
            for _ in range(rng.randint(1, 3)):
                ref.append(rng.choice(ref))
            ref.sort()
        # estimate
        k = rng.random()
        style = ('jitter' if k < 0.34 else 'double' if k < 0.44 else 'half' if k < 0.54 else 'offbeat' if k < 0.62 else
                 'self' if k < 0.68 else 'holes' if k < 0.80 else 'mid' if k < 0.87 else 'random' if k < 0.94 else 'shifted')
        half_iv = lambda i: (ivs[min(i, len(ivs) - 1)])
        jit = rng.choice([0, 1, 2, 4, 8])
        if style in ('jitter', 'holes'):
            est = []
            for i, r in enumerate(ref):
                t = rng.random()
                iv = half_iv(i)
                if t < 0.45:
                    d = rng.randint(-jit, jit)
                elif t < 0.6:
                    d = 0
                elif t < 0.8:                                    # on a threshold of the exact stream / near one otherwise
                    d = rng.choice([1, -1]) * rng.choice([3 * iv // 16, 3 * iv // 16 + 1, 3 * iv // 16 - 1, 3 * iv // 32, iv // 2, iv // 2 - 1, iv // 2 + 1, iv // 4])
                else:
                    d = rng.randint(-iv, iv)
                est.append(r + d)
            if style == 'holes':
                for _ in range(rng.randint(1, max(1, len(est) // 3))):
                    if len(est) > 1:
                        est.pop(rng.randrange(len(est)))
                for _ in range(rng.randint(0, 2)):
                    est.append(rng.randint(ref[0] - 10, ref[-1] + 10))
            est.sort()
        elif style == 'double':
            est = []
            for i in range(len(ref) - 1):
                est += [ref[i], (ref[i] + ref[i + 1]) // 2 + rng.randint(-jit, jit)]
            est.append(ref[-1])
            est.sort()
        elif style == 'half':
            est = [r + rng.randint(-jit, jit) for r in ref[rng.randint(0, 1)::2]]
            est.sort()
        elif style == 'offbeat':
            est = sorted((ref[i] + ref[i + 1]) // 2 + rng.randint(-jit, jit) for i in range(len(ref) - 1))
        elif style == 'self':
            est = list(ref)
        elif style == 'mid':                                       # the reference plus estimates exactly on window boundaries
            est = [r + rng.choice([0, 0, 0, 1, -1]) * rng.randint(0, jit) for r in ref]
            for _ in range(rng.randint(1, 3)):
                i = rng.randrange(max(1, len(ref) - 1))
                if i + 1 < len(ref) and (ref[i] + ref[i + 1]) % 2 == 0:
                    est.append((ref[i] + ref[i + 1]) // 2)
            est.sort()
        elif style == 'shifted':
            d = rng.choice([1, 2, 3, 6, 12, 16, 32])
            est = [r + d for r in ref]
        else:
            m = rng.choice([1, 2, 3, 5, 8, 13])
            est = sorted(rng.randint(ref[0] - 20, ref[-1] + 20) for _ in range(m))
        if rng.random() < 0.06 and est:
            est.append(rng.choice(est))
            est.sort()
        s = rng.random()
        if s < 0.04:                                             # tiny inputs
            ref = ref[:rng.choice([0, 1, 1, 2])]
        elif s < 0.08:
            est = est[:rng.choice([0, 1, 1, 2])]
        elif s < 0.10 and len(ref) > 1:                          # malformed
            i = rng.randrange(len(ref) - 1)
            ref[i], ref[i + 1] = ref[i + 1] + 1, ref[i]
        elif s < 0.12 and len(est) > 1:
            i = rng.randrange(len(est) - 1)
            est[i], est[i + 1] = est[i + 1] + 1, est[i]
        elif s < 0.135:
            (ref if rng.random() < 0.5 else est).append(64 * 30000 + rng.choice([0, 1, 64]))
        kw = {}
        if exact:
            kw = {'gthr': rng.choice([0.375, 0.375, 0.25, 0.5, 0.125, 1.0, -0.5]), 'gmu': rng.choice([0.25, 0.25, 0.125, 0.5]),
                  'gsig': rng.choice([0.25, 0.25, 0.125, 0.5, 0.0]), 'pthr': rng.choice([0.25, 0.25, 0.125, 0.5, 1.0, 2.0, 4.0, 0.0, -0.25]),
                  'cph': rng.choice([0.1875, 0.1875, 0.25, 0.125, 0.5, 1.5]), 'cpe': rng.choice([0.1875, 0.1875, 0.25, 0.125, 0.5, 0.0])}
        elif rng.random() < 0.25:
            kw = {'gthr': rng.choice([0.35, 0.3, 0.45, 0.2]), 'gmu': rng.choice([0.2, 0.1, 0.3]), 'gsig': rng.choice([0.2, 0.1, 0.3]),
                  'pthr': rng.choice([0.2, 0.1, 0.3, 0.15]), 'cph': rng.choice([0.175, 0.1, 0.3]), 'cpe': rng.choice([0.175, 0.1, 0.3])}
        kw['min'] = rng.choice([5.0, 5.0, 0.0, ref[len(ref) // 2] / DEN if ref else 1.0, (est[0] / DEN + 0.015625) if est else 2.0])
        kw['csig'] = rng.choice([0.04, 0.04, 0.1, 0.02])
        return C(L(ref), L(est), exact=exact, regular=regular, **kw)

    def gen(self, rng, n):
        out = []
        tries = 0
        while len(out) < n and tries < 20 * n:
            tries += 1
            c = self.gen_one(rng)
            if fragile(c):
                self.dropped_fragile += 1
                continue
            out.append(c)
        return out

    # ------------------------------------------------------------------ implementation
    def run(self, case):
        from mir_eval import beat as B
        import numpy
        ref, est = arr(case['ref']), arr(case['est'])
        o = {}
        o['trim'] = [fl(x) for x in B.trim_beats(ref, case['min'])]
        v = core.call_impl(B._get_reference_beat_variations, ref)
        o['vars'] = ['ok', [[fl(x) for x in a] for a in v[1]]] if v[0] == 'ok' else ['exc', v[1]]
        g, gw, grec = run_goto(case)
        o['goto'] = norm_out(g)
        o['g_inc'] = len(grec['flatnonzero'][0]) if grec['flatnonzero'] else None
        o['g_track'] = bool(grec['mean'])
        # |beat_error| as passed to np.flatnonzero(np.abs(beat_error) > goto_threshold): the first np.abs of full length
        o['g_abs'] = None
        if g[0] == 'ok' or g[1] == 'IndexError':
            for a in grec['abs']:
                if getattr(a, 'shape', None) == (len(case['ref']),):
                    o['g_abs'] = [fl(x) for x in a]
                    break
        if span_ok(case) or invalid(case) or not (len(case['ref']) > 1 and len(case['est']) > 1):
            p, pw, prec = run_pscore(case)
            o['ps'] = norm_out(p)
            o['ps_win'] = fl(prec['round'][0]) if prec['round'] and math.isfinite(prec['round'][0]) else None
        else:
            p, pw = None, None
            o['ps'] = None
            o['ps_win'] = None
        c, cw, crec = run_cont(case)
        o['cont'] = norm_out(c)
        # beat_successes per variation: np.append(np.append(0, beat_successes), 0) without the two added zeros
        o['succ'] = None
        if c[0] == 'ok' and len(crec['append']) == 10:
            o['succ'] = [[bool(x) for x in a[1:-1]] for a in crec['append'][1::2]]
        # cemgil: skeleton distances observed through the recording proxy, numeric test of the float scores
        m, mw, mrec = call_w(B.cemgil, ref, est, cemgil_sigma=case['csig'], record=('min',))
        if m[0] != 'ok':
            o['cem'] = ['exc', m[1]]
            o['cem_num'] = True
        elif len(case['ref']) == 0 or len(case['est']) == 0:
            o['cem'] = ['ok', None]
            o['cem_num'] = (fl(m[1][0]) == 0.0 and fl(m[1][1]) == 0.0)
        else:
            ds = [fl(x) for x in mrec['min']]
            nr = len(case['ref'])
            lens = [nr, nr - 1, 2 * nr - 1, (nr + 1) // 2, nr // 2]
            assert sum(lens) == len(ds), (lens, len(ds))
            parts, i = [], 0
            for ln in lens:
                parts.append(ds[i:i + ln])
                i += ln
            o['cem'] = ['ok', parts]
            sg = case['csig']
            accs = [sum(math.exp(-(d ** 2) / (2.0 * sg ** 2)) for d in part) / (0.5 * (len(case['est']) + len(part))) for part in parts]
            o['cem_num'] = abs(accs[0] - fl(m[1][0])) <= 1e-9 and abs(max(accs) - fl(m[1][1])) <= 1e-9
            o['cem_scores'] = [fl(m[1][0]), fl(m[1][1])]
        same_val = (gw == mw)
        same_int = (pw is None or pw == cw)
        o['w_val'] = gw if same_val else ['MISMATCH']
        o['w_int'] = cw if same_int else ['MISMATCH']
        return o

    def emit(self, case, out):
        Q = core.cq_Q
        ql = lambda l: core.cq_list([Q(float(x)) for x in l])
        qll = lambda ll: core.cq_list([ql(l) for l in ll])
        q4 = lambda t: '(%s,%s,%s,%s)' % tuple(Q(x) for x in t)
        ps = 'None' if out['ps'] is None else '(Some %s)' % core.cq_res(out['ps'], Q)
        wl = lambda w: core.cq_list(['W_ref_empty' if t == 'MISMATCH' else t for t in w] * (3 if 'MISMATCH' in w else 1))
        fields = [ql(case['ref']), ql(case['est']), Q(case['min']), Q(case['gthr']), Q(case['gmu']), Q(case['gsig']), Q(case['pthr']),
                  Q(case['cph']), Q(case['cpe']), ql(out['trim']), core.cq_res(out['vars'], qll), core.cq_res(out['goto'], Q), ps,
                  core.cq_res(out['cont'], q4), core.cq_res(out['cem'], lambda v: core.cq_opt(v, qll)), core.cq_bool(out['cem_num']),
                  wl(out['w_val']), wl(out['w_int']),
                  core.cq_opt(out.get('g_abs'), ql),
                  core.cq_opt(out.get('succ'), lambda ss: core.cq_list([core.cq_list([core.cq_bool(b) for b in s]) for s in ss]))]
        return '(mk ' + ' '.join(fields) + ')'

    def nontrivial(self, case, out):
        return out['cont'][0] == 'ok' and 0 < out['cont'][1][3] and out['goto'][0] == 'ok' and out['cem'][0] == 'ok' and out['cem'][1] is not None

    def shrink(self, case):
        for k in ('ref', 'est'):
            for i in range(len(case[k])):
                c = dict(case)
                c[k] = case[k][:i] + case[k][i + 1:]
                if not fragile(c):            # never shrink into a float-rounding hazard
                    yield c

    def describe(self, case, out):
        return {'case': case, 'impl': {k: out[k] for k in out if k not in ('cem', 'vars', 'trim', 'succ', 'g_abs')}}

    def distribution(self, pairs):
        d = {'dropped_fragile(float-rounding near a threshold)': self.dropped_fragile}

        def inc(k):
            d[k] = d.get(k, 0) + 1
        for c, o in pairs:
            nr, ne = len(c['ref']), len(c['est'])
            inc('exact_stream' if c['exact'] else 'float_stream')
            inc('ref:%s' % ('0' if nr == 0 else '1' if nr == 1 else '2-4' if nr <= 4 else '5-12' if nr <= 12 else '13+'))
            if ne <= 1:
                inc('est:%d' % ne)
            if len(set(c['ref'])) < nr:
                inc('ref_duplicates')
            if len(set(c['est'])) < ne:
                inc('est_duplicates')
            if c['ref'] == c['est'] and nr >= 2:
                inc('self')
            inc('goto:' + (o['goto'][1] if o['goto'][0] == 'exc' else str(o['goto'][1])))
            if o['goto'][0] == 'ok' and nr and ne:
                inc('goto_incorrect<3' if (o['g_inc'] is not None and o['g_inc'] < 3) else 'goto_incorrect>=3')
                inc('goto_track_found' if o['g_track'] else 'goto_no_track')
            if o['ps'] is None:
                inc('pscore:skipped(span)')
            elif o['ps'][0] == 'exc':
                inc('pscore:' + o['ps'][1])
            else:
                v = o['ps'][1]
                inc('pscore:0' if v == 0 else 'pscore:(0,1)' if v < 1 else 'pscore:1' if v == 1 else 'pscore:>1')
                if o['ps_win'] is not None:
                    w = o['ps_win']
                    inc('pscore_win:' + ('<0' if w < 0 else '0' if w == 0 else '1-9' if w < 10 else '10-99' if w < 100 else '100+'))
            if o['cont'][0] == 'ok':
                a = o['cont'][1]
                inc('cont:zeros' if max(a) == 0 else 'cont:all1' if min(a) == 1 else 'cont:mixed')
                if a[2] > a[0] or a[3] > a[1]:
                    inc('cont:AML>CML')
                if a[1] > a[0]:
                    inc('cont:total>continuous')
            else:
                inc('cont:' + o['cont'][1])
            if o['cem'][0] == 'ok' and o['cem'][1] is not None:
                s = o.get('cem_scores', [0, 0])
                if s[0] > 1 or s[1] > 1:
                    inc('cemgil>1')
                if s[1] > s[0]:
                    inc('cemgil_max>cemgil')
            elif o['cem'][0] == 'ok':
                inc('cemgil:early_return')
            else:
                inc('cemgil:' + o['cem'][1])
            for w in set(o['w_val'] + o['w_int']):
                inc(w)
        return d


UNIT = U()
