"""tempo.detection / validate / validate_tempi vs ME.Model.Tempo.

EXHAUSTIVE over a small tempo lattice: reference tempi in {0, 64, 128}^2 (powers of two, so that the relative error
|ref - est| / ref is an exact float), estimated tempi in a lattice containing values exactly 1/16 and 1/8 away from the
references, weights {0, 1/4, 1/2, 1}, tol in {0, 1/16, 0.08, 1/8, 1}: the boundary cases (relative error == tol,
est == ref with tol == 0, reference tempo 0) are all in the lattice. Plus the validator's rejection cases (size, inf,
nan, negative, all-zero reference, weight / tol outside [0, 1]) compared by exception class, and a random stream on
non-power-of-two references where cases whose inexact float quotient lies within 1e-9 of tol are dropped."""
import math
from fractions import Fraction
from lib import core

REFS = [0.0, 64.0, 128.0]
ESTS_Q = [0.0, 60.0, 64.0, 68.0, 128.0, 136.0]
ESTS_T = [0.0, 56.0, 60.0, 64.0, 68.0, 72.0, 112.0, 120.0, 128.0, 136.0, 144.0]
WEIGHTS = [0.0, 0.25, 0.5, 1.0]
TOLS = [0.0, 0.0625, 0.08, 0.125, 1.0]


def enc(x):
    """JSON-able tempo value"""
    x = float(x)
    if math.isnan(x):
        return 'nan'
    if math.isinf(x):
        return 'inf' if x > 0 else '-inf'
    return x


def dec(v):
    return float(v)


def cq_x(v):
    if v == 'nan':
        return 'NaN'
    if v == 'inf':
        return 'PInf'
    if v == '-inf':
        return 'NInf'
    return '(Fin %s)' % core.cq_Q(v)


def safe(case):
    """no float rounding can flip `relative_error <= tol`"""
    ref, w, est, tol = case
    try:
        rs = [Fraction(dec(x)) for x in ref]
        es = [Fraction(dec(x)) for x in est]
    except (ValueError, OverflowError):
        return True
    for r in rs:
        if r > 0:
            for e in es:
                exact = abs(r - e) / r
                fl = abs(float(r) - float(e)) / float(r)
                if Fraction(fl) != exact and abs(exact - Fraction(tol)) < Fraction(1, 10 ** 9):
                    return False
    return True


class U(core.Unit):
    name = 'tempo_detection'
    requires = ['ME.Model.Prelude', 'ME.Model.Tempo']
    mirrors = [('mir_eval/tempo.py', f) for f in ['validate_tempi', 'validate', 'detection']]
    counts = {'quick': 1500, 'thorough': 15000}
    shard = 700
    header = '''
Open Scope Q_scope.
Definition out_eqb (a b : Q * bool * bool) : bool :=
  let '(p, o, t) := a in let '(p', o', t') := b in Qeqb p p' && Bool.eqb o o' && Bool.eqb t t'.
Definition vt_eqb := res_eqb (fun _ _ : list Q => true).
(* (reference tempi, weight, estimated tempi, tol, detection outcome, validate_tempi(ref, True), validate_tempi(est, False)) *)
Definition C (r : list xval) (w : Q) (e : list xval) (tol : Q) (o : res (Q * bool * bool)) (vr ve : res (list Q)) :=
  (r, w, e, tol, o, vr, ve).
Definition check_case (c : list xval * Q * list xval * Q * res (Q * bool * bool) * res (list Q) * res (list Q)) : bool :=
  let '(r, w, e, tol, out, vr, ve) := c in
  res_eqb out_eqb (detection r w e tol) out && vt_eqb (validate_tempi r true) vr && vt_eqb (validate_tempi e false) ve.
'''

    def exhaustive(self, tier):
        ests = ESTS_T if tier == 'thorough' else ESTS_Q
        out = []
        for r0 in REFS:
            for r1 in REFS:
                for e0 in ests:
                    for e1 in ests:
                        for w in WEIGHTS:
                            for tol in TOLS:
                                out.append([[r0, r1], w, [e0, e1], tol])
        # rejection cases
        good = [64.0, 128.0]
        bad_tempi = [[], [64.0], [64.0, 128.0, 192.0], [-1.0, 64.0], [64.0, -0.25], ['inf', 64.0], [64.0, 'nan'],
                     ['-inf', 64.0], [0.0, 0.0], ['nan', 'nan'], [-64.0, -128.0], [0.0], [0.0, 0.0, 0.0]]
        for b in bad_tempi:
            out.append([b, 0.5, good, 0.08])
            out.append([good, 0.5, b, 0.08])
            out.append([b, 0.5, b, 0.08])
            out.append([b, 1.5, good, 2.0])
        for w in [-0.25, 1.25, -1.0, 2.0, 1.0, 0.0, 1.0 + 2.0 ** -52, -2.0 ** -60]:
            for tol in [-0.5, 1.5, 0.0, 1.0, 0.08, 1.0 + 2.0 ** -52, -2.0 ** -60]:
                out.append([good, w, [60.0, 128.0], tol])
                out.append([[0.0, 0.0], w, [60.0, 128.0], tol])
        # estimates [0, 0] are valid; references with one zero are valid
        out += [[[0.0, 128.0], 0.25, [0.0, 0.0], 1.0], [[64.0, 0.0], 0.25, [0.0, 0.0], 1.0], [[0.0, 128.0], 0.75, [0.0, 128.0], 0.0],
                [[64.0, 0.0], 0.75, [64.0, 0.0], 0.0], [[128.0, 64.0], 0.5, [64.0, 128.0], 0.0]]
        return out

    def gen(self, rng, n):
        out = []
        while len(out) < n:
            r = rng.random()
            if r < 0.5:       # power-of-two references, estimates on a 1/4 grid near the boundaries
                r0, r1 = rng.choice([0.0, 16.0, 32.0, 64.0, 128.0, 256.0]), rng.choice([0.0, 32.0, 64.0, 128.0, 256.0])
                tol = rng.choice([0.0, 0.03125, 0.0625, 0.125, 0.25, 0.5, 1.0, 0.08])

                def near(t):
                    if t == 0 or rng.random() < 0.3:
                        return rng.choice([0.0, 0.25 * rng.randint(0, 1200)])
                    return max(0.0, t + rng.choice([-1, 1]) * t * tol + rng.choice([0.0, 0.0, 0.25, -0.25, 1.0]))
                est = [near(rng.choice([r0, r1])), near(rng.choice([r0, r1]))]
                ref = [r0, r1]
            else:             # general tempi
                ref = [rng.choice([0.0, 0.5 * rng.randint(40, 480)]), 0.5 * rng.randint(40, 480)]
                rng.shuffle(ref)
                tol = rng.choice([0.08, 0.08, 0.04, 0.1, 0.0, 0.5, 1.0, rng.randint(0, 64) / 64.0])
                est = [rng.choice([ref[0], ref[1], 2 * ref[0], ref[1] / 2.0, 0.5 * rng.randint(0, 600),
                                   ref[0] * (1 + rng.choice([-1, 1]) * tol * rng.choice([0.5, 0.9, 1.1, 2.0]))])
                       for _ in range(2)]
                est = [max(0.0, float(x)) for x in est]
            w = rng.choice([0.0, 0.25, 0.5, 1.0, rng.randint(0, 64) / 64.0])
            if rng.random() < 0.04:
                w = rng.choice([-0.25, 1.5])
            if rng.random() < 0.04:
                tol = rng.choice([-0.125, 1.25])
            if rng.random() < 0.04:
                i = rng.randrange(2)
                est[i] = rng.choice([-1.0, 'inf', 'nan'])
            if rng.random() < 0.03:
                ref = rng.choice([[0.0, 0.0], [ref[0]], ref + [100.0], [-ref[0] - 1.0, ref[1]]])
            case = [[enc(x) for x in ref], w, [enc(x) for x in est], tol]
            if safe(case):
                out.append(case)
        return out

    def run(self, case):
        import numpy as np
        from mir_eval import tempo as T
        ref, w, est, tol = case
        r = np.array([dec(x) for x in ref], dtype=float)
        e = np.array([dec(x) for x in est], dtype=float)
        t, v = core.call_impl(T.detection, r, w, e, tol)
        if t == 'ok':
            p, one, both = v
            assert isinstance(one, bool) and isinstance(both, bool)
            det = ['ok', [float(p), one, both]]
        else:
            det = ['exc', v]
        t, v = core.call_impl(T.validate_tempi, r, True)
        vr = ['ok', None] if t == 'ok' else ['exc', v]
        t, v = core.call_impl(T.validate_tempi, e, False)
        ve = ['ok', None] if t == 'ok' else ['exc', v]
        return [det, vr, ve]

    def emit(self, case, out):
        ref, w, est, tol = case
        det, vr, ve = out
        return '(C %s %s %s %s %s %s %s)' % (
            core.cq_list([cq_x(x) for x in ref]), core.cq_Q(w), core.cq_list([cq_x(x) for x in est]), core.cq_Q(tol),
            core.cq_res(det, lambda v: '(%s,%s,%s)' % (core.cq_Q(v[0]), core.cq_bool(v[1]), core.cq_bool(v[2]))),
            core.cq_res(vr, lambda _: '[]'), core.cq_res(ve, lambda _: '[]'))

    def nontrivial(self, case, out):
        return out[0][0] == 'ok' and out[0][1][1]

    def shrink(self, case):
        ref, w, est, tol = case
        for i in range(len(ref)):
            yield [ref[:i] + [0.0] + ref[i + 1:], w, est, tol]
        for i in range(len(est)):
            yield [ref, w, est[:i] + [0.0] + est[i + 1:], tol]
        yield [ref, 0.5, est, tol]

    def distribution(self, pairs):
        d = {}
        for c, o in pairs:
            det = o[0]
            k = 'raise:' + det[1] if det[0] == 'exc' else 'one=%s both=%s' % (det[1][1], det[1][2])
            d[k] = d.get(k, 0) + 1
            if det[0] == 'ok':
                ref, w, est, tol = c
                for r in ref:
                    if r > 0 and any(abs(Fraction(r) - Fraction(dec(e))) == Fraction(tol) * Fraction(r) for e in est):
                        d['relative error == tol'] = d.get('relative error == tol', 0) + 1
                        break
                if 0.0 in ref:
                    d['one reference tempo is 0'] = d.get('one reference tempo is 0', 0) + 1
        return d


UNIT = U()
