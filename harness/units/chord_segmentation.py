"""chord.merge_chord_intervals / directional_hamming_distance / overseg / underseg / seg vs ME.Model.ChordPipeline.

Annotations are drawn on the lattices 1/4 ... 1/64 (sums, differences, comparisons, np.unique are exact there; only the
final division rounds: scores are compared with Qclose 1e-9, merged rows exactly).  Contiguous and gapped annotations,
estimates shorter / longer than the reference, boundaries copied from the other annotation, runs of repeated and of
*equivalent* labels ('C' / 'C:maj' / 'C:maj/1' / 'B#:maj', 'C:9' / 'C:7(9)' which coincide only with
reduce_extended_chords=True), N and X; a malformed stream (invalid labels, label count != row count, overlapping /
unordered / zero-duration / negative rows, empty arrays)."""
import math
from lib import core

# groups of labels with identical encode(label, True)
EQUIV = [
    ['C', 'C:maj', 'C:maj/1', 'B#:maj', 'C:(3,5)', 'Dbb'],
    ['A:min', 'A:min/1', 'A:(b3,5)', 'Bbb:min'],
    ['G:7', 'G:7/1', 'G:maj(b7)'],
    ['C:9', 'C:7(9)', 'C:9/1'],
    ['E:min11', 'E:min7(9,11)'],
    ['N'],
    ['X'],
    ['F#:maj7', 'Gb:maj7'],
    ['C:maj/3', 'C/3'],
    ['C:maj/5', 'C/5'],
    ['D:sus4', 'D:sus4/1'],
    ['C:min', 'C:min/1'],
    ['G', 'G:maj'],
    ['C:maj(9)', 'C:maj(9)/1'],
    ['C:5', 'C:(5)'],
    ['C:1', 'C:(1)'],
]
BAD_LABELS = ['H', 'C:foo', '', 'C:maj(', 'n', 'C:maj/b1x', 'C\n', 'N\n']


def q(x):
    return core.cq_Q(x)


def boundaries(rng, lo, hi, pool, kmax=5):
    k = rng.choice([0, 1, 1, 2, 2, 3, 4, kmax])
    inner = set()
    for _ in range(k):
        if pool and rng.random() < 0.5:
            c = rng.choice(pool)
        else:
            c = rng.randrange(lo, hi + 1)
        if lo < c < hi:
            inner.add(c)
    return [lo] + sorted(inner) + [hi]


def labels_for(rng, n):
    """n labels with runs of equal / equivalent labels"""
    out = []
    grp = rng.choice(EQUIV)
    for i in range(n):
        r = rng.random()
        if i == 0 or r < 0.45:
            grp = rng.choice(EQUIV) if (i == 0 or rng.random() < 0.6) else grp
        # else: stay in the group (an equivalent label)
        out.append(rng.choice(grp) if rng.random() < 0.7 else grp[0])
    return out


def annotation(rng, den, lo, hi, pool, gaps):
    """(intervals, labels, lattice boundaries) of a time-ordered chord annotation from lo/den to hi/den"""
    b = boundaries(rng, lo, hi, pool)
    ivs = [[b[i], b[i + 1]] for i in range(len(b) - 1)]
    if gaps and len(ivs) >= 2:
        for i in range(len(ivs) - 1):
            if rng.random() < 0.4 and ivs[i][1] - ivs[i][0] >= 2:
                ivs[i][1] = rng.randrange(ivs[i][0] + 1, ivs[i][1])
    return [[u / den, v / den] for u, v in ivs], labels_for(rng, len(ivs))


def malform(rng, c, den):
    c = {k: (list(map(list, v)) if k in ('ri', 'ei') else list(v)) for k, v in c.items()}
    side = rng.choice(['r', 'e'])
    iv, lb = side + 'i', side + 'l'
    k = rng.random()
    if k < 0.2 and c[lb]:
        c[lb][rng.randrange(len(c[lb]))] = rng.choice(BAD_LABELS)
    elif k < 0.3:
        c[lb] = c[lb][:-1] if rng.random() < 0.6 else c[lb] + ['C']
    elif k < 0.4:
        c[lb] = []
    elif k < 0.5:
        c[iv], c[lb] = [], []
    elif k < 0.6 and len(c[iv]) >= 2:
        rng.shuffle(c[iv])
    elif k < 0.7 and c[iv]:
        i = rng.randrange(len(c[iv]))
        c[iv][i][1] = c[iv][i][1] + rng.randrange(1, 3 * den) / den        # overlaps its successors / longer end
    elif k < 0.8 and c[iv]:
        i = rng.randrange(len(c[iv]))
        c[iv][i] = [c[iv][i][0], c[iv][i][0]]                               # zero duration
    elif k < 0.9 and c[iv]:
        i = rng.randrange(len(c[iv]))
        c[iv][i] = [c[iv][i][1], c[iv][i][0]]                               # inverted
    elif c[iv]:
        c[iv] = [[a - 4.0, b - 4.0] for a, b in c[iv]]                      # negative times
    return c


def gen_case(rng, malformed=0.1):
    den = rng.choice([4, 8, 16, 32, 64])
    lo = rng.randrange(0, 3 * den)
    hi = lo + rng.randrange(1, 8 * den)
    ri, rl = annotation(rng, den, lo, hi, [], rng.random() < 0.3)
    pool = [int(round(v * den)) for r in ri for v in r]
    r = rng.random()
    elo, ehi = lo, hi
    if r < 0.5:
        pass
    elif r < 0.62:
        ehi = hi + rng.randrange(1, 2 * den)          # longer at the end
    elif r < 0.74:
        ehi = max(lo + 1, hi - rng.randrange(1, 2 * den))   # shorter at the end
    elif r < 0.84:
        elo = lo + rng.randrange(1, 2 * den)           # starts later
        ehi = max(ehi, elo + 1)
    elif r < 0.94:
        elo = max(0, lo - rng.randrange(1, 2 * den))  # starts earlier
    else:
        elo = hi + rng.randrange(0, den)               # disjoint: after the reference (or touching it)
        ehi = elo + rng.randrange(1, 2 * den)
    ei, el = annotation(rng, den, elo, ehi, pool, rng.random() < 0.3)
    if rng.random() < 0.15:
        # the estimate repeats the reference labelling on a refinement of the reference boundaries
        ei, el = [], []
        for (a, b), l in zip(ri, rl):
            ia, ib = int(round(a * den)), int(round(b * den))
            cuts = sorted(set([ia, ib] + [rng.randrange(ia, ib + 1) for _ in range(rng.choice([0, 1, 2]))]))
            for u, v in zip(cuts[:-1], cuts[1:]):
                ei.append([u / den, v / den])
                el.append(l)
    c = {'ri': ri, 'rl': rl, 'ei': ei, 'el': el}
    if rng.random() < malformed:
        c = malform(rng, c, den)
    return c


def arr(ivs):
    import numpy as np
    return np.array(ivs, dtype=float).reshape(-1, 2)


def rows(a):
    import numpy as np
    a = np.asarray(a, dtype=float)
    if a.ndim != 2:
        return [] if a.size == 0 else None
    return [[float(r[0]), float(r[1])] for r in a]


def fl(tagval):
    """('ok', float) -> ['ok', x | 'nan' | 'inf' | '-inf']"""
    t, v = tagval
    if t != 'ok':
        return ['exc', v]
    v = float(v)
    if math.isnan(v):
        return ['ok', 'nan']
    if math.isinf(v):
        return ['ok', 'inf' if v > 0 else '-inf']
    return ['ok', v]


def cq_x(o):
    if o[0] != 'ok':
        return '(Raise %s)' % core.cq_exn(o[1])
    v = o[1]
    return '(Ok %s)' % ({'nan': 'NaN', 'inf': 'PInf', '-inf': 'NInf'}.get(v) if isinstance(v, str) else '(Fin %s)' % q(v))


def cq_ivs(l):
    return core.cq_list(['(%s,%s)' % (q(u), q(v)) for u, v in l])


def cq_labels(l):
    return core.cq_list([core.cq_str(s) for s in l])


EXHAUSTIVE = [
    {'ri': [[0.0, 1.0], [1.0, 2.0]], 'rl': ['C', 'C:maj'], 'ei': [[0.0, 2.0]], 'el': ['C']},
    {'ri': [[0.0, 1.0], [1.0, 2.0]], 'rl': ['C', 'G'], 'ei': [[0.0, 0.5], [0.5, 2.0]], 'el': ['C', 'C']},
    {'ri': [[0.0, 1.0], [1.5, 2.0]], 'rl': ['C', 'C:maj'], 'ei': [[0.0, 2.0]], 'el': ['N']},          # gap absorbed by the fusion
    {'ri': [[0.0, 1.0], [1.0, 2.0], [2.0, 3.0]], 'rl': ['N', 'N', 'X'], 'ei': [[0.0, 3.0]], 'el': ['X']},
    {'ri': [[0.0, 1.0], [1.0, 2.0]], 'rl': ['C:9', 'C:7(9)'], 'ei': [[0.0, 1.0], [1.0, 2.0]], 'el': ['B#', 'C']},
    {'ri': [], 'rl': [], 'ei': [[0.0, 1.0]], 'el': ['C']},
    {'ri': [[0.0, 1.0]], 'rl': ['C'], 'ei': [], 'el': []},
    {'ri': [], 'rl': [], 'ei': [], 'el': []},
    {'ri': [[0.0, 1.0]], 'rl': [], 'ei': [[0.0, 1.0]], 'el': ['C', 'G']},
    {'ri': [[0.0, 1.0], [0.5, 2.0]], 'rl': ['C', 'G'], 'ei': [[0.0, 2.0]], 'el': ['C']},              # overlapping reference
    {'ri': [[0.0, 2.0]], 'rl': ['C'], 'ei': [[0.0, 1.0], [0.5, 2.0]], 'el': ['C', 'G']},              # overlapping estimate
    {'ri': [[1.0, 2.0], [0.0, 1.0]], 'rl': ['C', 'G'], 'ei': [[0.0, 2.0]], 'el': ['C']},
    {'ri': [[0.0, 1.0], [1.0, 1.0]], 'rl': ['C', 'G'], 'ei': [[0.0, 1.0]], 'el': ['C']},
    {'ri': [[-1.0, 1.0]], 'rl': ['C'], 'ei': [[0.0, 1.0]], 'el': ['C']},
    {'ri': [[0.0, 1.0]], 'rl': ['H'], 'ei': [[0.0, 1.0]], 'el': ['C']},
    {'ri': [[0.0, 4.0]], 'rl': ['C'], 'ei': [[1.0, 2.0], [2.0, 3.0]], 'el': ['C', 'G']},              # estimate inside
    {'ri': [[1.0, 2.0], [2.0, 3.0]], 'rl': ['C', 'G'], 'ei': [[0.0, 4.0]], 'el': ['C']},              # estimate around
    {'ri': [[0.0, 1.0]], 'rl': ['C'], 'ei': [[2.0, 3.0]], 'el': ['C']},                               # disjoint
    {'ri': [[0.0, 1.0], [1.0, 2.0]], 'rl': ['C', 'G'], 'ei': [[1.0, 2.0]], 'el': ['C']},              # est boundary = ref start of row 2
]


class U(core.Unit):
    name = 'chord_segmentation'
    requires = ['ME.Model.Prelude', 'ME.Model.Intervals', 'ME.Model.ChordPipeline']
    mirrors = [('mir_eval/chord.py', f) for f in ('merge_chord_intervals', 'directional_hamming_distance', 'overseg',
                                                   'underseg', 'seg', 'encode_many', 'encode')] + \
              [('mir_eval/util.py', 'validate_intervals')]
    counts = {'quick': 1500, 'thorough': 15000}
    shard = 300
    header = '''
Open Scope Q_scope.
Definition tol := (1#1000000000).
Definition ivs_eqb := list_eqb (pair_eqb Qeqb Qeqb).
Definition x_eqb (a b : res xval) : bool := res_eqb (xval_eqb tol) a b.
Record case := { ri : list (Q * Q); rl : list str; ei : list (Q * Q); el : list str;
                 o_mr : res (list (Q * Q)); o_me : res (list (Q * Q));
                 o_dre : res xval; o_der : res xval; o_over : res xval; o_under : res xval; o_seg : res xval }.
Definition check_case (c : case) : bool :=
  res_eqb ivs_eqb (merge_chord_intervals (ri c) (rl c)) (o_mr c) &&
  res_eqb ivs_eqb (merge_chord_intervals (ei c) (el c)) (o_me c) &&
  x_eqb (directional_hamming_distance (ri c) (ei c)) (o_dre c) &&
  x_eqb (directional_hamming_distance (ei c) (ri c)) (o_der c) &&
  x_eqb (overseg (ri c) (ei c)) (o_over c) &&
  x_eqb (underseg (ri c) (ei c)) (o_under c) &&
  x_eqb (seg (ri c) (ei c)) (o_seg c).
'''

    def exhaustive(self, tier):
        return [dict(c) for c in EXHAUSTIVE]

    def gen(self, rng, n):
        return [gen_case(rng) for _ in range(n)]

    def run(self, case):
        from mir_eval import chord as C
        ri, ei = arr(case['ri']), arr(case['ei'])
        out = {}
        for k, iv, lb in (('mr', ri, case['rl']), ('me', ei, case['el'])):
            t, v = core.call_impl(C.merge_chord_intervals, iv, list(lb))
            if t == 'ok':
                r = rows(v)
                out[k] = ['exc', 'BadShape'] if r is None else ['ok', r]
            else:
                out[k] = ['exc', v]
        out['dre'] = fl(core.call_impl(C.directional_hamming_distance, ri, ei))
        out['der'] = fl(core.call_impl(C.directional_hamming_distance, ei, ri))
        out['over'] = fl(core.call_impl(C.overseg, ri, ei))
        out['under'] = fl(core.call_impl(C.underseg, ri, ei))
        out['seg'] = fl(core.call_impl(C.seg, ri, ei))
        return out

    def emit(self, case, out):
        def mi(o):
            return '(Ok %s)' % cq_ivs(o[1]) if o[0] == 'ok' else '(Raise %s)' % core.cq_exn(o[1])
        return ('{| ri := %s; rl := %s; ei := %s; el := %s; o_mr := %s; o_me := %s; o_dre := %s; o_der := %s; '
                'o_over := %s; o_under := %s; o_seg := %s |}') % (
            cq_ivs(case['ri']), cq_labels(case['rl']), cq_ivs(case['ei']), cq_labels(case['el']),
            mi(out['mr']), mi(out['me']), cq_x(out['dre']), cq_x(out['der']), cq_x(out['over']), cq_x(out['under']),
            cq_x(out['seg']))

    def nontrivial(self, case, out):
        return out['mr'][0] == 'ok' and len(out['mr'][1]) < len(case['ri']) and out['seg'][0] == 'ok' and out['seg'][1] != 1.0

    def shrink(self, case):
        for iv, lb in (('ri', 'rl'), ('ei', 'el')):
            for i in range(len(case[iv])):
                c = dict(case)
                c[iv] = case[iv][:i] + case[iv][i + 1:]
                c[lb] = case[lb][:i] + case[lb][i + 1:]
                yield c

    def distribution(self, pairs):
        d = {}

        def inc(k):
            d[k] = d.get(k, 0) + 1
        for c, o in pairs:
            for k in ('mr', 'me'):
                if o[k][0] == 'exc':
                    inc('merge raises ' + o[k][1])
                else:
                    n = len(c['ri' if k == 'mr' else 'ei'])
                    inc('merge fused %d rows' % min(n - len(o[k][1]), 3))
            for k in ('dre', 'seg'):
                if o[k][0] == 'exc':
                    inc(k + ' raises ' + o[k][1])
                elif o[k][1] in (0.0, 1.0):
                    inc('%s = %g' % (k, o[k][1]))
                else:
                    inc(k + ' strictly inside (0,1)' if isinstance(o[k][1], float) and 0 < o[k][1] < 1 else k + ' other')
            gap = lambda v: any(v[i][1] != v[i + 1][0] for i in range(len(v) - 1))
            if gap(c['ri']) or gap(c['ei']):
                inc('has gap')
            if c['ri'] and c['ei']:
                if c['ei'][-1][1] > c['ri'][-1][1]:
                    inc('estimate ends later')
                if c['ei'][-1][1] < c['ri'][-1][1]:
                    inc('estimate ends earlier')
                if c['ei'][0][0] != c['ri'][0][0]:
                    inc('estimate starts elsewhere')
            if 'N' in c['rl'] or 'N' in c['el']:
                inc('has N')
            if 'X' in c['rl'] or 'X' in c['el']:
                inc('has X')
        return d


UNIT = U()
