"""multipitch.resample_multipitch vs ME.Model.Multipitch.resample_multipitch: exact frame lists.

Times are drawn from dyadic lattices (so the interpolator's midpoints x[i]/2 + x[i+1]/2 are exact); the boundary stream
puts targets exactly on midpoints, on source times, on / just outside the first and last source time.
Scope: non-decreasing source time bases (interp1d is called with assume_sorted=True)."""
import itertools
from fractions import Fraction
from lib import core


def _frames(rng, n, distinct=True):
    out = []
    for k in range(n):
        m = rng.choice([0, 1, 1, 2, 3])
        out.append([float(100 * (k + 1) + j) for j in range(m)])
    return out


class U(core.Unit):
    name = 'multipitch_resample'
    requires = ['ME.Model.Prelude', 'ME.Model.Events', 'ME.Model.Multipitch']
    mirrors = [('mir_eval/multipitch.py', 'resample_multipitch')]
    counts = {'quick': 1500, 'thorough': 12000}
    shard = 500
    header = '''
Definition check_case (c : list Q * list (list Q) * list Q * res (list (list Q))) : bool :=
  let '(times, freqs, targets, expected) := c in
  res_eqb (list_eqb (list_eqb Qeqb)) (resample_multipitch times freqs targets) expected.
'''

    def exhaustive(self, tier):
        # all non-decreasing time bases of length <= 3 over {0, 1/2, 1, 2}, probed on a 1/8 grid around them
        pts = [0.0, 0.5, 1.0, 2.0]
        targets = [x / 8.0 for x in range(-4, 21)]
        out = []
        for n in range(0, 4):
            for ts in itertools.combinations_with_replacement(pts, n):
                out.append({'times': list(ts), 'freqs': [[float(10 * (k + 1))] * (1 + k % 2) for k in range(n)], 'targets': targets})
        out.append({'times': [0.0, 1.0], 'freqs': [[1.0], [2.0]], 'targets': []})
        out.append({'times': [], 'freqs': [], 'targets': []})
        out.append({'times': [], 'freqs': [[5.0]], 'targets': [0.0, 1.0]})
        out.append({'times': [0.0, 1.0], 'freqs': [[1.0]], 'targets': [0.0]})
        out.append({'times': [0.0], 'freqs': [[1.0], [2.0]], 'targets': [0.0]})
        out.append({'times': [0.0, 1.0], 'freqs': [], 'targets': [0.5]})
        return out

    def gen(self, rng, n):
        cases = []
        for _ in range(n):
            kind = rng.random()
            den = rng.choice([4, 8, 16, 64])
            k = rng.choice([1, 1, 2, 3, 4, 5, 6, 8])
            if kind < 0.45:       # uniform hop
                hop = rng.randint(1, 40)
                start = rng.randint(0, 200)
                times = [Fraction(start + hop * i, den) for i in range(k)]
            elif kind < 0.8:      # irregular, strictly increasing
                cur = rng.randint(0, 400)
                times = []
                for i in range(k):
                    times.append(Fraction(cur, den))
                    cur += rng.randint(1, 30)
            else:                 # with repeated time stamps
                cur = rng.randint(0, 100)
                times = []
                for i in range(k):
                    times.append(Fraction(cur, den))
                    cur += rng.choice([0, 0, 1, 3, 10])
            if rng.random() < 0.03:
                times = []
            freqs = _frames(rng, len(times))
            r = rng.random()
            if r < 0.05:          # malformed: lengths differ
                if freqs and rng.random() < 0.5:
                    freqs = freqs[:-1]
                else:
                    freqs = freqs + [[7.0]]
            # targets
            tg = []
            m = rng.choice([0, 1, 3, 6, 10]) if rng.random() < 0.1 else rng.randint(3, 12)
            for _j in range(m):
                c = rng.random()
                if not times:
                    tg.append(Fraction(rng.randint(-10, 400), den))
                elif c < 0.25 and len(times) >= 2:      # exact midpoint of two neighbours
                    i = rng.randrange(len(times) - 1)
                    tg.append((times[i] + times[i + 1]) / 2)
                elif c < 0.35 and len(times) >= 2:      # one lattice step beside a midpoint
                    i = rng.randrange(len(times) - 1)
                    tg.append((times[i] + times[i + 1]) / 2 + rng.choice([-1, 1]) * Fraction(1, 2 * den))
                elif c < 0.5:                           # exactly a source time
                    tg.append(rng.choice(times))
                elif c < 0.6:                           # just outside / on the range ends
                    tg.append(rng.choice([times[0] - Fraction(1, den), times[-1] + Fraction(1, den), times[0], times[-1],
                                          times[0] - 5, times[-1] + 5]))
                else:
                    lo = int(times[0] * den) - 6
                    hi = int(times[-1] * den) + 6
                    tg.append(Fraction(rng.randint(lo, hi), den))
            if rng.random() < 0.5:
                tg.sort()
            cases.append({'times': [float(t) for t in times], 'freqs': freqs, 'targets': [float(t) for t in tg]})
        return cases

    def run(self, case):
        import numpy as np
        from mir_eval import multipitch
        tag, val = core.call_impl(multipitch.resample_multipitch, np.array(case['times'], dtype=float),
                                  [np.array(f, dtype=float) for f in case['freqs']], np.array(case['targets'], dtype=float))
        if tag == 'ok':
            return ['ok', [[float(x) for x in fr] for fr in val]]
        return ['exc', val]

    def emit(self, case, out):
        ql = lambda l: core.cq_list([core.cq_Q(x) for x in l])
        qll = lambda ll: core.cq_list([ql(l) for l in ll])
        return '(%s,%s,%s,%s)' % (ql(case['times']), qll(case['freqs']), ql(case['targets']), core.cq_res(out, qll))

    def nontrivial(self, case, out):
        return out[0] == 'ok' and len(case['times']) >= 2 and len(out[1]) >= 1

    def shrink(self, case):
        for i in range(len(case['targets'])):
            yield dict(case, targets=case['targets'][:i] + case['targets'][i + 1:])
        for i in range(len(case['times'])):
            if len(case['freqs']) == len(case['times']):
                yield dict(case, times=case['times'][:i] + case['times'][i + 1:], freqs=case['freqs'][:i] + case['freqs'][i + 1:])

    def distribution(self, pairs):
        d = {'midpoint_targets': 0, 'source_time_targets': 0, 'below_range': 0, 'above_range': 0, 'inside_other': 0,
             'exc': 0, 'empty_times': 0, 'empty_targets': 0, 'single_time': 0, 'dup_times': 0}
        for c, o in pairs:
            ts = [Fraction(t) for t in c['times']]
            if o[0] != 'ok':
                d['exc'] += 1
            if not ts:
                d['empty_times'] += 1
            if not c['targets']:
                d['empty_targets'] += 1
            if len(ts) == 1:
                d['single_time'] += 1
            if len(set(ts)) < len(ts):
                d['dup_times'] += 1
            mids = set((ts[i] + ts[i + 1]) / 2 for i in range(len(ts) - 1))
            for t in c['targets']:
                t = Fraction(t)
                if not ts:
                    continue
                if t < ts[0]:
                    d['below_range'] += 1
                elif t > ts[-1]:
                    d['above_range'] += 1
                elif t in mids:
                    d['midpoint_targets'] += 1
                elif t in ts:
                    d['source_time_targets'] += 1
                else:
                    d['inside_other'] += 1
        return d


UNIT = U()
