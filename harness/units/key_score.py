"""key.weighted_score / evaluate / validate_key / split_key_string vs ME.Model.Key.
Exhaustive over all valid key strings squared; case variants, whitespace variants and malformed strings compared by
exception class."""
from lib import core

MODES = ['major', 'minor', 'other']
WS = [' ', '  ', '\t', '\n', ' \t ', '\r\n', '\x0b', '\x0c', '\x1c', '\x1f', '\x85', '\xa0', ' ', '　']


def tonics():
    from mir_eval import key as K
    return [k for k, v in K.KEY_TO_SEMITONE.items() if v is not None]


def valid_keys():
    return [t + ' ' + m for t in tonics() for m in MODES] + ['x']


def variants(t):
    return [t, t.capitalize(), t.upper()]


class U(core.Unit):
    name = 'key_score'
    requires = ['ME.Model.Prelude', 'ME.Model.Key']
    mirrors = [('mir_eval/key.py', f) for f in ['KEY_TO_SEMITONE', 'validate_key', 'validate', 'split_key_string',
                                                'weighted_score', 'evaluate']]
    counts = {'quick': 1500, 'thorough': 15000}
    shard = 350
    header = '''
Open Scope Q_scope.
Definition tol := (1#1000000000).
Definition ws_eqb := res_eqb (Qclose tol).
Definition ev_eqb := res_eqb (list_eqb (pair_eqb seqb (Qclose tol))).
Definition vk_eqb := res_eqb (fun _ _ : unit => true).
Definition sk_eqb := res_eqb (pair_eqb (opt_eqb Z.eqb) (opt_eqb seqb)).
(* (reference, estimate, weighted_score, evaluate, validate_key reference, split_key_string reference) *)
Definition check_case (c : str * str * res Q * res (list (str * Q)) * res unit * res (option Z * option str)) : bool :=
  let '(r, e, ws, ev, vk, sk) := c in
  ws_eqb (weighted_score r e) ws && ev_eqb (evaluate r e) ev && vk_eqb (validate_key r) vk && sk_eqb (split_key_string r) sk.
'''

    def exhaustive(self, tier):
        vk = valid_keys()
        out = [[a, b] for a in vk for b in vk]
        # case variants of tonic and of mode; 'X'
        cv = []
        for t in tonics():
            for v in variants(t)[1:]:
                cv.append(v + ' major')
                cv.append(v + ' minor')
        cv += ['X', 'c# MAJOR', 'C Major', 'c MINOR', 'D Other', 'c# major', 'C# major', 'Db other', 'DB other']
        out += [[a, 'c major'] for a in cv] + [['a minor', a] for a in cv] + [[a, a] for a in cv]
        # whitespace variants
        for w in WS:
            out += [['C' + w + 'major', 'G major'], [w + 'C major', 'C major'], ['C major' + w, 'A minor'],
                    [w + 'C' + w + 'major' + w, 'c minor'], [w + 'x', 'x'], ['x' + w, 'x'], [w, 'x'], ['x', w + 'X' + w]]
        # malformed
        bad = ['', ' ', 'C', 'major', 'C  ', 'x major', 'X minor', 'x x', 'h major', 'c## major', 'cb major', 'e# minor', 'fb minor',
               'b# major', 'C maj', 'C majorr', 'C major minor', 'C# major x', 'x major minor', 'C:major', 'C-major', 'c_major',
               'C major ', 'K major', 'İ major', 'X x', 'xx', 'x  x', 'c none', 'C other other', 'other C', 'major C',
               'N', 'None', '1 major', 'c 1']
        out += [[a, 'c major'] for a in bad] + [['c major', a] for a in bad] + [[a, a] for a in bad]
        out += [['x', 'x'], ['X', 'x'], ['x', 'X'], ['X', 'X'], ['x', 'c major'], ['C major', 'X']]
        return out

    def gen(self, rng, n):
        ts = tonics()
        out = []

        def rkey():
            r = rng.random()
            if r < 0.06:
                return rng.choice(['x', 'X'])
            t = rng.choice(variants(rng.choice(ts)))
            m = rng.choice(MODES)
            if r < 0.70:
                return t + ' ' + m
            if r < 0.85:      # whitespace variants (valid)
                return rng.choice(['', ' ', '\t']) + t + rng.choice(WS) + m + rng.choice(['', ' ', '\n'])
            if r < 0.90:      # wrong-case or unknown mode
                return t + ' ' + rng.choice(['Major', 'MINOR', 'maj', 'min', 'dorian', 'Other', 'x', ''])
            if r < 0.94:      # unknown tonic
                return rng.choice(['h', 'cb', 'e#', 'fb', 'b#', 'c##', 'x', 'X', 'do', '']) + ' ' + m
            if r < 0.97:      # wrong number of words
                return rng.choice([t, m, t + ' ' + m + ' ' + m, t + ' ' + t + ' ' + m, 'x ' + m + ' ' + m, ''])
            s = list(t + ' ' + m)     # one-character mutation
            i = rng.randrange(len(s))
            s[i] = rng.choice(['', ' ', 'x', '#', 'b', s[i].upper(), 'q'])
            return ''.join(s)
        for _ in range(n):
            out.append([rkey(), rkey()])
        return out

    def run(self, case):
        from mir_eval import key as K
        r, e = case
        t, v = core.call_impl(K.weighted_score, r, e)
        ws = ['ok', float(v)] if t == 'ok' else ['exc', v]
        t, v = core.call_impl(K.evaluate, r, e, unused_keyword=1)
        ev = ['ok', [[k, float(x)] for k, x in v.items()]] if t == 'ok' else ['exc', v]
        t, v = core.call_impl(K.validate_key, r)
        vk = ['ok', None] if t == 'ok' else ['exc', v]
        t, v = core.call_impl(K.split_key_string, r)
        sk = ['ok', [v[0], v[1]]] if t == 'ok' else ['exc', v]
        return [ws, ev, vk, sk]

    def emit(self, case, out):
        ws, ev, vk, sk = out
        return '(%s,%s,%s,%s,%s,%s)' % (
            core.cq_str(case[0]), core.cq_str(case[1]),
            core.cq_res(ws, core.cq_Q),
            core.cq_res(ev, lambda l: core.cq_list(['(%s,%s)' % (core.cq_str(k), core.cq_Q(x)) for k, x in l])),
            core.cq_res(vk, lambda _: 'tt'),
            core.cq_res(sk, lambda p: '(%s,%s)' % (core.cq_opt(p[0], lambda z: core.cq_Z(z) + '%Z'), core.cq_opt(p[1], core.cq_str))))

    def nontrivial(self, case, out):
        return out[0][0] == 'ok' and out[0][1] not in (0.0,)

    def shrink(self, case):
        a, b = case
        for i in range(len(a)):
            yield [a[:i] + a[i + 1:], b]
        for i in range(len(b)):
            yield [a, b[:i] + b[i + 1:]]

    def distribution(self, pairs):
        d = {}
        for c, o in pairs:
            k = 'score=%s' % o[0][1] if o[0][0] == 'ok' else 'raise:' + o[0][1]
            d[k] = d.get(k, 0) + 1
            k2 = 'split_key_string(ref):' + ('ok' if o[3][0] == 'ok' else o[3][1])
            d[k2] = d.get(k2, 0) + 1
        return d


UNIT = U()
