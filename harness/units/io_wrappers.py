"""The loaders built on load_delimited (load_events, load_labeled_events, load_intervals, load_labeled_intervals,
load_valued_intervals, load_time_series, load_key, load_tempo) plus load_patterns and load_ragged_time_series
vs ME.Model.IO, on generated files, through io.StringIO and through a real path.

The outcome of one call is (returned structure | exception class + row named in the message, the UserWarning issued),
recorded under `warnings.catch_warnings(record=True)`; which validator complained is read off the message and compared
with the model's `warning`. Floats are compared bit-identically. `float()` / NumPy's string->float64 cast are the
model's `conv` / `convv`: finite tables computed by the Python runtime for every token the text can produce (a token
outside the table evaluates to a poison value)."""
import io as pyio
import os
import re
import shutil
import warnings
import numpy as np
from lib import core
from harness.units import io_delimited as D

FNS = ['events', 'labeled_events', 'intervals', 'labeled_intervals', 'valued_intervals', 'time_series', 'key', 'tempo',
       'patterns', 'ragged']
CONVS_OF = {'events': 'f', 'labeled_events': 'fs', 'intervals': 'ff', 'labeled_intervals': 'ffs', 'valued_intervals': 'fff',
            'time_series': 'ff', 'key': 'ss', 'tempo': 'fff'}

WARN_KINDS = [('An event at time', 'WEventHuge'), ('Events should be in increasing order.', 'WEventOrder'),
              ('Negative interval times found', 'WIvNeg'), ('All interval durations must be strictly positive', 'WIvDur'),
              ('tempi=', 'WTempoNonNeg'), ('reference tempi=', 'WTempoZero'),
              ("Mode ", 'WKey'), ("Key ", 'WKey'), ("'", 'WKey')]


def warn_kind(msg):
    for pre, k in WARN_KINDS:
        if msg.startswith(pre):
            return k
    return 'UNKNOWN:' + msg[:40]


def farr(a, ndim=1):
    a = np.asarray(a)
    assert a.dtype == np.float64 and a.ndim == ndim, (a.dtype, a.shape)
    return a


def enc_result(fn, r):
    E = D.enc_float
    if fn == 'events':
        return [E(x) for x in farr(r).tolist()]
    if fn == 'labeled_events':
        ev, lab = r
        assert isinstance(lab, list) and all(isinstance(s, str) for s in lab)
        return [[E(x) for x in farr(ev).tolist()], lab]

    def ivs(a):
        a = farr(a, 2)
        assert a.shape[1] == 2, a.shape
        return [[E(x), E(y)] for x, y in a.tolist()]
    if fn == 'intervals':
        return ivs(r)
    if fn == 'labeled_intervals':
        assert isinstance(r[1], list) and all(isinstance(s, str) for s in r[1])
        return [ivs(r[0]), r[1]]
    if fn == 'valued_intervals':
        return [ivs(r[0]), [E(x) for x in farr(r[1]).tolist()]]
    if fn == 'time_series':
        return [[E(x) for x in farr(r[0]).tolist()], [E(x) for x in farr(r[1]).tolist()]]
    if fn == 'key':
        assert isinstance(r, str)
        return r
    if fn == 'tempo':
        t, w = r
        assert isinstance(w, float)
        return [[E(x) for x in farr(t).tolist()], E(w)]
    if fn == 'patterns':
        assert isinstance(r, list)
        return [[[[E(a), E(b)] for a, b in occ] for occ in pat] for pat in r]
    if fn == 'ragged':
        t, v = r
        assert isinstance(v, list)
        return [[E(x) for x in farr(t).tolist()], [[E(x) for x in farr(a).tolist()] for a in v]]
    raise KeyError(fn)


def cq_result(fn, v):
    N = D.cq_num_enc
    L = core.cq_list
    S = D.cq_s
    nl = lambda xs: L([N(x) for x in xs])
    iv = lambda xs: L(['(%s,%s)' % (N(a), N(b)) for a, b in xs])
    if fn == 'events':
        return nl(v)
    if fn == 'labeled_events':
        return '(%s,%s)' % (nl(v[0]), L([S(s) for s in v[1]]))
    if fn == 'intervals':
        return iv(v)
    if fn == 'labeled_intervals':
        return '(%s,%s)' % (iv(v[0]), L([S(s) for s in v[1]]))
    if fn == 'valued_intervals':
        return '(%s,%s)' % (iv(v[0]), nl(v[1]))
    if fn == 'time_series':
        return '(%s,%s)' % (nl(v[0]), nl(v[1]))
    if fn == 'key':
        return S(v)
    if fn == 'tempo':
        return '(%s,%s)' % (nl(v[0]), N(v[1]))
    if fn == 'patterns':
        return L([L([iv(occ) for occ in pat]) for pat in v])
    if fn == 'ragged':
        return '(%s,%s)' % (nl(v[0]), L([nl(a) for a in v[1]]))
    raise KeyError(fn)


CTOR = {'events': 'EEvents', 'labeled_events': 'ELabEvents', 'intervals': 'EIntervals', 'labeled_intervals': 'ELabIntervals',
        'valued_intervals': 'EValIntervals', 'time_series': 'ETimeSeries', 'key': 'EKey', 'tempo': 'ETempo',
        'patterns': 'EPatterns', 'ragged': 'ERagged'}


def np_float(tok):
    try:
        return D.enc_float(float(np.array([tok], dtype=float)[0]))
    except (TypeError, ValueError):
        return None


def py_float(tok):
    try:
        return D.enc_float(float(tok))
    except ValueError:
        return None


def candidate_tokens(text, dre):
    toks = set()
    sp = re.compile(dre)
    for line in pyio.StringIO(text):
        s = line.strip()
        toks.update([line, s])
        for ms in (0, 1, 2, 3):
            toks.update(sp.split(s, ms))
        toks.update(line.split(','))
    return sorted(toks)


# ------------------------------------------------------------------------------------------------
# generators
# ------------------------------------------------------------------------------------------------
def lat(rng, lo=0, hi=2000):
    return rng.randint(lo * 8, hi * 8) / 8.0


def fmt(rng, x):
    r = rng.random()
    if x != x or x in (float('inf'), float('-inf')):
        return repr(x)
    if r < 0.7:
        return repr(x)
    if r < 0.8 and x == int(x):
        return str(int(x))
    if r < 0.9:
        return '%.6e' % x if float('%.6e' % x) == x else repr(x)
    return '%.3f' % x if float('%.3f' % x) == x else repr(x)


KEYS = ['C', 'c', 'C#', 'Db', 'd', 'Eb', 'E', 'F', 'f#', 'G', 'Ab', 'A', 'Bb', 'B', 'X', 'x', 'H', 'Cb', 'E#', 'c##', '1']
MODES = ['major', 'minor', 'other', 'Major', 'dorian', 'maj', 'major x', 'minor\tkey', 'x', '']


def body_rows(rng, fn, dname, valid=True):
    """list of lines (no newline) of a structurally well-formed file for `fn`; `valid` = respects the conventions"""
    sep = lambda: D.sep_for(rng, dname)
    n = rng.choice([0, 1, 2, 3, 4, 6])
    rows = []
    if fn in ('events', 'labeled_events'):
        ts = sorted(lat(rng) for _ in range(n))
        if not valid and ts:
            k = rng.choice(['order', 'huge', 'edge', 'neg', 'dup'])
            i = rng.randrange(len(ts))
            if k == 'order':
                rng.shuffle(ts)
            elif k == 'huge':
                ts[i] = rng.choice([30000.125, 1e6, 30001.0])
            elif k == 'edge':
                ts[-1] = 30000.0
            elif k == 'neg':
                ts[0] = -1.5
            else:
                ts.insert(i, ts[i])
        for t in ts:
            rows.append(fmt(rng, t) + (sep() + D.rnd_label(rng) if fn == 'labeled_events' else ''))
    elif fn in ('intervals', 'labeled_intervals', 'valued_intervals'):
        t = lat(rng, 0, 10)
        ivs = []
        for _ in range(n):
            d = rng.randint(1, 80) / 8.0
            ivs.append([t, t + d])
            t += d if rng.random() < 0.7 else d + rng.randint(0, 8) / 8.0
        if not valid and ivs:
            i = rng.randrange(len(ivs))
            k = rng.choice(['neg', 'zero', 'rev', 'negzero', 'overlap'])
            if k == 'neg':
                ivs[i][0] = -abs(ivs[i][0]) - 0.5
            elif k == 'zero':
                ivs[i][1] = ivs[i][0]
            elif k == 'rev':
                ivs[i] = [ivs[i][1], ivs[i][0]]
            elif k == 'negzero':
                ivs[i] = [-0.0, 1.0]
            else:
                ivs[i][0] = max(0.0, ivs[i][0] - 1.0)
        for a, b in ivs:
            r = fmt(rng, a) + sep() + fmt(rng, b)
            if fn == 'labeled_intervals':
                r += sep() + D.rnd_label(rng)
            elif fn == 'valued_intervals':
                r += sep() + fmt(rng, rng.choice([lat(rng, 20, 100), -lat(rng, 0, 5), 440.0]))
            rows.append(r)
    elif fn == 'time_series':
        for i in range(n):
            rows.append(fmt(rng, i / 8.0) + sep() + fmt(rng, rng.choice([0.0, lat(rng, 50, 800), -lat(rng, 50, 800)])))
    elif fn == 'key':
        k, m = (rng.choice(KEYS[:14]), rng.choice(MODES[:3])) if valid else (rng.choice(KEYS), rng.choice(MODES))
        rows.append(k + (sep() + m if m else ''))
        if not valid and rng.random() < 0.3:
            rows.append(rng.choice(KEYS) + sep() + rng.choice(MODES[:3]))
        if not valid and rng.random() < 0.15:
            rows = []
    elif fn == 'tempo':
        if valid:
            t1, t2, w = lat(rng, 30, 120), lat(rng, 90, 300), rng.choice([0.0, 1.0, 0.5, 0.25, 0.875])
            if rng.random() < 0.2:
                t1 = 0.0
        else:
            t1, t2 = rng.choice([(0.0, 0.0), (-60.0, 120.0), (60.0, -0.5), (60.0, 120.0), (float('inf'), 60.0),
                                 (float('nan'), 60.0), (60.0, 120.0), (-0.0, 0.0)])
            w = rng.choice([-0.125, 1.125, 0.5, 1.0, 0.0, float('nan'), float('inf'), -0.0, 2.0, 1.0000000000000002])
        rows.append(fmt(rng, t1) + sep() + fmt(rng, t2) + sep() + fmt(rng, w))
        if not valid and rng.random() < 0.3:
            rows.append(fmt(rng, 60.0) + sep() + fmt(rng, 120.0) + sep() + fmt(rng, 0.5))
        if not valid and rng.random() < 0.15:
            rows = []
    elif fn == 'patterns':
        np_ = rng.choice([0, 1, 1, 2, 3])
        for p in range(np_):
            rows.append(rng.choice(['pattern%d' % (p + 1), 'pattern', ' pattern %d ' % p, 'Xpattern,1']))
            for o in range(rng.choice([0, 1, 2, 2, 3])):
                rows.append(rng.choice(['occurrence%d' % (o + 1), 'occurrence', 'occurrence, 1']))
                for _ in range(rng.choice([0, 1, 2, 3, 4])):
                    rows.append(fmt(rng, lat(rng, 0, 200)) + rng.choice([', ', ',', ' , ', ',\t']) + fmt(rng, float(rng.randint(40, 90))))
        if not valid:
            k = rng.choice(['nocomma', 'head_data', 'extra_col', 'swap', 'empty_first'])
            if k == 'nocomma':
                rows.insert(rng.randrange(len(rows) + 1), rng.choice(['1.0', '1.0 60.0', '3', '-2.5e3', ' 7 ']))
            elif k == 'head_data':
                rows.insert(0, '1.0, 60.0')
            elif k == 'extra_col':
                rows.insert(rng.randrange(len(rows) + 1), '1.0, 60.0, 3.0, x')
            elif k == 'swap' and len(rows) > 1:
                i = rng.randrange(len(rows) - 1)
                rows[i], rows[i + 1] = rows[i + 1], rows[i]
            else:
                rows.insert(rng.randrange(len(rows) + 1), rng.choice([', 60.0', '1.0,', ',', 'x, 60.0', '1.0, y']))
    elif fn == 'ragged':
        for i in range(n):
            r = fmt(rng, i / 4.0)
            for _ in range(rng.choice([0, 1, 1, 2, 3, 5])):
                r += sep() + fmt(rng, lat(rng, 50, 900))
            rows.append(r)
    return rows


class U(core.Unit):
    name = 'io_wrappers'
    requires = ['ME.Model.Prelude', 'ME.Model.Regex', 'ME.Model.ChordParse', 'ME.Model.Key', 'ME.Model.IO']
    mirrors = [('mir_eval/io.py', f) for f in ('_open', 'load_delimited', 'load_events', 'load_labeled_events', 'load_intervals',
                                               'load_labeled_intervals', 'load_valued_intervals', 'load_time_series', 'load_key',
                                               'load_tempo', 'load_patterns', 'load_ragged_time_series')] + \
              [('mir_eval/util.py', 'validate_events'), ('mir_eval/util.py', 'validate_intervals'),
               ('mir_eval/key.py', 'validate_key'), ('mir_eval/tempo.py', 'validate_tempi')]
    counts = {'quick': 2400, 'thorough': 16000}
    shard = 150
    header = '''
Definition n2s (l : list N) : str := map N.to_nat l.
Definition num := (Z * xval)%type.
Definition poison : num := ((-1)%Z, NaN).
Fixpoint tab_conv (tab : list (str * option num)) (s : str) : option num :=
  match tab with [] => Some poison | (k, v) :: t => if seqb k s then v else tab_conv t s end.
Definition xv_eqb (a b : xval) : bool :=
  match a, b with Fin x, Fin y => Qeq_bool x y | PInf, PInf | NInf, NInf | NaN, NaN => true | _, _ => false end.
Definition num_eqb (a b : num) : bool := Z.eqb (fst a) (fst b) && xv_eqb (snd a) (snd b).
Definition nl_eqb := list_eqb num_eqb.
Definition iv_eqb := list_eqb (pair_eqb num_eqb num_eqb).
Definition sl_eqb := list_eqb seqb.
Definition warning_eqb (a b : warning) : bool :=
  match a, b with WEventHuge, WEventHuge | WEventOrder, WEventOrder | WIvNeg, WIvNeg | WIvDur, WIvDur | WKey, WKey
  | WTempoNonNeg, WTempoNonNeg | WTempoZero, WTempoZero => true | _, _ => false end.
Definition wres_eqb {A} (eqb : A -> A -> bool) (x y : wres A) : bool :=
  rres_eqb eqb (fst x) (fst y) && opt_eqb warning_eqb (snd x) (snd y).
Inductive expect :=
| EEvents (o : wres (list num)) | ELabEvents (o : wres (list num * list str)) | EIntervals (o : wres (list (num * num)))
| ELabIntervals (o : wres (list (num * num) * list str)) | EValIntervals (o : wres (list (num * num) * list num))
| ETimeSeries (o : wres (list num * list num)) | EKey (o : wres str) | ETempo (o : wres (list num * num))
| EPatterns (o : wres (list (list (list (num * num))))) | ERagged (o : wres (list num * list (list num))).
Record case := mk { text : str; dl : delim; cm : option re; hdr : bool; tab : list (str * option num);
                    tabv : list (str * option num); out_sio : expect; out_path : option expect }.
Definition agrees (c : case) (e : expect) : bool :=
  let cv := tab_conv (tab c) in let cvv := tab_conv (tabv c) in let v := @snd Z xval in
  match e with
  | EEvents o => wres_eqb nl_eqb (load_events num cv v (dl c) (cm c) (text c)) o
  | ELabEvents o => wres_eqb (pair_eqb nl_eqb sl_eqb) (load_labeled_events num cv v (dl c) (cm c) (text c)) o
  | EIntervals o => wres_eqb iv_eqb (load_intervals num cv v (dl c) (cm c) (text c)) o
  | ELabIntervals o => wres_eqb (pair_eqb iv_eqb sl_eqb) (load_labeled_intervals num cv v (dl c) (cm c) (text c)) o
  | EValIntervals o => wres_eqb (pair_eqb iv_eqb nl_eqb) (load_valued_intervals num cv v (dl c) (cm c) (text c)) o
  | ETimeSeries o => wres_eqb (pair_eqb nl_eqb nl_eqb) (load_time_series num cv (dl c) (cm c) (text c)) o
  | EKey o => wres_eqb seqb (load_key num cv (dl c) (cm c) (text c)) o
  | ETempo o => wres_eqb (pair_eqb nl_eqb num_eqb) (load_tempo num cv v (dl c) (cm c) (text c)) o
  | EPatterns o => wres_eqb (list_eqb (list_eqb iv_eqb)) (load_patterns num cv (text c), None) o
  | ERagged o => wres_eqb (pair_eqb nl_eqb (list_eqb nl_eqb)) (load_ragged_time_series num cv cvv (dl c) (hdr c) (cm c) (text c), None) o
  end.
Definition check_case (c : case) : bool :=
  agrees c (out_sio c) && match out_path c with Some e => agrees c e | None => true end.
'''

    def exhaustive(self, tier):
        out = []

        def add(fn, text, delim='ws+', comment='#', header=False, kind='fixed'):
            out.append({'fn': fn, 'text': text, 'delim': delim, 'comment': comment, 'header': header, 'kind': kind})
        for fn in FNS:
            for t in ['', '\n', '#c\n', '1.0\n', '1.0 2.0\n', '1.0 2.0 0.5\n', '1.0 2.0 0.5 7\n', 'C major\n', 'x\n', '1.0 a b\n',
                      '1.0 2.0 a b\n', '1.0, 60.0\n', 'pattern1\noccurrence1\n1.0, 60.0\n', '1.0']:
                add(fn, t)
        # the two former defects (fixed by /repo 7de24cd, f596eb3) and their neighbours
        for t in ['pattern1\noccurrence1\n1.0\n', 'pattern1\noccurrence1\n1.0 60.0\n', 'pattern1\noccurrence1\nabc\n',
                  'pattern1\noccurrence1\n\n', 'pattern1\noccurrence1\n1.0, 60.0\n\n', 'pattern1\noccurrence1\n1.0,60.0,3\n',
                  '1.0, 60.0\n2.0, 61.0', 'pattern1\npattern2\n', 'occurrence1\n1,2\npattern\n3,4\n', 'pattern1\noccurrence1\n1.0, 60.0\noccurrence2\n2.0, 61.0\npattern2\noccurrence1\n3.0, 62.0\n',
                  'a pattern here\n1,2\nno occurrence\n3,4\n', 'pattern1\noccurrence1\n1.0,\n', 'pattern1\noccurrence1\n,60\n',
                  'pattern1\n1,2\n1,2\noccurrence\noccurrence\n5,6\n']:
            add('patterns', t)
        for t in ['', '#only a comment\n', '\n', '60 120 0.5\n', '60 120 0.5\n60 120 0.5\n', '60 120 1.5\n', '60 120 -0.5\n', '0 0 0.5\n',
                  '-60 120 0.5\n', '60 120 nan\n', 'inf 120 0.5\n', 'nan 120 0.5\n', '-60 120 1.5\n', '60 120\n', '60 120 0.5 1\n',
                  '60 120 1\n', '60 120 0\n', '60 120 -0.0\n', '0 120 1.0\n', '60,120,0.5\n', '60 120 0.5\n# c\n', '-60 120 0.5\n60 120 0.5\n']:
            add('tempo', t)
            add('tempo', t, 'comma')
        for t in ['', '#c\n', 'C major\n', 'C\tmajor\n', 'c minor\n', 'X\n', 'X major\n', 'C major\nD minor\n', 'H major\n', 'C dorian\n',
                  'C major extra\n', 'C  major\n', ' C major \n', 'C,major\n', 'Db other\n', 'x x\n', 'C major\n#x\n', 'C MAJOR\n', 'C major\n\n']:
            add('key', t)
            add('key', t, 'comma')
        for t in ['1\n2\n3\n', '3\n2\n', '30000\n', '30000.5\n', '1\n1\n', '-1\n0\n', 'inf\n', 'nan\n1\n', 'inf\ninf\n', '-inf\n-inf\n',
                  '2\nnan\n1\n', '1 2\n', '1e999\n']:
            add('events', t)
            add('labeled_events', '\n'.join(l + ' lab el' for l in t.split('\n') if l) + '\n')
        for t in ['0 1\n1 2\n', '0 0\n', '1 0\n', '-1 0\n', '-0.0 1\n', '0 1\n1 1\n', 'nan 1\n', '0 nan\n', '0 inf\n', '-inf 0\n', 'inf inf\n',
                  '0 1\n0 2\n', '0\n', '0 1 2\n']:
            add('intervals', t)
            add('time_series', t)
            add('labeled_intervals', '\n'.join(l + ' N' for l in t.split('\n') if l) + '\n')
            add('valued_intervals', '\n'.join(l + ' 60' for l in t.split('\n') if l) + '\n')
        for t in ['0 1 2 3\n0.5\n1 5\n', 'time f0\n0 1\n', '#time f0\n0 1\n', '0 a\n', '0\t1\t\t2\n', '0 1_0 2\n', '\n', '0 1\n\n1 2\n', '0 1\n x\n',
                  '0 inf nan\n', 'nan\n', '0 1,2\n']:
            for h in (False, True):
                add('ragged', t, header=h)
                add('ragged', t, 'tab', header=h)
        return out

    def gen(self, rng, n):
        out = []
        while len(out) < n:
            fn = rng.choice(FNS)
            dname = rng.choice(D.MAIN_DELIMS) if rng.random() < 0.85 else rng.choice(sorted(D.DELIMS))
            cname = '#' if rng.random() < 0.8 else rng.choice(sorted(D.COMMENTS))
            r = rng.random()
            valid = r < 0.45 or r >= 0.75
            rows = body_rows(rng, fn, dname, valid)
            kind = 'valid' if valid else 'violating'
            # interleave comments
            if cname != 'none' and (fn != 'patterns' or rng.random() < 0.1):   # load_patterns knows no comments
                for _ in range(rng.choice([0, 0, 1, 2])):
                    rows.insert(rng.randrange(len(rows) + 1), D.comment_line(rng, cname))
            if r >= 0.75:
                kind = rng.choice(D.CORRUPTIONS)
                rows = D.corrupt(rng, kind, rows, CONVS_OF.get(fn, 'ff'), dname, cname)
            out.append({'fn': fn, 'text': D.assemble(rng, rows), 'delim': dname, 'comment': cname,
                        'header': rng.random() < 0.3, 'kind': kind})
        return out

    def call(self, fn, src, dre, cre, header):
        from mir_eval import io as mio
        if fn == 'patterns':
            return mio.load_patterns(src)
        if fn == 'ragged':
            return mio.load_ragged_time_series(src, dtype=float, delimiter=dre, header=header, comment=cre)
        return getattr(mio, 'load_' + fn)(src, delimiter=dre, comment=cre)

    def one(self, fn, mk_src, dre, cre, header):
        with warnings.catch_warnings(record=True) as rec:
            warnings.simplefilter('always')
            o = D.outcome_of(lambda: enc_result(fn, self.call(fn, mk_src(), dre, cre, header)))
        ws = [warn_kind(str(w.message)) for w in rec if issubclass(w.category, UserWarning)]
        other = sorted(set(w.category.__name__ for w in rec if not issubclass(w.category, UserWarning)))
        return {'out': o, 'warn': ws, 'other_warnings': other}

    def run(self, case):
        fn, text = case['fn'], case['text']
        dre = D.DELIMS[case['delim']][0]
        cre = D.COMMENTS[case['comment']][0]
        o1 = self.one(fn, lambda: pyio.StringIO(text), dre, cre, case['header'])
        o2 = None
        if '\r' not in text:
            d = D.tmp_path('io_wrappers')
            p = os.path.join(d, 'case.txt')
            try:
                D.write_text(p, text)
                o2 = self.one(fn, lambda: p, dre, cre, case['header'])
            finally:
                shutil.rmtree(d, ignore_errors=True)
        toks = candidate_tokens(text, dre)
        tab = [(t, py_float(t)) for t in toks]
        # informational only (not used by the model, whose conv is keyed by the exact token): float(t) == float(t.strip())
        # holds except for the ASCII separators \x1c-\x1f, which str.strip() removes but float() rejects in an ASCII string
        strip_ok = all(py_float(t) == py_float(t.strip()) for t in toks)
        tabv = [(t, np_float(t)) for t in toks] if fn == 'ragged' else []
        return {'sio': o1, 'path': o2, 'table': tab, 'tablev': tabv, 'float_strip_invariant': strip_ok}

    def cq_expect(self, fn, o):
        w = o['warn']
        if len(w) > 1 or any(k.startswith('UNKNOWN') for k in w):
            wq = '(Some WEventHuge)' if fn in ('key', 'tempo') else '(Some WKey)'   # not expressible: force a mismatch
        else:
            wq = '(Some %s)' % w[0] if w else 'None'
        return '(%s (%s,%s))' % (CTOR[fn], D.cq_rres(o['out'], lambda v: cq_result(fn, v)), wq)

    def emit(self, case, o):
        fn = case['fn']
        return '(mk %s (%s) %s %s %s %s %s %s)' % (
            D.cq_s(case['text']), D.DELIMS[case['delim']][1], D.COMMENTS[case['comment']][1], core.cq_bool(case['header']),
            D.cq_table(o['table']), D.cq_table(o['tablev']), self.cq_expect(fn, o['sio']),
            'None' if o['path'] is None else '(Some %s)' % self.cq_expect(fn, o['path']))

    def nontrivial(self, case, o):
        return o['sio']['out'][0] == 'ok' and o['sio']['out'][1] not in ([], [[], []])

    def shrink(self, case):
        t = case['text']
        for i in range(len(t)):
            yield dict(case, text=t[:i] + t[i + 1:])

    def distribution(self, pairs):
        d = {'by_fn': {}, 'path_run': 0, 'path_differs_from_stringio': 0, 'float_strip_invariant_violations': 0,
             'other_warning_classes': {}, 'by_kind': {}}
        for c, o in pairs:
            s = o['sio']
            f = d['by_fn'].setdefault(c['fn'], {'ok': 0, 'ok+warning': 0, 'raise': {}, 'raise+warning': 0})
            if s['out'][0] == 'ok':
                f['ok+warning' if s['warn'] else 'ok'] += 1
            else:
                k = s['out'][1] + ('@row' if s['out'][2] is not None else '')
                f['raise'][k] = f['raise'].get(k, 0) + 1
                if s['warn']:
                    f['raise+warning'] += 1
            for w in s['warn']:
                f[w] = f.get(w, 0) + 1
            if o['path'] is not None:
                d['path_run'] += 1
                if (o['path']['out'], o['path']['warn']) != (s['out'], s['warn']):
                    d['path_differs_from_stringio'] += 1
            if not o['float_strip_invariant']:
                d['float_strip_invariant_violations'] += 1
            for k in s['other_warnings']:
                d['other_warning_classes'][k] = d['other_warning_classes'].get(k, 0) + 1
            bk = d['by_kind'].setdefault(c.get('kind', '?'), {'ok': 0, 'exc': 0})
            bk['ok' if s['out'][0] == 'ok' else 'exc'] += 1
        return d


UNIT = U()
