"""util._fast_hit_windows / util.match_events (window path and distance=_outer_distance_mod_n path) vs ME.Model.Events.

Checked inside Coq, per case:
  * the hit-pair SET of _fast_hit_windows equals the model's fast_hit_windows (and both have the same number of pairs);
  * util.match_events(ref, est, w): the implementation's pairing is a valid matching of the model's hit set
    (pairs are hits, reference indices distinct, estimate indices distinct), has the SAME SIZE as the model's matching and,
    when the reference has no duplicate values (np.argsort is then deterministic), is identical pair by pair;
  * util.match_events(ref, est, w, distance=_outer_distance_mod_n): valid for hits_by_distance, same size, identical pairs
    (np.where is row-major, no tie freedom).
Events are k/64 (exact floats); the window is either a lattice value or the exact value of a float literal such as 0.07.
A case with a pair whose |ref-est| is within 1e-9 of (but not equal to) the window is skipped and counted (none expected)."""
from fractions import Fraction
from lib import core

DEN = 64
FLOAT_WINDOWS = [0.07, 0.05, 0.5, 0.2, 3.0, 0.1]


def frac_of(w):
    f = Fraction(w)
    return [f.numerator, f.denominator]


def near_threshold(ref, est, w):
    """#pairs with 0 < | |r-e| - w | < 1e-9 (exact arithmetic)."""
    wq = Fraction(w[0], w[1])
    n = 0
    for r in ref:
        for e in est:
            d = abs(Fraction(r - e, DEN)) - wq
            if d != 0 and abs(d) < Fraction(1, 10 ** 9):
                n += 1
    return n


def exact_threshold(ref, est, w):
    wq = Fraction(w[0], w[1])
    return sum(1 for r in ref for e in est if abs(Fraction(r - e, DEN)) == wq)


def greedy_size(hit_ref, hit_est):
    G = {}
    for r, e in zip(hit_ref, hit_est):
        G.setdefault(e, []).append(r)
    m = {}
    for u in G:
        for v in G[u]:
            if v not in m:
                m[v] = u
                break
    return len(m)


def gen_case(rng):
    kind = rng.random()
    if rng.random() < 0.55:
        wk = rng.choice([0, 1, 2, 3, 4, 8, 16, 32, 45])
        w = [wk, DEN]
        wl = wk
    else:
        wf = rng.choice(FLOAT_WINDOWS)
        w = frac_of(wf)
        wl = int(wf * DEN)          # lattice distance just below the window
    if rng.random() < 0.03:
        w = [-w[0], w[1]]           # negative window: no hits at all (slices start:end with end <= start)
    nr = rng.choice([0, 1, 1, 2, 3, 4, 5, 6, 8, 10])
    span = rng.choice([8, 32, 128, 640])
    base = rng.choice([0, 0, 64 * 5, 64 * 100, 64 * 29990])
    ref = sorted(base + rng.randint(0, span) for _ in range(nr))
    if ref and rng.random() < 0.35:     # duplicates
        for _ in range(rng.randint(1, 3)):
            ref.append(rng.choice(ref))
        ref.sort()
    if kind < 0.15:
        ne = rng.choice([0, 1, 2, 5])
        est = sorted(base + rng.randint(0, span) for _ in range(ne))
    else:
        est = []
        for r in ref:
            c = rng.random()
            if c < 0.3:
                est.append(r + rng.choice([-1, 1]) * wl)                 # exactly on / just inside the window
            elif c < 0.5:
                est.append(r + rng.choice([-1, 1]) * (wl + 1))           # just outside
            elif c < 0.65:
                est.append(r)
            elif c < 0.8:
                est.append(r + rng.randint(-wl - 2, wl + 2))
            elif c < 0.9:
                est.append(base + rng.randint(0, span))
        for _ in range(rng.choice([0, 0, 1, 2])):
            est.append(rng.choice(est) if est and rng.random() < 0.5 else base + rng.randint(0, span))
        est.sort()
    # util.match_events does not validate: a share of unsorted inputs (greedy initialisation then fails to be maximum)
    u = rng.random()
    if u < 0.25:
        rng.shuffle(est)
    elif u < 0.35:
        rng.shuffle(ref)
        rng.shuffle(est)
    # circular-distance path: window on the lattice
    wm = rng.choice([0, 16, 32, 64, 96, 6 * 64])
    return {'ref': ref, 'est': est, 'w': w, 'wm': [wm, DEN]}


class U(core.Unit):
    name = 'match_events'
    requires = ['ME.Model.Prelude', 'ME.Model.Dict', 'ME.Model.Matching', 'ME.Model.Events']
    mirrors = [('mir_eval/util.py', f) for f in ['match_events', '_fast_hit_windows', '_outer_distance_mod_n', '_bipartite_match']]
    counts = {'quick': 1500, 'thorough': 15000}
    shard = 250
    header = '''
Definition eqnn (a b : nat * nat) : bool := Nat.eqb (fst a) (fst b) && Nat.eqb (snd a) (snd b).
Definition memp (p : nat * nat) (l : list (nat * nat)) : bool := existsb (eqnn p) l.
Definition subset (a b : list (nat * nat)) : bool := forallb (fun p => memp p b) a.
Definition set_eq (a b : list (nat * nat)) : bool := subset a b && subset b a && Nat.eqb (List.length a) (List.length b).
Fixpoint nodupn (l : list nat) : bool := match l with [] => true | x :: t => negb (existsb (Nat.eqb x) t) && nodupn t end.
Definition valid_matching (hits m : list (nat * nat)) : bool := subset m hits && nodupn (map fst m) && nodupn (map snd m).
Definition agree (hits impl : list (nat * nat)) (model : option (list (nat * nat))) (exact : bool) : bool :=
  match model with
  | None => false
  | Some m => valid_matching hits impl && valid_matching hits m && Nat.eqb (List.length impl) (List.length m)
              && (if exact then list_eqb eqnn impl m else true)
  end.
(* (ref, est, window, window of the mod-12 path, reference has distinct values, impl _fast_hit_windows pairs,
    impl match_events, impl match_events with distance=_outer_distance_mod_n) *)
Definition check_case (c : list Q * list Q * Q * Q * bool * list (nat * nat) * list (nat * nat) * list (nat * nat)) : bool :=
  let '(ref, est, w, wm, distinct, fhw, me, med) := c in
  let hits := fast_hit_windows ref est w in
  let hitsd := hits_by_distance (outer_distance_mod_n 12) ref est wm in
  set_eq fhw hits && nodupn (map (fun p => fst p * S (List.length est) + snd p)%nat hits)
  && agree hits me (match_events ref est w) distinct
  && agree hitsd med (match_events_dist (outer_distance_mod_n 12) ref est wm) true.
'''

    def __init__(self):
        self.skipped_near = 0

    def exhaustive(self, tier):
        D = DEN
        w7 = frac_of(0.07)
        cs = [
            {'ref': [], 'est': [], 'w': [1, 2], 'wm': [32, D]},
            {'ref': [64], 'est': [], 'w': [1, 2], 'wm': [32, D]},
            {'ref': [], 'est': [64], 'w': [1, 2], 'wm': [32, D]},
            {'ref': [64], 'est': [64], 'w': [0, 1], 'wm': [0, D]},
            {'ref': [64], 'est': [96], 'w': [1, 2], 'wm': [32, D]},          # exactly window away
            {'ref': [64], 'est': [97], 'w': [1, 2], 'wm': [32, D]},
            {'ref': [64, 128], 'est': [96, 32], 'w': [1, 2], 'wm': [32, D]},  # greedy takes ref 0 for est 0; est 1 needs it
            {'ref': [64, 64, 64], 'est': [64, 64], 'w': [0, 1], 'wm': [0, D]},
            {'ref': [64, 68, 69], 'est': [64, 64], 'w': w7, 'wm': [0, D]},
            {'ref': [0, 11 * 64 + 32], 'est': [12 * 64, 64 * 23], 'w': [1, 2], 'wm': [32, D]},   # circular distance wraps
            {'ref': [-64, 64 * 13], 'est': [64 * 11, 64], 'w': [1, 2], 'wm': [0, D]},
            {'ref': [128, 64, 96], 'est': [100, 60, 130], 'w': [1, 16], 'wm': [4, D]},           # unsorted reference
        ]
        # all sorted ref/est over a 4-point grid up to 3x3 with window = one grid step (exact thresholds everywhere)
        import itertools
        grid = [0, 8, 16, 24]
        ex = []
        for nr in range(0, 4):
            for ne in range(0, 4):
                for r in itertools.combinations_with_replacement(grid, nr):
                    for e in itertools.product(grid, repeat=ne):
                        ex.append({'ref': list(r), 'est': list(e), 'w': [8, D], 'wm': [8, D]})
        return cs + (ex[::7] if tier == 'quick' else ex)

    def gen(self, rng, n):
        out = []
        while len(out) < n:
            c = gen_case(rng)
            if near_threshold(c['ref'], c['est'], c['w']):
                self.skipped_near += 1
                continue
            out.append(c)
        return out

    def run(self, case):
        import numpy as np
        from mir_eval import util
        ref = np.array([k / DEN for k in case['ref']], dtype=float)
        est = np.array([k / DEN for k in case['est']], dtype=float)
        w = case['w'][0] / case['w'][1]
        assert Fraction(w) == Fraction(*case['w'])
        wm = case['wm'][0] / case['wm'][1]
        out = {}
        t, v = core.call_impl(util._fast_hit_windows, ref, est, w)
        out['fhw'] = [[int(a), int(b)] for a, b in zip(*v)] if t == 'ok' else None
        t, v = core.call_impl(util.match_events, ref, est, w)
        out['me'] = [[int(a), int(b)] for a, b in v] if t == 'ok' else None
        t, v = core.call_impl(util.match_events, ref, est, wm, util._outer_distance_mod_n)
        out['med'] = [[int(a), int(b)] for a, b in v] if t == 'ok' else None
        if out['fhw'] is not None:
            out['greedy'] = greedy_size([p[0] for p in out['fhw']], [p[1] for p in out['fhw']])
        return out

    def emit(self, case, out):
        q = lambda k: core.cq_Q(Fraction(k, DEN))
        pl = lambda l: (core.cq_list(['(%d,%d)' % (a, b) for a, b in l]) if l is not None else '[(99,99);(99,99)]') + '%nat'
        distinct = len(set(case['ref'])) == len(case['ref'])
        return '(%s,%s,%s,%s,%s,%s,%s,%s)' % (
            core.cq_list([q(k) for k in case['ref']]), core.cq_list([q(k) for k in case['est']]),
            core.cq_Q(Fraction(*case['w'])), core.cq_Q(Fraction(*case['wm'])), core.cq_bool(distinct),
            pl(out['fhw']), pl(out['me']), pl(out['med']))

    def nontrivial(self, case, out):
        return bool(out['me']) and len(out['me']) >= 1

    def shrink(self, case):
        for key in ('ref', 'est'):
            l = case[key]
            for i in range(len(l)):
                c = dict(case)
                c[key] = l[:i] + l[i + 1:]
                yield c

    def distribution(self, pairs):
        d = {'skipped_near_threshold': self.skipped_near, 'exact_threshold_pairs': 0, 'cases_with_exact_threshold': 0,
             'greedy_lt_maximum': 0, 'ref_with_duplicates': 0, 'unsorted_ref': 0, 'unsorted_est': 0, 'float_window': 0,
             'negative_window': 0, 'impl_raised': 0}
        sizes, msz = {}, {}
        for c, o in pairs:
            x = exact_threshold(c['ref'], c['est'], c['w'])
            d['exact_threshold_pairs'] += x
            d['cases_with_exact_threshold'] += 1 if x else 0
            if o['me'] is None or o['fhw'] is None or o['med'] is None:
                d['impl_raised'] += 1
                continue
            if o['greedy'] < len(o['me']):
                d['greedy_lt_maximum'] += 1
            if len(set(c['ref'])) < len(c['ref']):
                d['ref_with_duplicates'] += 1
            if c['ref'] != sorted(c['ref']):
                d['unsorted_ref'] += 1
            if c['est'] != sorted(c['est']):
                d['unsorted_est'] += 1
            if c['w'][1] not in (1, 2, 4, 8, 16, 32, 64):
                d['float_window'] += 1
            if c['w'][0] < 0:
                d['negative_window'] += 1
            k = '%dx%d' % (min(len(c['ref']), 9), min(len(c['est']), 9))
            k = 'ref<=%d,est<=%d' % (3 * ((len(c['ref']) + 2) // 3), 3 * ((len(c['est']) + 2) // 3))
            sizes[k] = sizes.get(k, 0) + 1
            m = 'matching=%d' % len(o['me'])
            msz[m] = msz.get(m, 0) + 1
        d['sizes'] = sizes
        d['matching_sizes'] = msz
        return d


UNIT = U()
