"""segment._contingency_matrix / _adjusted_rand_index on frame-index arrays and segment.pairwise / rand_index / ari
on interval annotations (frames taken from the implementation's own sampling) vs ME.Model.SegmentCluster."""
import math
from fractions import Fraction
from lib import core

FS = 0.25
POOL = ['a', 'A', 'b', 'B', 'c', 'verse', 'Verse', 'VERSE', 'chorus', 'Chorus', 'x', '', 'ab', 'aB', 'Z', 'z', 'a1', 'A1']


def xv(x):
    x = float(x)
    if math.isnan(x):
        return 'NaN'
    if math.isinf(x):
        return 'PInf' if x > 0 else 'NInf'
    return '(Fin %s)' % core.cq_Q(x)


def intervals(bounds):
    import numpy as np
    return np.array([[bounds[i], bounds[i + 1]] for i in range(len(bounds) - 1)], dtype=float).reshape(-1, 2)


def expected_frames(bounds, labels):
    """frames k/4, label of the interval with start <= t < end; index = rank among the sorted distinct lower-cased"""
    n = int(math.floor(bounds[-1] / FS))
    labs = []
    for k in range(n):
        t = k * FS
        lab = None
        for i in range(len(labels)):
            if bounds[i] <= t < bounds[i + 1]:
                lab = labels[i]
        labs.append(lab.lower())
    u = sorted(set(labs))
    return [u.index(s) for s in labs]


class U(core.Unit):
    name = 'seg_cluster_q'
    requires = ['ME.Model.Prelude', 'ME.Model.SegmentCluster']
    mirrors = [('mir_eval/segment.py', f) for f in ['pairwise', 'rand_index', '_contingency_matrix', '_adjusted_rand_index', 'ari',
                                                   'validate_structure']] + [('mir_eval/util.py', 'f_measure'), ('mir_eval/util.py', 'index_labels')]
    counts = {'quick': 1500, 'thorough': 20000}
    shard = 250
    header = '''
Definition tol : Q := (1#1000000000).
Inductive case :=
| Idx (yr ye : list nat) (tab : res (list (list nat))) (ar : res xval)
| Pub (ri : list (Q * Q)) (nrl : nat) (ei : list (Q * Q)) (nel : nat) (yr ye : list nat) (beta : Q) (pw : res (xval * xval * xval)) (rd : res xval) (ar : res xval) (frames_ok : bool).
Definition x3_eqb (a b : xval * xval * xval) : bool :=
  let '(a1, a2, a3) := a in let '(b1, b2, b3) := b in xval_eqb tol a1 b1 && xval_eqb tol a2 b2 && xval_eqb tol a3 b3.
Definition fin (r : res Q) : res xval := match r with Ok q => Ok (Fin q) | Raise e => Raise e end.
Definition check_case (c : case) : bool :=
  match c with
  | Idx yr ye tab ar =>
      res_eqb (list_eqb (list_eqb Nat.eqb)) (contingency yr ye) tab && res_eqb (xval_eqb tol) (fin (ari_idx yr ye)) ar
  | Pub ri nrl ei nel yr ye beta pw rd ar ok =>
      ok && res_eqb x3_eqb (pairwise_full ri nrl ei nel yr ye beta) pw
         && res_eqb (xval_eqb tol) (rand_index_full ri nrl ei nel yr ye) rd
         && res_eqb (xval_eqb tol) (fin (ari_full ri nrl ei nel yr ye)) ar
  end.
Open Scope nat_scope.
'''

    # ---- generators -------------------------------------------------------------------------------------------
    def exhaustive(self, tier):
        import itertools
        out = []
        top = 3 if tier == 'quick' else 4
        for n in range(0, top + 1):
            seqs = list(itertools.product(range(3), repeat=n))
            for a in seqs:
                for b in seqs:
                    out.append({'kind': 'idx', 'yr': list(a), 'ye': list(b)})
        for a, b in [([], [0]), ([0], []), ([0, 0, 0], [0]), ([0, 0, 1], [0, 1]), ([0, 1], [0, 0, 0]), ([0, 1, 2], [0, 1]), ([5, 2, 2, 9], [1, 1, 7, 7]),
                     ([0, 0], [3])]:
            out.append({'kind': 'idx', 'yr': a, 'ye': b})
        # public functions: degenerate frame counts, empties, end times within allclose but on different frame counts
        eps = 1e-9
        pubs = [
            ([0, .25], ['a'], [0, .25], ['b']),                       # 1 frame
            ([0, .5], ['a'], [0, .5], ['A']),                         # 2 frames, one cluster
            ([0, .25, .5], ['a', 'b'], [0, .25, .5], ['a', 'b']),     # 2 frames, all singletons: pairwise nan, ari 1
            ([0, .25, .5], ['a', 'b'], [0, .5], ['a']),
            ([0, .5], ['a'], [0, .25, .5], ['x', 'y']),
            ([0, .2], ['a'], [0, .2], ['a']),                         # 0 frames
            ([0], [], [0], []), ([0], [], [0, .5], ['a']), ([0, .5], ['a'], [0], []),   # empty annotations
            ([0, .5], ['a'], [0, .5 - eps], ['a']),                   # 2 vs 1 frame: broadcast
            ([0, .25], ['a'], [0, .25 - eps], ['a']),                 # 1 vs 0 frames: broadcast to (0,0)
            ([0, .25 - eps], ['a'], [0, .25], ['a']),
            ([0, 1.0], ['a'], [0, 1.0 - eps], ['a']),                 # 4 vs 3 frames: ValueError / ari special case
            ([0, .5, 1.0], ['a', 'b'], [0, .5, 1.0 - eps], ['a', 'b']),
            ([0, .25, .5], ['a', 'b'], [0, .5 - eps], ['a']),
            ([0, .5 - eps], ['a'], [0, .25, .5], ['a', 'b']),
            ([0, .5, 1.0], ['a', 'b'], [0, 1.0, 1.5], ['a', 'b']),    # end times do not match
            ([.25, .5], ['a'], [.25, .5], ['a']),                     # does not start at 0
            ([0, .5], ['a', 'b'], [0, .5], ['a']),                    # label count mismatch
            ([0, .5, 1.0, 1.5], ['a', 'b', 'a'], [0, .5, 1.0, 1.5], ['A', 'B', 'A']),
        ]
        for rb, rl, eb, el in pubs:
            for beta in (1.0, 0.5):
                out.append({'kind': 'pub', 'rb': rb, 'rl': rl, 'eb': eb, 'el': el, 'beta': beta, 'expect': False})
        out.append({'kind': 'pub', 'rb': [0, .5, 1.0], 'rl': ['a', 'b'], 'eb': [0, 1.0], 'el': ['c'], 'beta': 0.0, 'expect': True})
        out.append({'kind': 'pub', 'rb': [0, 1.0], 'rl': ['c'], 'eb': [0, .5, 1.0], 'el': ['a', 'b'], 'beta': 0.0, 'expect': True})
        return out

    def _seq(self, rng, n):
        kind = rng.random()
        if n == 0:
            return []
        if kind < 0.12:
            return [rng.randint(0, 3)] * n                       # one cluster
        if kind < 0.24:
            p = list(range(n))
            rng.shuffle(p)
            return p                                             # all singletons
        k = rng.choice([1, 2, 2, 3, 3, 4, 5, 8, n])
        vals = rng.sample(range(0, 12), min(k, 12)) if rng.random() < 0.3 else list(range(k))
        if rng.random() < 0.5:
            # segment-like: runs
            out = []
            while len(out) < n:
                out += [rng.choice(vals)] * rng.randint(1, max(1, n // 3))
            return out[:n]
        return [rng.choice(vals) for _ in range(n)]

    def _annotation(self, rng, nframes, step):
        """contiguous segments covering nframes frames; segment lengths multiples of `step` frames"""
        bounds, labels = [0.0], []
        pool = rng.sample(POOL, rng.choice([1, 2, 3, 4, 6]))
        left = nframes
        single = rng.random() < 0.1
        while left > 0:
            ln = step * rng.randint(1, max(1, left // step if rng.random() < 0.3 else min(4, left // step)))
            if single:
                ln = step
            ln = min(ln, left)
            bounds.append(bounds[-1] + ln * FS)
            labels.append(('s%d' % len(labels)) if single else rng.choice(pool))
            left -= ln
        return bounds, labels

    def gen(self, rng, n):
        cases = []
        for _ in range(n):
            r = rng.random()
            if r < 0.45:
                m = rng.choice([0, 1, 2, 2, 3, 4, 5, 6, 8, 10, 12, 16, 20, 24, 30])
                a = self._seq(rng, m)
                q = rng.random()
                if q < 0.15:
                    perm = list(range(0, 40))
                    rng.shuffle(perm)
                    b = [perm[x] for x in a]                   # same partition, relabelled
                elif q < 0.25:
                    b = [x // 2 for x in a]                    # coarsening
                elif q < 0.30:
                    b = self._seq(rng, max(0, m + rng.choice([-1, 1, 2])))   # unequal lengths
                else:
                    b = self._seq(rng, m)
                cases.append({'kind': 'idx', 'yr': a, 'ye': b})
            else:
                step = rng.choice([2, 2, 1])
                nf = step * rng.randint(1, 16 // step if rng.random() < 0.8 else 40 // step)
                rb, rl = self._annotation(rng, nf, step)
                if rng.random() < 0.2:
                    eb, el = list(rb), [rng.choice([s.upper(), s.lower(), s.swapcase()]) for s in rl]   # same partition up to case
                else:
                    eb, el = self._annotation(rng, nf, step)
                beta = rng.choice([1.0, 1.0, 1.0, 0.5, 2.0, 0.25, 0.0])
                cases.append({'kind': 'pub', 'rb': rb, 'rl': rl, 'eb': eb, 'el': el, 'beta': beta, 'expect': True})
        return cases

    # ---- implementation ---------------------------------------------------------------------------------------
    def run(self, case):
        import numpy as np
        from mir_eval import segment as S, util
        if case['kind'] == 'idx':
            yr, ye = np.array(case['yr'], dtype=int), np.array(case['ye'], dtype=int)
            t, v = core.call_impl(S._contingency_matrix, yr, ye)
            tab = ['ok', [[int(x) for x in row] for row in v]] if t == 'ok' else ['exc', v]
            t, v = core.call_impl(S._adjusted_rand_index, yr, ye)
            ar = ['ok', xv(v)] if t == 'ok' else ['exc', v]
            return {'tab': tab, 'ari': ar}
        ri, ei = intervals(case['rb']), intervals(case['eb'])
        rl, el = list(case['rl']), list(case['el'])
        empty = bool(ri.size == 0 or ei.size == 0)
        frames, ok = [], True
        for iv, lb, bd in ((ri, rl, case['rb']), (ei, el, case['eb'])):
            if iv.size == 0 or iv.shape[0] != len(lb):
                frames.append([])
                continue
            t, v = core.call_impl(lambda: util.index_labels(util.intervals_to_samples(iv, lb, sample_size=FS)[-1])[0])
            if t != 'ok':
                frames.append([])
                continue
            y = [int(x) for x in v]
            if case.get('expect') and y != expected_frames(bd, lb):
                ok = False
            frames.append(y)
        beta = case['beta']
        t, v = core.call_impl(S.pairwise, ri, rl, ei, el, frame_size=FS, beta=beta)
        pw = ['ok', '(%s,%s,%s)' % tuple(xv(x) for x in v)] if t == 'ok' and isinstance(v, tuple) and len(v) == 3 else ['exc', v if t != 'ok' else 'BadShape']
        t, v = core.call_impl(S.rand_index, ri, rl, ei, el, frame_size=FS)
        rd = ['ok', xv(v)] if t == 'ok' and not isinstance(v, tuple) else ['exc', v if t != 'ok' else 'BadShape']
        t, v = core.call_impl(S.ari, ri, rl, ei, el, frame_size=FS)
        ar = ['ok', xv(v)] if t == 'ok' and not isinstance(v, tuple) else ['exc', v if t != 'ok' else 'BadShape']
        return {'empty': empty, 'yr': frames[0], 'ye': frames[1], 'frames_ok': ok, 'pw': pw, 'rd': rd, 'ari': ar}

    def emit(self, case, out):
        nl = lambda l: core.cq_list([str(int(x)) for x in l])
        ident = lambda s: s
        if case['kind'] == 'idx':
            tab = core.cq_res(out['tab'], lambda m: core.cq_list([nl(r) for r in m]))
            return '(Idx %s %s %s %s)' % (nl(case['yr']), nl(case['ye']), tab, core.cq_res(out['ari'], ident))
        ivs = lambda bd: core.cq_list(['(%s,%s)' % (core.cq_Q(bd[i]), core.cq_Q(bd[i + 1])) for i in range(len(bd) - 1)])
        return '(Pub %s %d %s %d %s %s %s %s %s %s %s)' % (ivs(case['rb']), len(case['rl']), ivs(case['eb']), len(case['el']), nl(out['yr']), nl(out['ye']), core.cq_Q(case['beta']),
                                                 core.cq_res(out['pw'], ident), core.cq_res(out['rd'], ident),
                                                 core.cq_res(out['ari'], ident), core.cq_bool(out['frames_ok']))

    def nontrivial(self, case, out):
        if case['kind'] == 'idx':
            return out['tab'][0] == 'ok' and len(out['tab'][1]) >= 2
        return out['pw'][0] == 'ok' and 'NaN' not in out['pw'][1] and len(set(out['yr'])) >= 2

    def shrink(self, case):
        if case['kind'] == 'idx':
            a, b = case['yr'], case['ye']
            for i in range(max(len(a), len(b))):
                yield {'kind': 'idx', 'yr': a[:i] + a[i + 1:], 'ye': b[:i] + b[i + 1:]}
        else:
            for key, lk in (('rb', 'rl'), ('eb', 'el')):
                bd, lb = case[key], case[lk]
                for i in range(1, len(bd) - 1):
                    c = dict(case)
                    c[key] = bd[:i] + bd[i + 1:]
                    c[lk] = lb[:i] + lb[i + 1:]
                    yield c

    def distribution(self, pairs):
        d = {}

        def inc(k):
            d[k] = d.get(k, 0) + 1
        for c, o in pairs:
            inc(c['kind'])
            if c['kind'] == 'idx':
                inc('idx:tab_' + ('ok' if o['tab'][0] == 'ok' else o['tab'][1]))
                inc('idx:ari_' + ('ok' if o['ari'][0] == 'ok' else o['ari'][1]))
                if o['ari'][0] == 'ok':
                    R, C, n = len(set(c['yr'])), len(set(c['ye'])), len(c['yr'])
                    inc('idx:ari_special' if (R == C == 1 or R == C == 0 or R == C == n) else 'idx:ari_general')
                inc('idx:frames<=%d' % (8 * ((len(c['yr']) + 7) // 8)))
            else:
                if o['empty']:
                    inc('pub:empty')
                if not o['frames_ok']:
                    inc('pub:FRAMES_UNEXPECTED')
                for k in ('pw', 'rd', 'ari'):
                    v = o[k]
                    if v[0] != 'ok':
                        inc('pub:%s_%s' % (k, v[1]))
                    elif 'NaN' in v[1] or 'Inf' in v[1]:
                        inc('pub:%s_nonfinite' % k)
                    else:
                        inc('pub:%s_finite' % k)
                if len(o['yr']) != len(o['ye']):
                    inc('pub:frame_count_mismatch')
                inc('pub:beta=%s' % c['beta'])
        return d


UNIT = U()
