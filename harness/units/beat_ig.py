"""The exact skeleton of beat.information_gain / _get_entropy vs ME.Model.Beat.information_gain_counts: the forward and
the backward beat-error histograms (raw_bin_values before normalisation), the early return, exceptions and warnings.

The two histograms are observed by running the real information_gain with `mir_eval.beat.np` temporarily replaced by
a recording proxy (every attribute is NumPy's; `histogram` also records its arguments and result); they are compared
exactly (lists of nat) with the model inside Coq.  The float score is then compared IN PYTHON with
(log2(bins) - max-entropy)/log2(bins) recomputed with math.log2 from those same counts (tolerance 1e-9, nan = nan):
this last step is a numeric test, not a Coq comparison; its outcome is passed to Coq as a boolean.

Lattice: beat times are k/64.  Exact stream: reference AND estimate intervals are powers of two, so every normalised
error 0.5*err/interval, the np.mod wrapping and (for a power-of-two number of bins) the histogram edges are exact;
errors exactly on bin edges, on +-1/2 and zero intervals (duplicates: non-finite errors are ignored by np.histogram)
are constructed.  Float stream: arbitrary lattice intervals; a case is dropped (and counted) when some float error is
within 1e-9 of a float histogram edge (the edges k/bins - 1/2 are not dyadic for bins = 41)."""
import math
import warnings
from lib import core
from harness.units.beat_q import call_w, arr, invalid, L

BINS = [41, 41, 41, 40, 8, 16, 5, 2, 1, 3]


def entropy(counts):
    n = float(sum(counts))
    if n == 0:
        return float('nan')
    h = 0.0
    for c in counts:
        if c:
            p = c / n
            h -= p * math.log2(p)
    return h


class U(core.Unit):
    name = 'beat_ig'
    requires = ['ME.Model.Prelude', 'ME.Model.Beat']
    mirrors = [('mir_eval/beat.py', f) for f in ['validate', 'information_gain', '_get_entropy', 'MAX_TIME']] + [('mir_eval/util.py', 'validate_events')]
    counts = {'quick': 1500, 'thorough': 15000}
    shard = 250
    header = '''
Open Scope Q_scope.
Definition nl := list_eqb Nat.eqb.
Definition wl := list_eqb bwarn_eqb.
Definition check_case (c : (list Q * list Q * nat) * res (option (list nat * list nat)) * bool * list bwarn) : bool :=
  let '((ref, est, bins), out, numeric_ok, ws) := c in
  res_eqb (opt_eqb (pair_eqb nl nl)) (information_gain_counts ref est bins) out && numeric_ok
  && wl (information_gain_warns ref est bins) ws.
'''

    def __init__(self):
        self.dropped_fragile = 0

    def C(self, ref, est, bins=41, exact=False):
        return {'ref': [float(x) for x in ref], 'est': [float(x) for x in est], 'bins': bins, 'exact': bool(exact)}

    def exhaustive(self, tier):
        C = self.C
        out = []
        per = L(range(320, 320 + 64 * 8, 64))
        for r, e in [([], []), ([5.0], []), ([], [5.0]), ([5.0], [5.0]), ([5.0, 6.0], [5.0]), ([5.0], [5.0, 6.0]), ([5.0, 6.0], [5.0, 6.0]),
                     (per, per), ([6.0, 5.0], [5.0, 6.0]), ([5.0, 6.0], [30000.5, 30001.0]), ([5.0, 5.0], [5.0, 6.0]), ([5.0, 6.0], [5.0, 5.0]),
                     ([5.0, 5.0], [5.0, 5.0]), ([5.0, 5.0, 6.0, 7.0], [5.0, 6.0, 7.0]), ([5.0, 6.0, 7.0, 8.0], [4.75, 6.0, 7.0, 8.0]),
                     ([5.0, 6.0, 7.0, 8.0], [4.0, 4.5, 9.0, 9.5]), ([5.0, 6.0, 7.0, 8.0], [5.5, 6.5, 7.5]), ([5.0, 6.0, 7.0, 8.0], [5.25, 6.25, 6.75, 7.5]),
                     ([5.0, 6.0, 7.0, 8.0], [5.125, 5.875, 7.0625, 8.0])]:
            for b in (41, 8, 4, 1, 2):
                out.append(C(r, e, b, exact=True))
        # errors exactly on the edges of 8 bins (interval 1: error = offset; edges k/8 - 1/2)
        for d in [0.0, 0.125, -0.125, 0.25, -0.25, 0.375, -0.375, 0.5, -0.5, 0.0625, 0.4375, -0.4375]:
            e = list(per)
            e[3] = per[3] + d
            e.sort()
            for b in (8, 16, 41):
                out.append(C(per, e, b, exact=True))
        return out

    def gen_one(self, rng):
        exact = rng.random() < 0.5
        n = rng.choice([2, 3, 4, 5, 6, 8, 10, 12, 16, 20])
        base = rng.choice([0, 320, 320, 333, 64 * 100 + 7, 64 * 20000 + 11, -64 * 3])
        if exact:
            p = rng.choice([16, 32, 64, 128])
            ks = [base + i * p for i in range(n)]
            # the estimate must have power-of-two intervals too (backward entropy divides by them)
            q = rng.choice([p, p, p // 2, 2 * p])
            off = rng.choice([0, 0, p // 2, p // 4, p // 8, 3 * p // 8, p // 16, -p // 4, -p // 2])
            m = rng.choice([n, n, n - 1, n + 2, 2 * n])
            es = [base + off + i * q for i in range(max(m, 0))]
            if rng.random() < 0.3:                                  # drop the head / the tail (still regular)
                es = es[rng.randint(0, 2):len(es) - rng.randint(0, 2)]
            if rng.random() < 0.15 and ks:
                ks.append(rng.choice(ks))
                ks.sort()
            if rng.random() < 0.1 and es:
                es.append(rng.choice(es))
                es.sort()
        else:
            p = rng.choice([20, 24, 30, 32, 40, 45, 50, 64, 77, 96])
            j = rng.choice([0, 1, 3])
            ks = [base]
            for _ in range(n - 1):
                ks.append(ks[-1] + max(1, p + rng.randint(-j, j)))
            style = rng.choice(['jitter', 'jitter', 'double', 'half', 'offbeat', 'self', 'holes', 'random'])
            jit = rng.choice([0, 1, 2, 4, 8, 16])
            if style in ('jitter', 'holes'):
                es = sorted(k + rng.randint(-jit, jit) for k in ks if style == 'jitter' or rng.random() < 0.7)
            elif style == 'double':
                es = sorted(ks + [(a + b) // 2 + rng.randint(-jit, jit) for a, b in zip(ks, ks[1:])])
            elif style == 'half':
                es = sorted(k + rng.randint(-jit, jit) for k in ks[rng.randint(0, 1)::2])
            elif style == 'offbeat':
                es = sorted((a + b) // 2 + rng.randint(-jit, jit) for a, b in zip(ks, ks[1:]))
            elif style == 'self':
                es = list(ks)
            else:
                es = sorted(rng.randint(ks[0] - 40, ks[-1] + 40) for _ in range(rng.choice([2, 3, 5, 9])))
            if rng.random() < 0.08 and ks:
                ks.append(rng.choice(ks))
                ks.sort()
        s = rng.random()
        if s < 0.04:
            ks = ks[:rng.choice([0, 1, 1])]
        elif s < 0.08:
            es = es[:rng.choice([0, 1, 1])]
        elif s < 0.10 and len(ks) > 1:
            i = rng.randrange(len(ks) - 1)
            ks[i], ks[i + 1] = ks[i + 1] + 1, ks[i]
        elif s < 0.12 and len(es) > 1:
            i = rng.randrange(len(es) - 1)
            es[i], es[i + 1] = es[i + 1] + 1, es[i]
        elif s < 0.13:
            (ks if rng.random() < 0.5 else es).append(64 * 30000 + rng.choice([1, 64]))
        bins = rng.choice([8, 16, 4, 32, 41, 41, 2, 1]) if exact else rng.choice(BINS)
        return self.C(L(ks), L(es), bins, exact)

    def observe(self, case):
        from mir_eval import beat as B
        return call_w(B.information_gain, arr(case['ref']), arr(case['est']), bins=case['bins'], record=('histogram',))

    def fragile(self, case):
        import numpy as np
        if case['exact']:
            return False
        edges = np.linspace(-0.5, 0.5, case['bins'] + 1)
        # the wrapped errors are observed through a proxy run that records the results of np.mod
        from mir_eval import beat as B
        o2, w2, rec2 = call_w(B.information_gain, arr(case['ref']), arr(case['est']), bins=case['bins'], record=('mod',))
        for m in rec2['mod']:
            x = np.asarray(m, dtype=float) + 0.5
            x = x[np.isfinite(x)]
            if x.size:
                dist = np.abs(x[:, None] - edges[None, :])
                if np.any((dist < 1e-9) & (dist > 0)):       # bitwise equality with an edge is not a rounding hazard
                    return True
        return False

    def gen(self, rng, n):
        out, tries = [], 0
        while len(out) < n and tries < 20 * n:
            tries += 1
            c = self.gen_one(rng)
            if self.fragile(c):
                self.dropped_fragile += 1
                continue
            out.append(c)
        return out

    def run(self, case):
        o, w, rec = self.observe(case)
        out = {'w': w}
        if o[0] != 'ok':
            out['ig'] = ['exc', o[1]]
            out['num'] = True
            return out
        v = float(o[1])
        hs = [[int(x) for x in h[0]] for h in rec['histogram']]
        if not hs:
            out['ig'] = ['ok', None]
            out['num'] = (v == 0.0)
            return out
        assert len(hs) == 2
        out['ig'] = ['ok', hs]
        bins = case['bins']
        f, b = entropy(hs[0]), entropy(hs[1])
        with warnings.catch_warnings():
            warnings.simplefilter('ignore')
            norm = math.log2(bins)
            try:
                want = (norm - f) / norm if f > b else (norm - b) / norm
            except ZeroDivisionError:
                want = float('nan')
        out['score'] = v if math.isfinite(v) else None
        out['num'] = (math.isnan(want) and math.isnan(v)) or (math.isfinite(want) and math.isfinite(v) and abs(want - v) <= 1e-9)
        return out

    def emit(self, case, out):
        Q = core.cq_Q
        ql = lambda l: core.cq_list([Q(float(x)) for x in l])
        nl = lambda l: '(' + core.cq_list([core.cq_nat(x) for x in l]) + ')%nat'
        ig = core.cq_res(out['ig'], lambda v: core.cq_opt(v, lambda p: '(%s,%s)' % (nl(p[0]), nl(p[1]))))
        return '((%s,%s,%s%%nat),%s,%s,%s)' % (ql(case['ref']), ql(case['est']), core.cq_nat(case['bins']), ig, core.cq_bool(out['num']),
                                          core.cq_list(out['w']))

    def nontrivial(self, case, out):
        return out['ig'][0] == 'ok' and out['ig'][1] is not None and sum(1 for c in out['ig'][1][0] if c) > 1

    def shrink(self, case):
        for k in ('ref', 'est'):
            for i in range(len(case[k])):
                c = dict(case)
                c[k] = case[k][:i] + case[k][i + 1:]
                yield c

    def distribution(self, pairs):
        d = {'dropped_fragile(error within 1e-9 of a histogram edge)': self.dropped_fragile}

        def inc(k):
            d[k] = d.get(k, 0) + 1
        for c, o in pairs:
            inc('exact_stream' if c['exact'] else 'float_stream')
            inc('bins=%d' % c['bins'])
            if o['ig'][0] == 'exc':
                inc('exc:' + o['ig'][1])
            elif o['ig'][1] is None:
                inc('early_return')
            else:
                f, b = o['ig'][1]
                inc('computed')
                if sum(f) < len(c['est']) or sum(b) < len(c['ref']):
                    inc('non-finite errors ignored (zero interval)')
                if c['est'] and c['ref'] and c['est'][0] < c['ref'][0]:
                    inc('estimate before the first reference beat (first interval)')
                s = o.get('score')
                inc('score:nan' if s is None else 'score:1' if s == 1 else 'score:0' if s == 0 else 'score:(0,1)' if 0 < s < 1 else 'score:other')
            for w in set(o['w']):
                inc(w)
        return d


UNIT = U()
