"""Skeleton of the entropic segment scores (contingency table, marginals, N, special-case flag) vs
ME.Model.SegmentCluster.mi_skeleton, and segment.vmeasure == segment.nce(marginal=True) bit for bit (both functions are
called; the comparison of the two float triples is done inside Coq on their exact values)."""
from lib import core
from harness.units import seg_cluster_q as Q


class U(core.Unit):
    name = 'seg_entropy_skel'
    requires = ['ME.Model.Prelude', 'ME.Model.SegmentCluster']
    mirrors = [('mir_eval/segment.py', f) for f in ['vmeasure', 'nce', '_contingency_matrix', '_mutual_info_score', '_adjusted_mutual_info_score',
                                                   '_normalized_mutual_info_score']]
    counts = {'quick': 600, 'thorough': 6000}
    shard = 300
    header = '''
Definition x3_same (a b : xval * xval * xval) : bool :=
  let '(a1, a2, a3) := a in let '(b1, b2, b3) := b in xval_eqb 0 a1 b1 && xval_eqb 0 a2 b2 && xval_eqb 0 a3 b3.
Definition nl_eqb := list_eqb Nat.eqb.
Definition check_case (c : list nat * list nat * (list (list nat) * list nat * list nat * nat) * bool * (xval * xval * xval) * (xval * xval * xval)) : bool :=
  let '(yr, ye, (tab, a, b, N), special, v, nc) := c in
  match mi_skeleton yr ye with
  | Ok s => list_eqb nl_eqb (sk_tab s) tab && nl_eqb (sk_a s) a && nl_eqb (sk_b s) b && Nat.eqb (sk_N s) N && Nat.eqb N (List.length yr)
  | Raise _ => false
  end && Bool.eqb (mi_special yr ye) special && x3_same v nc.
Open Scope nat_scope.
'''

    def exhaustive(self, tier):
        return [c for c in Q.UNIT.exhaustive(tier) if c['kind'] == 'pub' and c.get('expect')]

    def gen(self, rng, n):
        out = []
        while len(out) < n:
            out += [c for c in Q.UNIT.gen(rng, n) if c['kind'] == 'pub' and c['beta'] > 0]
        return out[:n]

    def run(self, case):
        import numpy as np
        from mir_eval import segment as S, util
        ri, ei = Q.intervals(case['rb']), Q.intervals(case['eb'])
        rl, el = list(case['rl']), list(case['el'])
        yr = util.index_labels(util.intervals_to_samples(ri, rl, sample_size=Q.FS)[-1])[0]
        ye = util.index_labels(util.intervals_to_samples(ei, el, sample_size=Q.FS)[-1])[0]
        tab = S._contingency_matrix(np.array(yr), np.array(ye))
        R, C = tab.shape
        special = bool(R == C == 1 or R == C == 0)
        t1, v = core.call_impl(S.vmeasure, ri, rl, ei, el, frame_size=Q.FS, beta=case['beta'])
        t2, nc = core.call_impl(S.nce, ri, rl, ei, el, frame_size=Q.FS, beta=case['beta'], marginal=True)
        assert t1 == 'ok' and t2 == 'ok', (case, v, nc)
        return {'yr': [int(x) for x in yr], 'ye': [int(x) for x in ye], 'tab': [[int(x) for x in r] for r in tab],
                'a': [int(x) for x in tab.sum(axis=1)], 'b': [int(x) for x in tab.sum(axis=0)], 'N': int(tab.sum()), 'special': special,
                'v': [Q.xv(x) for x in v], 'nce': [Q.xv(x) for x in nc]}

    def emit(self, case, o):
        nl = lambda l: core.cq_list([str(int(x)) for x in l])
        return '(%s,%s,(%s,%s,%s,%d),%s,(%s,%s,%s),(%s,%s,%s))' % (
            nl(o['yr']), nl(o['ye']), core.cq_list([nl(r) for r in o['tab']]), nl(o['a']), nl(o['b']), o['N'], core.cq_bool(o['special']),
            o['v'][0], o['v'][1], o['v'][2], o['nce'][0], o['nce'][1], o['nce'][2])

    def nontrivial(self, case, o):
        return len(o['tab']) >= 2 and len(o['b']) >= 2

    def distribution(self, pairs):
        d = {}
        for c, o in pairs:
            k = 'shape<=%dx%d' % (min(4, len(o['a'])), min(4, len(o['b'])))
            d[k] = d.get(k, 0) + 1
            if o['special']:
                d['special'] = d.get('special', 0) + 1
        return d


UNIT = U()
