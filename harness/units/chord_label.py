"""chord.validate_chord_label / split / join / encode vs ME.Model.ChordParse, per label."""
import random
from lib import core

ROOTS = ['A', 'B', 'C', 'D', 'E', 'F', 'G']
ACC = ['', '#', 'b', '##', 'bb', '#b']
SHORTS = ['maj', 'min', 'dim', 'aug', '1', '5', 'sus2', 'sus4', 'maj6', 'min6', '7', 'maj7', 'min7', 'dim7', 'hdim7',
          'minmaj7', 'aug7', '9', 'maj9', 'min9', '11', 'maj11', 'min11', '13', 'maj13', 'min13', 'b9', '#9', '#11', 'b13', 'MAJ', 'Min7']
DEGS = ['1', '2', '3', '4', '5', '6', '7', '8', '9', '10', '11', '12', '13', 'b3', '#5', 'b7', 'bb7', '#11', 'b13', 'b1', '##4',
        '*3', '*5', '*b3', '*1', '*b7', '14', '0', '*#9']
BASS = ['1', '3', 'b3', '5', 'b7', '7', '9', '#4', 'b2', '13', '2', '6', 'b5', '##1', '14']
FIXED = ['N', 'X', 'N\n', 'X\n', 'C\n', 'C:maj\n', 'C:(3)\n', '', 'C:(3,3,*3)', 'C:maj(3,*3,*3)', 'C:(*3)', 'C(*3)', 'C:maj(*1)',
         'C:(1)', 'Cb', 'B#', 'C:maj/b1', 'C:9(*5)', 'C:aug7', 'C:maj11', 'n', 'x', 'NN', 'H', 'C:', 'C:()', 'C/', 'C:maj(', 'C:maj()',
         'C:maj(3', 'C:maj(3))', 'C:maj((3)', 'C:maj:min', 'C/3/5', 'C:maj(3)(5)', 'C:hdim7/b7', 'Gb:min(*b3,*5)/5', 'A:(3)/6',
         'C:maj(9)', 'C:maj(#11,b13)', 'C:7(b9,#9)/b7', 'E:min9', 'E:b9', 'F#:min11/b3', 'C:13', 'C:maj13', 'C:1/5', 'C:5(b7)']


def rnd_label(rng):
    s = rng.choice(ROOTS) + rng.choice(ACC)
    if rng.random() < 0.75:
        r = rng.random()
        if r < 0.8:
            s += ':' + rng.choice(SHORTS)
        elif r < 0.9:
            s += ':'
        if rng.random() < 0.45:
            k = rng.choice([1, 1, 2, 3])
            s += '(' + ','.join(rng.choice(DEGS) for _ in range(k)) + ')'
    if rng.random() < 0.4:
        s += '/' + rng.choice(BASS)
    return s


def mutate(rng, s):
    op = rng.choice(['ins', 'del', 'dup', 'swap'])
    i = rng.randrange(len(s) + 1)
    if op == 'ins':
        return s[:i] + rng.choice('\n/(:),* #bNXx1a') + s[i:]
    if op == 'del' and s:
        return s[:max(i - 1, 0)] + s[i:]
    if op == 'dup' and s:
        return s[:i] + s[max(i - 1, 0):i] + s[i:]
    if len(s) > 1:
        i = min(i, len(s) - 2)
        return s[:i] + s[i + 1] + s[i] + s[i + 2:]
    return s


def grammar_all():
    """every label root[:shorthand][(one or two degrees)][/bass] over reduced alphabets (thorough tier)."""
    out = []
    roots = ['C', 'F#', 'Bb', 'E##']
    shorts = [None, ''] + SHORTS[:30]
    degs = [None, '3', '*3', 'b7', '9', '#11', '3,b7', '*5,9', '13,*3']
    bass = [None, '3', 'b7', '5', '9', '1']
    for r in roots:
        for sh in shorts:
            for d in degs:
                for b in bass:
                    s = r
                    if sh is not None:
                        s += ':' + sh
                    if d is not None:
                        s += ('' if sh is not None else ':') + '(' + d + ')'
                    if b is not None:
                        s += '/' + b
                    out.append(s)
    return out


class U(core.Unit):
    name = 'chord_label'
    requires = ['ME.Model.Prelude', 'ME.Model.Regex', 'ME.Model.ChordParse', 'ME.Gen.ChordRe', 'ME.Gen.ChordTables']
    mirrors = [('mir_eval/chord.py', f) for f in ('validate_chord_label', 'split', 'join', 'encode', 'pitch_class_to_semitone',
               'scale_degree_to_semitone', 'scale_degree_to_bitmap', 'quality_to_bitmap', 'reduce_extended_quality', 'CHORD_RE',
               'QUALITIES', 'EXTENDED_QUALITY_REDUX', '_pitch_classes', '_scale_degrees')]
    counts = {'quick': 1200, 'thorough': 6000}
    shard = 250
    header = '''
Open Scope Z_scope.
Definition enc_eqb (a b : enc) : bool :=
  let '(r1, b1, s1) := a in let '(r2, b2, s2) := b in (r1 =? r2) && list_eqb Z.eqb b1 b2 && (s1 =? s2).
Definition subl (a b : list str) := forallb (fun x => existsb (seqb x) b) a.
Definition parts_eqb (a b : str * str * list str * str) : bool :=
  let '(r1, q1, d1, b1) := a in let '(r2, q2, d2, b2) := b in
  seqb r1 r2 && seqb q1 q2 && subl d1 d2 && subl d2 d1 && Nat.eqb (List.length d1) (List.length d2) && seqb b1 b2.
Definition roundtrip (s : str) (reduce : bool) : res enc :=
  p <- split s reduce ;; let '(rt, q, ds, b) := p in s' <- join rt q ds b ;; encode s' reduce false.
Definition check_case (c : str * bool * (res (str * str * list str * str) * res (str * str * list str * str))
                            * (res enc * res enc * res enc * res enc) * (res enc * res enc)) : bool :=
  let '(s, v, (sf, st), (eff, eft, etf, ett), (rf, rt)) := c in
  Bool.eqb (rmatch chord_re s) v
  && res_eqb parts_eqb (split s false) sf && res_eqb parts_eqb (split s true) st
  && res_eqb enc_eqb (encode s false false) eff && res_eqb enc_eqb (encode s false true) eft
  && res_eqb enc_eqb (encode s true false) etf && res_eqb enc_eqb (encode s true true) ett
  && res_eqb enc_eqb (roundtrip s false) rf && res_eqb enc_eqb (roundtrip s true) rt.
'''

    def exhaustive(self, tier):
        ls = list(FIXED)
        if tier == 'thorough':
            ls += grammar_all()
        return ls

    def gen(self, rng, n):
        out = []
        while len(out) < n:
            r = rng.random()
            if r < 0.55:
                out.append(rnd_label(rng))
            elif r < 0.9:
                out.append(mutate(rng, rnd_label(rng)))
            else:
                out.append(''.join(rng.choice('ABCNX:/()#b*,1379majind\n ') for _ in range(rng.randint(1, 8))))
        return out

    def run(self, label):
        from mir_eval import chord as C
        v = bool(C.CHORD_RE.match(label))
        try:
            C.validate_chord_label(label)
            v2 = True
        except C.InvalidChordException:
            v2 = False
        except Exception:
            v2 = None
        if v2 is not v:
            v = ['validate_chord_label disagrees with CHORD_RE.match', v, v2]

        def sp(red):
            t, val = core.call_impl(C.split, label, red)
            if t == 'ok':
                return ['ok', [val[0], val[1], sorted(val[2]), val[3]]]
            return ['exc', val]

        def en(red, strict):
            t, val = core.call_impl(C.encode, label, red, strict)
            if t == 'ok':
                return ['ok', [int(val[0]), [int(x) for x in val[1]], int(val[2])]]
            return ['exc', val]

        def rt(red):
            def f():
                parts = C.split(label, red)
                return C.encode(C.join(*parts), red, False)
            t, val = core.call_impl(f)
            if t == 'ok':
                return ['ok', [int(val[0]), [int(x) for x in val[1]], int(val[2])]]
            return ['exc', val]
        return {'v': v, 'sf': sp(False), 'st': sp(True), 'eff': en(False, False), 'eft': en(False, True),
                'etf': en(True, False), 'ett': en(True, True), 'rf': rt(False), 'rt': rt(True)}

    def emit(self, label, o):
        S = core.cq_str
        parts = lambda v: '(%s,%s,%s,%s)' % (S(v[0]), S(v[1]), core.cq_list([S(d) for d in v[2]]), S(v[3]))
        enc = lambda v: '(%s,%s,%s)' % (core.cq_Z(v[0]), core.cq_list([core.cq_Z(x) for x in v[1]]), core.cq_Z(v[2]))
        v = o['v'] if isinstance(o['v'], bool) else False
        return '(%s,%s,(%s,%s),(%s,%s,%s,%s),(%s,%s))' % (
            S(label), core.cq_bool(v), core.cq_res(o['sf'], parts), core.cq_res(o['st'], parts),
            core.cq_res(o['eff'], enc), core.cq_res(o['eft'], enc), core.cq_res(o['etf'], enc), core.cq_res(o['ett'], enc),
            core.cq_res(o['rf'], enc), core.cq_res(o['rt'], enc))

    def nontrivial(self, label, o):
        return o['eff'][0] == 'ok' and label not in ('N', 'X')

    def shrink(self, label):
        for i in range(len(label)):
            yield label[:i] + label[i + 1:]

    def distribution(self, pairs):
        d = {'accepted': 0, 'encodable': 0, 'rejected': 0, 'accepted_not_encodable': 0, 'other_exception': 0}
        for c, o in pairs:
            if o['v'] is True:
                d['accepted'] += 1
                if o['eff'][0] == 'ok':
                    d['encodable'] += 1
                else:
                    d['accepted_not_encodable'] += 1
            else:
                d['rejected'] += 1
            for k in ('sf', 'st', 'eff', 'eft', 'etf', 'ett'):
                if o[k][0] == 'exc' and o[k][1] != 'InvalidChordException':
                    d['other_exception'] += 1
        return d


UNIT = U()
