"""Numeric tie of beat.information_gain's entropy step, certified inside Coq: for sampled (reference_beats, estimated_beats,
bins) on the lattice of beat_ig (beat times k/64; exact stream with power-of-two intervals, float stream filtered for errors
within 1e-9 of a histogram edge), the generated case file states and Coq proves (tactic beat_num of Proofs/BeatInfoGainNum.v:
prime-logarithm normal forms + `interval`), per case:

  counts  information_gain_counts ref est bins = <the two histograms np.histogram returned inside the real information_gain>
          (or None for the early return, or the exception class)
  hf      entropy_counts ref est bins = Ok <forward histogram>  and  |hist_entropy counts - float(_get_entropy(ref, est, bins))| <= 1/10^9
          (or entropy_val counts = IGnan when the float is nan: empty histogram, every error non-finite)
  hb      the same for _get_entropy(est, ref, bins)
  ig      information_gain_R ref est bins = Ok (IGfin r) with |r - float(information_gain(ref, est, bins))| <= 1/10^9,
          or = Ok IGnan when the float is nan (finding C01-infogain-duplicate-beats-nan; bins = 1), or = Raise <class>.

hf / hb are SKIPped when information_gain returns early or raises (then _get_entropy is not called by it).
Proof-style unit (hooks write_shard / parse_output), same OK/BAD protocol as seg_entropy_num."""
import math
import re
from fractions import Fraction
from lib import core
from harness.units import beat_ig as IG
from harness.units.beat_q import call_w, arr, L

TAGS = ['counts', 'hf', 'hb', 'ig']


def _frac(x):
    x = float(x)
    if math.isnan(x):
        return 'nan'
    if math.isinf(x):
        return 'inf'
    f = Fraction(x)
    return [str(f.numerator), str(f.denominator)]


class U(core.Unit):
    name = 'beat_ig_num'
    requires = ['ME.Proofs.BeatInfoGainNum']
    mirrors = [('mir_eval/beat.py', f) for f in ['information_gain', '_get_entropy', 'validate']]
    counts = {'quick': 30, 'thorough': 400}
    shard = 14
    coq_timeout = 900

    def __init__(self):
        self.ig = IG.U()

    # ---- generators -------------------------------------------------------------------------------------------
    def exhaustive(self, tier):
        C = self.ig.C
        per = L(range(320, 320 + 64 * 8, 64))
        out = []
        if tier != 'quick':
            out += self.ig.exhaustive(tier)
        # self comparison: spikes, entropy exactly 0 (Python: -0.0), score exactly 1
        for b in (2, 4, 5, 8, 41):
            out.append(C(per, per, b, exact=True))
        out.append(C(per, per, 1, exact=True))                                    # bins = 1: nan
        # one / two beats: early return 0.0
        out += [C([5.0], [5.0, 6.0], 41, True), C([5.0, 6.0], [5.5], 8, True), C([], [5.0, 6.0], 41, True), C([5.0, 6.0], [5.0, 6.0], 41, True),
                C([5.0, 6.0], [5.25, 6.5], 4, True)]
        # duplicated beat times: zero intervals, non-finite errors ignored by np.histogram; nan / asymmetric cases
        out += [C([5.0, 5.0], [5.0, 6.0], 41, True), C([5.0, 6.0], [5.0, 5.0], 41, True), C([5.0, 5.0], [5.0, 5.0], 8, True),
                C([5.0, 5.0, 6.0, 7.0], [5.0, 6.0, 7.0], 41, True), C([5.0, 6.0, 7.0], [5.0, 5.0, 6.0, 7.0], 5, True),
                C([5.0, 5.0, 6.0, 7.0], [5.25, 6.5, 7.0], 8, True)]
        # errors exactly at +-0.5 and on bin edges (interval 1: error = offset)
        for d, b in [(0.5, 8), (-0.5, 8), (0.5, 41), (-0.5, 2), (0.125, 8), (-0.375, 4), (0.25, 5), (0.5, 4)]:
            e = list(per)
            e[3] = per[3] + d
            e.sort()
            out.append(C(per, e, b, exact=True))
        # uniform-ish histograms: offsets spread over the bins
        for b in (2, 4, 8):
            e = [per[i] + ((i % b) + 0.5) / b - 0.5 for i in range(len(per))]
            out.append(C(per, sorted(e), b, exact=True))
        out.append(C(per, [x + 0.25 for x in per], 41, exact=True))
        out.append(C(per, [5.25, 6.25, 6.75, 7.5, 9.125, 10.0, 11.4375], 5, exact=True))
        # unsorted / too late: ValueError
        out.append(C([6.0, 5.0], [5.0, 6.0], 41, True))
        return out

    def gen(self, rng, n):
        out = []
        while len(out) < n:
            for c in self.ig.gen(rng, n):
                if c['bins'] >= 1 and len(c['ref']) <= 24 and len(c['est']) <= 44:
                    if rng.random() < 0.35:
                        c['bins'] = rng.choice([2, 4, 5, 8, 41]) if not c['exact'] else rng.choice([2, 4, 8])
                        if not c['exact'] and self.ig.fragile(c):
                            continue
                    o = self.run(c)         # perfect-agreement cases (two spikes) are frequent in the exact stream: keep a third of them
                    if o['counts'][0] == 'ok' and o['counts'][1] and all(sum(1 for v in h if v) == 1 for h in o['counts'][1]) and rng.random() < 0.67:
                        continue
                    out.append(c)
        return out[:n]

    # ---- implementation ---------------------------------------------------------------------------------------
    def run(self, case):
        from mir_eval import beat as B
        o, w, rec = call_w(B.information_gain, arr(case['ref']), arr(case['est']), bins=case['bins'], record=('histogram',))
        if o[0] != 'ok':
            return {'counts': ['exc', o[1]], 'ig': ['exc', o[1]]}
        v = _frac(o[1])
        hs = [[int(x) for x in h[0]] for h in rec['histogram']]
        if not hs:
            return {'counts': ['ok', None], 'ig': ['ok', v]}
        assert len(hs) == 2
        t1, hf = core.call_impl(B._get_entropy, arr(case['ref']), arr(case['est']), case['bins'])
        t2, hb = core.call_impl(B._get_entropy, arr(case['est']), arr(case['ref']), case['bins'])
        assert t1 == t2 == 'ok', (case, hf, hb)
        return {'counts': ['ok', hs], 'ig': ['ok', v], 'hf': _frac(hf), 'hb': _frac(hb)}

    # ---- Coq side ---------------------------------------------------------------------------------------------
    def write_shard(self, pairs):
        nl = lambda l: '(' + core.cq_list([core.cq_nat(x) for x in l]) + ')%nat'
        ql = lambda l: '(' + core.cq_list([core.cq_Q(float(x)) for x in l]) + ')%Q'
        q = lambda fr: '(IZR (%s) / IZR %s)' % (fr[0], fr[1])
        tol = '(1 / 10 ^ 9)'
        Lines = ['From Coq Require Import List Arith ZArith QArith Reals.',
                 'From ME Require Import Model.Prelude Model.Beat Model.BeatEntropy Proofs.SegmentEntropyNum Proofs.BeatInfoGainNum.',
                 'Import ListNotations.', 'Local Open Scope R_scope.', '']

        def chk(k, tag, prop):
            if prop is None:
                return '  idtac "CASE %d %s BAD".' % (k, tag)
            if prop == 'skip':
                return '  idtac "CASE %d %s SKIP".' % (k, tag)
            return '  first [ assert (%s) by beat_num; idtac "CASE %d %s OK" | idtac "CASE %d %s BAD" ].' % (prop, k, tag, k, tag)

        for k, (c, o) in enumerate(pairs):
            Lines.append('Definition ref_%d : list Q := %s.' % (k, ql(c['ref'])))
            Lines.append('Definition est_%d : list Q := %s.' % (k, ql(c['est'])))
            r, e, b = 'ref_%d' % k, 'est_%d' % k, '%d%%nat' % c['bins']
            Lines.append('Goal True.')
            cnt = core.cq_res(o['counts'], lambda v: core.cq_opt(v, lambda p: '(%s,%s)' % (nl(p[0]), nl(p[1]))))
            Lines.append(chk(k, 'counts', 'st_counts %s %s %s %s' % (r, e, b, cnt)))
            computed = o['counts'][0] == 'ok' and o['counts'][1] is not None
            for tag, a1, a2, idx in (('hf', r, e, 0), ('hb', e, r, 1)):
                if not computed:
                    Lines.append(chk(k, tag, 'skip'))
                    continue
                h, x = nl(o['counts'][1][idx]), o[tag]
                if x == 'nan':
                    Lines.append(chk(k, tag, 'st_ent_nan %s %s %s %s' % (a1, a2, b, h)))
                elif x == 'inf':
                    Lines.append(chk(k, tag, None))
                else:
                    Lines.append(chk(k, tag, 'st_ent %s %s %s %s %s %s' % (a1, a2, b, h, tol, q(x))))
            if o['ig'][0] == 'exc':
                Lines.append(chk(k, 'ig', 'st_ig_exc %s %s %s %s' % (r, e, b, core.cq_exn(o['ig'][1]))))
            elif o['ig'][1] == 'nan':
                Lines.append(chk(k, 'ig', 'st_ig_nan %s %s %s' % (r, e, b)))
            elif o['ig'][1] == 'inf':
                Lines.append(chk(k, 'ig', None))
            else:
                Lines.append(chk(k, 'ig', 'st_ig %s %s %s %s %s' % (r, e, b, tol, q(o['ig'][1]))))
            Lines.append('  exact I.')
            Lines.append('Qed.')
        Lines.append('')
        return '\n'.join(Lines)

    _LINE = re.compile(r'^CASE (\d+) (\w+) (OK|BAD|SKIP)\s*$', re.M)

    def parse_output(self, text, returncode):
        if returncode != 0:
            return 'coqc failed (rc=%s): %s' % (returncode, text[-1500:])
        seen = {}
        for m in self._LINE.finditer(text):
            seen.setdefault(int(m.group(1)), {})[m.group(2)] = m.group(3)
        complete = [k for k, d in seen.items() if all(t in d for t in TAGS)]
        bad = sorted(k for k in complete if any(seen[k][t] == 'BAD' for t in TAGS))
        self.last_bad_tags = {k: [t for t in TAGS if seen[k][t] == 'BAD'] for k in bad}
        return len(complete), bad

    def emit(self, case, out):          # unused (write_shard writes the file)
        return ''

    def nontrivial(self, case, o):
        return o['counts'][0] == 'ok' and o['counts'][1] is not None and sum(1 for c in o['counts'][1][0] if c) > 1

    def shrink(self, case):
        cands = []
        for k in ('ref', 'est'):
            n = len(case[k])
            step = max(1, n // 8)
            for i in range(0, n, step):
                c = dict(case)
                c[k] = case[k][:i] + case[k][i + 1:]
                cands.append(c)
        return cands[:14]

    def distribution(self, pairs):
        d = {'dropped_fragile(error within 1e-9 of a histogram edge)': self.ig.dropped_fragile}

        def inc(k):
            d[k] = d.get(k, 0) + 1
        for c, o in pairs:
            inc('exact_stream' if c['exact'] else 'float_stream')
            inc('bins=%d' % c['bins'])
            if o['counts'][0] == 'exc':
                inc('exc:' + o['counts'][1])
                continue
            if o['counts'][1] is None:
                inc('early_return')
                continue
            f, b = o['counts'][1]
            for tag, h in (('hf', f), ('hb', b)):
                x = o[tag]
                nzb = sum(1 for v in h if v)
                inc('%s:%s' % (tag, 'nan' if x == 'nan' else 'spike(exact 0)' if nzb == 1 else 'uniform' if len(set(h)) == 1 else 'general'))
            s = o['ig'][1]
            if isinstance(s, list):
                s = Fraction(int(s[0]), int(s[1]))
                inc('score:1' if s == 1 else 'score:0' if s == 0 else 'score:(0,1)' if 0 < s < 1 else 'score:other')
            else:
                inc('score:' + s)
            if o['hf'] == 'nan' and o['hb'] != 'nan':
                inc('forward nan ignored (asymmetric)')
            if isinstance(o['hf'], list) and isinstance(o['hb'], list) and o['hf'] == o['hb']:
                inc('equal entropies')
        return d


UNIT = U()
