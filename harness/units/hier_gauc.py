"""hierarchy._gauc on dense integer matrices (built from random 1-4 level hierarchies) vs ME.Model.Hierarchy.gauc."""
from lib import core


def rand_segmentation(rng, n, parent=None, kmax=4, kmin=0):
    """boundaries (sorted, containing 0 and n) of a segmentation of the frames [0, n); refines `parent` if given."""
    cuts = set([0, n])
    if parent is not None:
        cuts |= set(parent)
    inner = [c for c in range(1, n) if c not in cuts]
    rng.shuffle(inner)
    cuts |= set(inner[:rng.randint(min(kmin, len(inner)), min(kmax, len(inner)))])
    return sorted(cuts)


def rand_hierarchy(rng, n, levels, nested):
    hier, prev = [], None
    for lv in range(levels):
        # the top level is usually one segment or a few; deeper levels almost always cut somewhere
        b = rand_segmentation(rng, n, parent=prev if nested else None, kmin=0 if (lv == 0 or rng.random() < 0.1) else 1)
        hier.append(b)
        prev = b
    return hier


def lca_matrix(n, hier):
    """own construction of the LCA matrix (generator side only): deepest level at which two frames share a segment"""
    M = [[0] * n for _ in range(n)]
    for lvl, b in enumerate(hier, 1):
        for s, e in zip(b, b[1:]):
            for i in range(s, e):
                for j in range(s, e):
                    M[i][j] = lvl
    return M


def meet_matrix(rng, n, hier):
    M = [[0] * n for _ in range(n)]
    for lvl, b in enumerate(hier, 1):
        segs = list(zip(b, b[1:]))
        labs = [rng.randint(0, 2) for _ in segs]
        for (s, e), la in zip(segs, labs):
            for (s2, e2), lb in zip(segs, labs):
                if la == lb:
                    for i in range(s, e):
                        for j in range(s2, e2):
                            M[i][j] = lvl
    return M


class U(core.Unit):
    name = 'hier_gauc'
    requires = ['ME.Model.Prelude', 'ME.Model.Hierarchy']
    mirrors = [('mir_eval/hierarchy.py', '_gauc'), ('mir_eval/hierarchy.py', '_compare_frame_rankings'),
               ('mir_eval/hierarchy.py', '_count_inversions')]
    counts = {'quick': 700, 'thorough': 6000}
    shard = 250
    header = '''
Open Scope nat_scope.
Definition check_case (c : list (list nat) * list (list nat) * bool * option nat * res Q) : bool :=
  let '(r, e, tr, w, out) := c in res_eqb (Qclose (1#1000000000)%Q) (gauc r e tr w) out.
'''

    def exhaustive(self, tier):
        out = []
        z = lambda n: [[0] * n for _ in range(n)]
        two = [[2, 2, 1, 1], [2, 2, 1, 1], [1, 1, 2, 2], [1, 1, 2, 2]]
        two_b = [[2, 1, 1, 1], [1, 2, 2, 2], [1, 2, 2, 2], [1, 2, 2, 2]]
        for tr in (False, True):
            for w in (None, 0, 1, 2, 3, 4, 5, 100):
                out.append([two, two_b, tr, w])
                out.append([two, two, tr, w])
                out.append([z(3), z(3), tr, w])          # nothing counts -> 0.0
                out.append([z(0), z(0), tr, w])          # no frames
                out.append([[[1]], [[1]], tr, w])        # one frame: the 1-element slice minus the query is empty -> skipped
                out.append([two, z(3), tr, w])           # shapes differ
                out.append([[[1, 1], [1, 2]], [[1, 1], [1, 1]], tr, w])
        # three levels with a gap between reference levels (1 and 3 only): reduced mode has nothing to compare
        gap = [[3, 3, 1], [3, 3, 1], [1, 1, 3]]
        est = [[2, 1, 1], [1, 2, 2], [1, 2, 2]]
        for tr in (False, True):
            out.append([gap, est, tr, None])
            out.append([est, gap, tr, None])
        return out

    def gen(self, rng, n):
        out = []
        for _ in range(n):
            kind = rng.random()
            nf = rng.choice([2, 3, 4, 5, 5, 6, 6, 7, 7, 8, 8, 9, 10, 12])
            tr = rng.random() < 0.5
            x = rng.random()
            if x < 0.25:
                w = None
            elif x < 0.65:
                w = rng.randint(2, max(2, nf - 1))      # small window
            elif x < 0.8:
                w = nf + rng.randint(0, 5)              # window >= n
            elif x < 0.9:
                w = nf // 2 if nf >= 4 else 2
            elif x < 0.95:
                w = 1                                   # one-frame window: query 0 sees only itself
            else:
                w = 0
            if kind < 0.6:
                lr, le = rng.randint(1, 4), rng.randint(1, 4)
                r = lca_matrix(nf, rand_hierarchy(rng, nf, lr, rng.random() < 0.6))
                e = lca_matrix(nf, rand_hierarchy(rng, nf, le, rng.random() < 0.6))
                if rng.random() < 0.12:
                    e = [row[:] for row in r]
            elif kind < 0.8:
                r = meet_matrix(rng, nf, rand_hierarchy(rng, nf, rng.randint(1, 4), rng.random() < 0.6))
                e = meet_matrix(rng, nf, rand_hierarchy(rng, nf, rng.randint(1, 4), rng.random() < 0.6))
            elif kind < 0.93:
                k = rng.randint(1, 5)
                r = [[rng.randint(0, k) for _ in range(nf)] for _ in range(nf)]
                e = [[rng.randint(0, k) for _ in range(nf)] for _ in range(nf)]
            elif kind < 0.97:
                # malformed: shapes differ
                r = lca_matrix(nf, rand_hierarchy(rng, nf, 2, True))
                m = nf + rng.choice([-1, 1])
                e = lca_matrix(m, rand_hierarchy(rng, m, 2, True))
            else:
                # malformed: equal but non-square shapes
                rows, cols = rng.randint(1, 5), rng.randint(1, 5)
                r = [[rng.randint(0, 3) for _ in range(cols)] for _ in range(rows)]
                e = [[rng.randint(0, 3) for _ in range(cols)] for _ in range(rows)]
            out.append([r, e, tr, w])
        return out

    @staticmethod
    def _sparse(M):
        import numpy as np
        import scipy.sparse
        rows = len(M)
        cols = len(M[0]) if M else 0
        return scipy.sparse.csr_matrix(np.array(M, dtype=np.uint8).reshape(rows, cols))

    def run(self, case):
        from mir_eval import hierarchy as H
        r, e, tr, w = case
        t, v = core.call_impl(H._gauc, self._sparse(r), self._sparse(e), tr, w)
        if t != 'ok':
            return ['exc', v]
        return ['ok', float(v)]

    def emit(self, case, out):
        r, e, tr, w = case
        mat = lambda M: core.cq_list([core.cq_list([core.cq_nat(x) for x in row]) for row in M])
        return '(%s,%s,%s,%s,%s)' % (mat(r), mat(e), core.cq_bool(tr), core.cq_opt(w, lambda k: core.cq_nat(k) + '%nat'),
                                     core.cq_res(out, core.cq_Q))

    def nontrivial(self, case, out):
        return out[0] == 'ok' and 0.0 < out[1] < 1.0

    def shrink(self, case):
        r, e, tr, w = case
        n = len(r)
        if len(e) == n and all(len(x) == n for x in r) and all(len(x) == n for x in e):
            for k in range(n):
                cut = lambda M: [[x for j, x in enumerate(row) if j != k] for i, row in enumerate(M) if i != k]
                yield [cut(r), cut(e), tr, w]
        if w is not None and w > 0:
            yield [r, e, tr, w - 1]

    def distribution(self, pairs):
        d = {}

        def inc(k):
            d[k] = d.get(k, 0) + 1
        for c, o in pairs:
            r, e, tr, w = c
            n = len(r)
            inc('transitive' if tr else 'reduced')
            inc('window None' if w is None else 'window 0' if w == 0 else 'window 1' if w == 1 else
                'window >= n' if w >= n else 'window small')
            if o[0] != 'ok':
                inc(o[1])
            elif o[1] == 0.0:
                inc('score 0')
            elif o[1] == 1.0:
                inc('score 1')
            else:
                inc('0 < score < 1')
        return d


UNIT = U()
