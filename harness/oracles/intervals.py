"""Property oracles on the implementation for C13 (interval pre-processing): the property stated directly on mir_eval's
API.  Used to search for a concrete failing input once a proof obligation or a correspondence no longer checks, and to
re-confirm the witnesses of the `_refuted` theorems; no verdict of "holds" rests on them.

Every check returns None or a finding dict {'function','relation','input','observed','why'}.

mode='property' : the relations exactly as C13 states them (the known defects of adjust_intervals / merge_labeled_intervals /
                  boundaries_to_intervals ARE reported: zero-duration rows, fill labels inside an internal gap cut by
                  t_min / t_max, the label of the preceding interval inside a gap, accepted non-ascending boundaries).
                  State after the fixes 5b630fc / d54bbf4 of /repo: touching intervals are dropped, labels are copied.
mode='proved'   : only the relations proved in Proofs/Intervals*.v under their hypotheses (a finding here means the
                  implementation has moved away from the model)."""
import copy

START, END = '__T_MIN', '__T_MAX'


def finding(function, relation, inp, observed, why):
    return {'function': function, 'relation': relation, 'input': inp, 'observed': observed, 'why': why}


# ---------------------------------------------------------------------------------------------------------------
# the abstraction functions (same as Proofs/IntervalsBase.v)
# ---------------------------------------------------------------------------------------------------------------
def label_at(ivs, labs, t):
    """label of the half-open interval [s, e) containing t, the LATER row wins; None in gaps / outside"""
    out = None
    for (s, e), l in zip(ivs, labs):
        if s <= t < e:
            out = (l,)
    return None if out is None else out[0]


def label_at_closed(ivs, labs, t, fill):
    out = fill
    for (s, e), l in zip(ivs, labs):
        if s <= t <= e:
            out = l
    return out


def is_valid(ivs):
    """time-ordered, strictly positive durations, non-overlapping"""
    return all(s < e for s, e in ivs) and all(ivs[i][1] <= ivs[i + 1][0] for i in range(len(ivs) - 1))


def probe_points(lists, lo, hi):
    """all boundaries and all midpoints between consecutive boundaries inside [lo, hi)"""
    b = sorted(set([x for ivs in lists for r in ivs for x in r] + [lo, hi]))
    pts = list(b) + [(b[i] + b[i + 1]) / 2 for i in range(len(b) - 1)]
    return sorted(p for p in set(pts) if lo <= p < hi)


def _arr(ivs):
    import numpy as np
    return np.array(ivs, dtype=float).reshape(-1, 2)


def _rows(a):
    return [[float(r[0]), float(r[1])] for r in a]


# ---------------------------------------------------------------------------------------------------------------
# adjust_intervals
# ---------------------------------------------------------------------------------------------------------------
def check_adjust(U, ivs, labels, t_min, t_max, mode='property'):
    """ivs: list of [s, e] (valid annotation), labels: list or None, t_min / t_max: float or None."""
    fn = 'util.adjust_intervals'
    inp = {'intervals': ivs, 'labels': labels, 't_min': t_min, 't_max': t_max}
    if not is_valid(ivs):
        return None
    degenerate = bool(ivs) and t_min is not None and t_max is not None and not t_min < t_max
    caller = None if labels is None else list(labels)
    labs_in = None if labels is None else list(labels)
    try:
        oi, ol = U.adjust_intervals(_arr(ivs), caller, t_min, t_max, START, END)
    except Exception as e:  # noqa
        name = type(e).__name__
        if degenerate:
            # proved (adjust_empty_range_raises): t_min >= t_max crops every row -> ValueError
            return None if name == 'ValueError' else finding(fn, 't_min >= t_max raises ValueError', inp, name, '')
        if not ivs and (t_min is None or t_max is None):
            return None if name == 'ValueError' else finding(fn, 'empty input without both bounds raises ValueError', inp, name, '')
        if t_min is None and t_max is not None and ivs and ivs[0][0] >= t_max:
            # proved: ValueError (every row cropped); the property demands no exception for valid input
            return finding(fn, 'valid input is adjusted without an exception', inp, name,
                           't_min=None and t_max at/below the first start: every row is cropped, intervals.max() raises') \
                if mode == 'property' else None
        return finding(fn, 'valid input is adjusted without an exception', inp, name, '')
    if degenerate:
        return finding(fn, 't_min >= t_max raises ValueError', inp, _rows(oi), 'model: every row is cropped')
    if caller is not None and caller != labs_in:
        return finding(fn, "the caller's label list is not modified", inp, caller, 'aliasing (fixed by d54bbf4)')
    out = _rows(oi)
    if (ol is None) != (labels is None and bool(ivs)):
        if ivs:
            return finding(fn, 'labels are returned iff labels were given', inp, [out, ol], '')
    if ol is not None and len(ol) != len(out):
        return finding(fn, 'one label per output row', inp, [out, ol], '')
    if not out:
        return finding(fn, 'output is non-empty', inp, [out, ol], '')
    lo = t_min if t_min is not None else (ivs[0][0] if ivs else None)
    hi = t_max if t_max is not None else (max(ivs[-1][1], t_min if t_min is not None else ivs[-1][1]) if ivs else None)
    # span
    if t_min is not None and out[0][0] != t_min:
        return finding(fn, 'first output start = t_min', inp, out, '')
    if t_max is not None and out[-1][1] != t_max:
        return finding(fn, 'last output end = t_max', inp, out, '')
    # inside
    for s, e in out:
        if (t_min is not None and (s < t_min or e < t_min)) or (t_max is not None and (s > t_max or e > t_max)):
            return finding(fn, 'nothing outside [t_min, t_max]', inp, out, '')
    # ordered
    if not (all(s <= e for s, e in out) and all(out[i][1] <= out[i + 1][0] for i in range(len(out) - 1))):
        return finding(fn, 'output is time-ordered', inp, out, '')
    # positive durations
    nothing_after = t_min is not None and bool(ivs) and all(e <= t_min for _, e in ivs)
    if any(s >= e for s, e in out) and (mode == 'property' or not nothing_after):
        return finding(fn, 'strictly positive durations', inp, out,
                       'no interval ends after t_min: nothing is removed, every row collapses onto t_min'
                       if nothing_after else 'some interval ends after t_min')
    # labels
    if ol is not None and labs_in is not None and ivs and lo is not None and hi is not None:
        for t in probe_points([ivs, out], lo, hi):
            got = label_at(out, ol, t)
            want = label_at(ivs, labs_in, t)
            cut = False
            if want is None:
                if t < ivs[0][0]:
                    want = START if t_min is not None else None
                elif t >= ivs[-1][1]:
                    want = END if t_max is not None else None
                else:
                    # internal gap (prev_end <= t < next_start): is it cut by t_min / t_max ?
                    prev_end = max(e for _, e in ivs if e <= t)
                    next_start = min(s for s, _ in ivs if s > t)
                    cut = (t_min is not None and prev_end <= t_min) or (t_max is not None and next_start >= t_max)
            if got != want and (mode == 'property' or not cut):
                return finding(fn, 'every instant of [t_min, t_max) keeps its label (fill labels only outside the input span, '
                                   'none inside an internal gap)', inp, {'t': t, 'got': got, 'want': want, 'out': [out, ol]},
                               'internal gap cut (or touched) by t_min / t_max receives the fill label' if cut else '')
    return None


# ---------------------------------------------------------------------------------------------------------------
# merge_labeled_intervals
# ---------------------------------------------------------------------------------------------------------------
def check_merge(U, x, xl, y, yl, mode='property'):
    fn = 'util.merge_labeled_intervals'
    inp = {'x': x, 'x_labels': xl, 'y': y, 'y_labels': yl}
    if not (x and y and is_valid(x) and is_valid(y) and len(xl) == len(x) and len(yl) == len(y)):
        return None
    aligned = x[0][0] == y[0][0] and x[-1][1] == y[-1][1]
    try:
        oi, a, b = U.merge_labeled_intervals(_arr(x), list(xl), _arr(y), list(yl))
    except ValueError:
        return None if not aligned else finding(fn, 'aligned annotations merge without an exception', inp, 'ValueError', '')
    except Exception as e:  # noqa
        return finding(fn, 'raises only ValueError (spans differ)', inp, type(e).__name__, '')
    if not aligned:
        return finding(fn, 'ValueError iff the spans differ', inp, 'no exception', '')
    out = _rows(oi)
    want_b = sorted(set(v for r in x + y for v in r))
    got_b = [out[0][0]] + [r[1] for r in out] if out else []
    if got_b != want_b or any(out[i][1] != out[i + 1][0] for i in range(len(out) - 1)):
        return finding(fn, 'output boundaries = sorted union of both boundary sets', inp, out, '')
    if not (len(a) == len(b) == len(out)):
        return finding(fn, 'one label per annotation per output row', inp, [out, a, b], '')
    if abs(sum(e - s for s, e in out) - (x[-1][1] - x[0][0])) > 1e-9:
        return finding(fn, 'total duration is conserved', inp, out, '')
    for (s, e), la, lb in zip(out, a, b):
        for t in (s, (s + e) / 2):
            for name, ivs, labs, got in (('x', x, xl, la), ('y', y, yl, lb)):
                want = label_at(ivs, labs, t)
                if want is None and mode == 'proved':
                    continue          # gap: the proved statement says nothing
                if got != want:
                    return finding(fn, 'each output row carries the label the annotation had over it', inp,
                                   {'row': [s, e], 'annotation': name, 'got': got, 'want': want},
                                   'row inside a gap of the annotation gets the label of the preceding interval' if want is None else '')
    return None


# ---------------------------------------------------------------------------------------------------------------
# interpolate_intervals / intervals_to_samples
# ---------------------------------------------------------------------------------------------------------------
def check_interpolate(U, ivs, labels, ts, fill='__FILL', mode='property'):
    fn = 'util.interpolate_intervals'
    inp = {'intervals': ivs, 'labels': labels, 'time_points': ts}
    dec = any(ts[i + 1] < ts[i] for i in range(len(ts) - 1))
    try:
        got = U.interpolate_intervals(_arr(ivs), list(labels), list(ts), fill)
    except ValueError:
        return None if dec else finding(fn, 'a non-decreasing grid is accepted', inp, 'ValueError', '')
    except Exception as e:  # noqa
        return finding(fn, 'raises only ValueError', inp, type(e).__name__, '')
    if dec:
        return finding(fn, 'ValueError iff the grid decreases', inp, got, '')
    want = [label_at_closed(ivs, labels, t, fill) for t in ts]
    if list(got) != want:
        return finding(fn, 'sample k gets the label of the (closed) interval containing its time, the later interval at a '
                           'shared boundary, the fill value outside', inp, {'got': list(got), 'want': want}, '')
    if is_valid(ivs) and len(labels) == len(ivs):
        for t, g in zip(ts, got):
            w = label_at(ivs, labels, t)
            if w is not None and g != w:
                return finding(fn, 'agrees with label_at wherever label_at is defined', inp, {'t': t, 'got': g, 'want': w}, '')
            if w is None and g != fill and mode == 'property':
                # not a violation of C13 as worded (closed intervals), but inconsistent with adjust / merge
                return finding(fn, 'fill value outside all HALF-OPEN intervals [start, end)', inp, {'t': t, 'got': g, 'want': fill},
                               'intervals are treated as closed: a sample exactly at an end that is not another start keeps the label')
    return None


def check_samples(U, ivs, labels, offset, sample_size, fill='__FILL'):
    fn = 'util.intervals_to_samples'
    inp = {'intervals': ivs, 'labels': labels, 'offset': offset, 'sample_size': sample_size}
    if not ivs or sample_size <= 0:
        return None
    try:
        times, labs = U.intervals_to_samples(_arr(ivs), list(labels), offset, sample_size, fill)
    except Exception as e:  # noqa
        return finding(fn, 'no exception for a non-empty array and sample_size > 0', inp, type(e).__name__, '')
    if len(times) != len(labs):
        return finding(fn, 'one label per sample', inp, [times, labs], '')
    if any(times[i + 1] < times[i] for i in range(len(times) - 1)):
        return finding(fn, 'sample times are non-decreasing', inp, times, '')
    want = [label_at_closed(ivs, labels, t, fill) for t in times]
    if list(labs) != want:
        return finding(fn, 'each returned sample time has the label of the interval containing it', inp, {'got': list(labs), 'want': want}, '')
    from fractions import Fraction
    fs = Fraction(sample_size)
    if fs.denominator <= 1024 and Fraction(offset).denominator <= 1024:       # coarse dyadic lattice: the float32 grid is exact
        n = int(Fraction(max(v for r in ivs for v in r)) / fs // 1)
        exact = [float(k * fs + Fraction(offset)) for k in range(max(n, 0))]
        if list(times) != exact:
            return finding(fn, 'sample times = k * sample_size + offset, k < floor(max / sample_size)', inp, times, '')
    return None


# ---------------------------------------------------------------------------------------------------------------
# boundaries
# ---------------------------------------------------------------------------------------------------------------
def check_boundaries(U, b, q=5, mode='property'):
    """b: list of boundary times"""
    import numpy as np
    fn = 'util.boundaries_to_intervals'
    inp = {'boundaries': b}
    strictly = all(b[i] < b[i + 1] for i in range(len(b) - 1))
    try:
        ivs = U.boundaries_to_intervals(list(b))
    except ValueError:
        return None if not strictly else finding(fn, 'unique ascending boundaries are accepted', inp, 'ValueError', '')
    except Exception as e:  # noqa
        return finding(fn, 'raises only ValueError', inp, type(e).__name__, '')
    rows = _rows(np.asarray(ivs, dtype=float).reshape(-1, 2))
    if not strictly:
        return finding(fn, 'boundaries that are not unique and ascending are rejected', inp, rows,
                       'np.allclose tolerance / broadcasting of a length-1 np.unique result') if mode == 'property' else None
    if rows != [[b[i], b[i + 1]] for i in range(len(b) - 1)]:
        return finding(fn, 'intervals = consecutive pairs', inp, rows, '')
    if len(b) >= 2:
        back = [float(v) for v in U.intervals_to_boundaries(np.asarray(ivs, dtype=float), q)]
        want = sorted(set(float(np.round(v, q)) for v in b))
        if back != want:
            return finding('util.intervals_to_boundaries', 'roundtrip = sorted distinct rounded boundaries', inp, back, '')
        if len(back) != len(b) and mode == 'property':
            return finding('util.intervals_to_boundaries', 'roundtrip keeps every boundary (up to rounding)', inp, back,
                           'two boundaries closer than 10^-q collapse')
    return None


def check_contiguous(U, ivs, q=5):
    """contiguous segmentation -> boundaries -> intervals"""
    import numpy as np
    fn = 'util.intervals_to_boundaries'
    inp = {'intervals': ivs}
    if not ivs or not is_valid(ivs) or any(ivs[i][1] != ivs[i + 1][0] for i in range(len(ivs) - 1)):
        return None
    bd = U.intervals_to_boundaries(_arr(ivs), q)
    want = [float(np.round(ivs[0][0], q))] + [float(np.round(e, q)) for _, e in ivs]
    if len(set(want)) != len(want):
        return None
    if [float(v) for v in bd] != want:
        return finding(fn, 'boundaries of a contiguous segmentation = first start and all ends, rounded', inp, list(bd), '')
    try:
        back = _rows(U.boundaries_to_intervals(bd))
    except Exception as e:  # noqa
        return finding('util.boundaries_to_intervals', 'accepts the boundaries of a contiguous segmentation', inp, type(e).__name__, '')
    if back != [[float(np.round(s, q)), float(np.round(e, q))] for s, e in ivs]:
        return finding('util.boundaries_to_intervals', 'roundtrip = the rounded segmentation', inp, back, '')
    return None


# ---------------------------------------------------------------------------------------------------------------
# search
# ---------------------------------------------------------------------------------------------------------------
def gen_annotation(rng, den=4, hi=10, contiguous=None):
    n = rng.choice([1, 1, 2, 2, 3, 4, 5])
    if contiguous is None:
        contiguous = rng.random() < 0.5
    if contiguous:
        b = sorted(rng.sample(range(0, hi * den), n + 1))
        return [[b[i] / den, b[i + 1] / den] for i in range(n)]
    pts = sorted(rng.sample(range(0, hi * den), 2 * n))
    ivs = [[pts[2 * i] / den, pts[2 * i + 1] / den] for i in range(n)]
    for i in range(n - 1):
        if rng.random() < 0.3:
            ivs[i][1] = ivs[i + 1][0]
    return ivs


def search(U, rng, n, mode='property', first_only=False):
    """Run every oracle on n random structured inputs; returns the list of findings (de-duplicated by relation)."""
    seen, out = set(), []

    def add(f):
        if f and (f['function'], f['relation']) not in seen:
            seen.add((f['function'], f['relation']))
            out.append(f)
    for _ in range(n):
        den = rng.choice([4, 8, 16])
        ivs = gen_annotation(rng, den)
        labs = ['l%d' % i for i in range(len(ivs))]
        pool = [v for r in ivs for v in r]

        def bound():
            r = rng.random()
            if r < 0.1:
                return None
            if r < 0.6:
                return rng.choice(pool)
            return rng.randrange(-den, 11 * den) / den
        a, b = bound(), bound()
        if a is not None and b is not None and a > b:
            a, b = b, a
        add(check_adjust(U, copy.deepcopy(ivs), labs if rng.random() < 0.8 else None, a, b, mode))
        # merge: second annotation on the same span
        lo, hi = ivs[0][0], ivs[-1][1]
        inner = sorted(set(rng.choice(pool + [rng.randrange(int(lo * den), int(hi * den) + 1) / den]) for _ in range(rng.choice([0, 1, 2, 3]))))
        bb = [lo] + [v for v in inner if lo < v < hi] + [hi]
        y = [[bb[i], bb[i + 1]] for i in range(len(bb) - 1)]
        add(check_merge(U, ivs, labs, y, ['m%d' % i for i in range(len(y))], mode))
        ts = sorted(rng.choice(pool) if rng.random() < 0.5 else rng.randrange(-den, 11 * den) / den for _ in range(rng.choice([0, 1, 3, 6, 10])))
        if rng.random() < 0.1:
            rng.shuffle(ts)
        add(check_interpolate(U, ivs, labs, ts, '__FILL', mode))
        add(check_samples(U, ivs, labs, rng.choice([0.0, 1 / den, 0.05]), rng.choice([0.25, 0.5, 0.1, 0.125])))
        bnd = sorted(set(rng.randrange(0, 10 * den) / den for _ in range(rng.choice([0, 1, 2, 3, 5]))))
        r = rng.random()
        if r < 0.1 and bnd:
            bnd = bnd + [bnd[-1]]
        elif r < 0.2 and len(bnd) >= 2:
            bnd[0], bnd[1] = bnd[1], bnd[0]
        elif r < 0.3 and bnd:
            bnd = bnd[:1] + [bnd[0] + 2.0 ** -rng.choice([18, 20, 30])] + bnd[1:]
            if rng.random() < 0.5:
                bnd[0], bnd[1] = bnd[1], bnd[0]
        add(check_boundaries(U, bnd, 5, mode))
        add(check_contiguous(U, gen_annotation(rng, den, contiguous=True)))
        if first_only and out:
            break
    return out


# the witnesses of the `_refuted` theorems, as (theorem, oracle, arguments) -- each must produce a finding (mode='property')
# on the current mir_eval
WITNESSES = [
    ('adjust_all_below_collapse_refuted', 'check_adjust', ([[0.0, 1.0], [1.0, 2.0]], ['a', 'b'], 5.0, 6.0)),
    ('adjust_last_touching_tmin_collapse_refuted', 'check_adjust', ([[0.0, 1.0], [1.0, 2.0]], ['a', 'b'], 2.0, 3.0)),
    ('adjust_gap_start_fill_refuted', 'check_adjust', ([[0.0, 1.0], [3.0, 4.0]], ['a', 'b'], 2.0, 4.0)),
    ('adjust_gap_end_fill_refuted', 'check_adjust', ([[0.0, 1.0], [3.0, 4.0]], ['a', 'b'], 0.0, 2.0)),
    ('adjust_gap_fill_touching_refuted (t_min)', 'check_adjust', ([[0.0, 1.0], [3.0, 4.0]], ['a', 'b'], 1.0, 4.0)),
    ('adjust_gap_fill_touching_refuted (t_max)', 'check_adjust', ([[0.0, 1.0], [3.0, 4.0]], ['a', 'b'], 0.0, 3.0)),
    ('adjust_tmax_below_all_raises', 'check_adjust', ([[3.0, 4.0]], ['a'], None, 1.0)),
    ('adjust_tmax_at_first_start_raises', 'check_adjust', ([[3.0, 4.0]], ['a'], None, 3.0)),
    ('merge_gap_label_refuted', 'check_merge', ([[0.0, 1.0], [2.0, 3.0]], ['a', 'b'], [[0.0, 3.0]], ['c'])),
    ('interpolate_end_point_closed', 'check_interpolate', ([[0.0, 1.0], [1.0, 2.0]], ['a', 'b'], [0.0, 0.5, 1.0, 1.5, 2.0, 2.5])),
    ('boundaries_roundtrip_collapse_refuted', 'check_boundaries', ([0.0, 2.0 ** -20],)),
    ('boundaries_to_intervals_accepts_repeated_refuted', 'check_boundaries', ([1.0, 1.0, 1.0],)),
    ('boundaries_to_intervals_accepts_descending_refuted', 'check_boundaries', ([1.0 + 2.0 ** -20, 1.0],)),
]
# inputs of former refutations that the fixes 5b630fc / d54bbf4 repaired: each must now produce NO finding (mode='property'),
# and the recorded output must be reproduced exactly
FIXED_WITNESSES = [
    ('adjust_touching_tmin_dropped (was adjust_zero_duration_refuted)', 'check_adjust',
     ([[0.0, 1.0], [1.0, 2.0]], ['a', 'b'], 1.0, 3.0), ([[1.0, 2.0], [2.0, 3.0]], ['b', END])),
    ('adjust_touching_tmax_dropped (was adjust_zero_duration_at_tmax_refuted)', 'check_adjust',
     ([[0.0, 1.0], [1.0, 2.0]], ['a', 'b'], 0.0, 1.0), ([[0.0, 1.0]], ['a'])),
    ('label list no longer aliased (d54bbf4)', 'check_adjust',
     ([[0.0, 1.0], [1.0, 2.0]], ['a', 'b'], None, 5.0), ([[0.0, 1.0], [1.0, 2.0], [2.0, 5.0]], ['a', 'b', END])),
]


def replay_witnesses(U):
    """[(theorem, finding or None)] -- None means the defect is no longer reproduced by the implementation."""
    g = globals()
    return [(name, g[fn](U, *copy.deepcopy(args))) for name, fn, args in WITNESSES]


def replay_fixed(U):
    """[(name, finding or None)] -- a finding means a repaired input misbehaves again."""
    g = globals()
    res = []
    for name, fn, args, want in FIXED_WITNESSES:
        f = g[fn](U, *copy.deepcopy(args))
        if f is None:
            ivs, labels, a, b = copy.deepcopy(args)
            oi, ol = U.adjust_intervals(_arr(ivs), labels, a, b, START, END)
            if (_rows(oi), ol) != (want[0], want[1]):
                f = finding('util.adjust_intervals', 'repaired input gives the recorded output', list(args), [_rows(oi), ol], name)
        res.append((name, f))
    return res


if __name__ == '__main__':
    import json
    import random
    import sys
    sys.path.insert(0, '/repo')
    from mir_eval import util as U
    for name, f in replay_witnesses(U):
        print(name, '->', 'NOT REPRODUCED' if f is None else json.dumps({k: f[k] for k in ('relation', 'observed', 'why')}, default=str))
    print('--- repaired inputs:')
    for name, f in replay_fixed(U):
        print(name, '->', 'ok' if f is None else 'REGRESSION ' + json.dumps(f, default=str))
    print('--- proved relations on random inputs:')
    print(json.dumps(search(U, random.Random(0), 3000, mode='proved'), indent=1, default=str))
    print('--- property relations on random inputs (known defects expected):')
    for f in search(U, random.Random(0), 3000, mode='property'):
        print(json.dumps({k: f[k] for k in ('function', 'relation', 'input', 'why')}, default=str))
