"""Property oracles on the implementation for the hierarchy property (C17): they state the property directly on
mir_eval's API (brute-force enumeration of the frame triples, written independently of mir_eval.hierarchy). Used only
to search for a concrete failing input once a proof obligation or a correspondence no longer checks (DESIGN.md 4.3);
no verdict of "holds" rests on them."""
import json
import random
import warnings
from fractions import Fraction

import numpy as np
import scipy.sparse

TOL = 1e-9


def finding(function, relation, inp, observed, why):
    return {'function': function, 'relation': relation, 'input': inp, 'observed': observed, 'why': why}


# ---------------------------------------------------------------- brute-force specification
def brute_stats(R, E, transitive, window):
    """(score as Fraction, number of query frames with a reference triple)."""
    n = len(R)
    w = n if window is None else int(window)
    total, counted = Fraction(0), 0
    for q in range(n):
        W = [i for i in range(max(0, q - w), min(n, q + w)) if i != q]
        norm = inv = 0
        for i in W:
            for j in W:
                ri, rj = int(R[q][i]), int(R[q][j])
                if (ri < rj) if transitive else (rj == ri + 1):
                    norm += 1
                    if int(E[q][i]) >= int(E[q][j]):
                        inv += 1
        if norm:
            total += 1 - Fraction(inv, norm)
            counted += 1
    return (total / counted if counted else Fraction(0)), counted


def brute_gauc(R, E, transitive, window):
    return float(brute_stats(R, E, transitive, window)[0])


def ffloor(t, fs):
    q = Fraction(t) / Fraction(fs)
    return q.numerator // q.denominator


def _frames(intervals_hier, frame_size):
    times = [t for level in intervals_hier for seg in level for t in seg]
    lo = ffloor(min(times), frame_size)
    n = ffloor(max(times), frame_size) - lo
    return max(n, 0)


def _seg_frames(seg, frame_size, n):
    a, b = ffloor(seg[0], frame_size), ffloor(seg[1], frame_size)
    return range(max(a, 0), min(b, n))


def brute_lca(intervals_hier, frame_size):
    n = _frames(intervals_hier, frame_size)
    M = [[0] * n for _ in range(n)]
    for level, segs in enumerate(intervals_hier, 1):
        for seg in segs:
            fr = _seg_frames(seg, frame_size, n)
            for i in fr:
                for j in fr:
                    M[i][j] = max(M[i][j], level)
    return M


def brute_meet(intervals_hier, labels_hier, frame_size):
    n = _frames(intervals_hier, frame_size)
    M = [[0] * n for _ in range(n)]
    for level, (segs, labs) in enumerate(zip(intervals_hier, labels_hier), 1):
        for s1, l1 in zip(segs, labs):
            for s2, l2 in zip(segs, labs):
                if str(l1).lower() != str(l2).lower():
                    continue
                for i in _seg_frames(s1, frame_size, n):
                    for j in _seg_frames(s2, frame_size, n):
                        M[i][j] = max(M[i][j], level)
    return M


def fmeasure(p, r, beta):
    if p == 0 and r == 0:
        return 0.0
    return (1 + beta ** 2) * p * r / (beta ** 2 * p + r)


def window_frames(window, frame_size):
    return None if window is None else ffloor(window, frame_size)


def rejected(window, frame_size):
    return frame_size <= 0 or (window is not None and frame_size > window)


# ---------------------------------------------------------------- calling the implementation
def arr(hier):
    return [np.array(level, dtype=float) for level in hier]


def lists(hier):
    return [[[float(a), float(b)] for a, b in level] for level in hier]


def call(f, *args, **kw):
    """('ok', value) | ('ValueError', msg) | ('other', 'Class: msg')."""
    with warnings.catch_warnings():
        warnings.simplefilter('ignore')
        try:
            return 'ok', f(*args, **kw)
        except ValueError as e:
            return 'ValueError', str(e)
        except Exception as e:  # noqa
            return 'other', '%s: %s' % (type(e).__name__, e)


def csr(M):
    a = np.array(M, dtype=np.uint8)
    if a.ndim != 2:
        a = a.reshape((len(M), len(M)))
    return scipy.sparse.csr_matrix(a)


def _cmp_scores(fn, inp, got, want):
    got = [float(x) for x in got]
    for name, g in zip(('precision', 'recall', 'f'), got):
        if not (0.0 <= g <= 1.0):
            return finding(fn, 'scores lie in [0, 1]', inp, got, name + ' out of range')
    for name, g, w in zip(('precision', 'recall', 'f'), got, want):
        if abs(g - w) > TOL:
            return finding(fn, name + ' equals the triple-counting definition', inp, got, 'brute force gives %r' % (list(want),))
    return None


# ---------------------------------------------------------------- oracles
def check_gauc(H, R, E, transitive, window):
    inp = {'R': np.array(R).tolist(), 'E': np.array(E).tolist(), 'transitive': transitive, 'window': window}
    st, v = call(H._gauc, csr(R), csr(E), transitive, window)
    if st == 'ValueError' and np.array(R).shape != np.array(E).shape:
        return None
    if st != 'ok':
        return finding('hierarchy._gauc', 'returns a score', inp, v.split(':')[0] if st == 'other' else 'ValueError', v)
    want = brute_gauc(R, E, transitive, window)
    if not (0.0 <= v <= 1.0):
        return finding('hierarchy._gauc', 'scores lie in [0, 1]', inp, float(v), 'out of range')
    if abs(v - want) > TOL:
        return finding('hierarchy._gauc', 'equals the triple-counting definition', inp, float(v), 'brute force gives %r' % want)
    return None


def check_tmeasure(H, ref, est, transitive, window, frame_size, beta=1.0):
    inp = {'ref': lists(ref), 'est': lists(est), 'transitive': transitive, 'window': window, 'frame_size': frame_size, 'beta': beta}
    st, v = call(H.tmeasure, arr(ref), arr(est), transitive=transitive, window=window, frame_size=frame_size, beta=beta)
    if rejected(window, frame_size):
        if st != 'ValueError':
            return finding('hierarchy.tmeasure', 'frame_size <= 0 or frame_size > window is rejected', inp, repr(v), 'no ValueError')
        return None
    if st != 'ok':
        return finding('hierarchy.tmeasure', 'returns scores on valid input', inp, v if st == 'other' else 'ValueError: ' + v, 'raised')
    wf = window_frames(window, frame_size)
    R, E = brute_lca(ref, frame_size), brute_lca(est, frame_size)
    r, p = brute_gauc(R, E, transitive, wf), brute_gauc(E, R, transitive, wf)
    return _cmp_scores('hierarchy.tmeasure', inp, v, (p, r, fmeasure(p, r, beta)))


def check_lmeasure(H, ref, ref_labels, est, est_labels, frame_size, beta=1.0):
    inp = {'ref': lists(ref), 'ref_labels': ref_labels, 'est': lists(est), 'est_labels': est_labels, 'frame_size': frame_size, 'beta': beta}
    st, v = call(H.lmeasure, arr(ref), ref_labels, arr(est), est_labels, frame_size=frame_size, beta=beta)
    if frame_size <= 0:
        if st != 'ValueError':
            return finding('hierarchy.lmeasure', 'frame_size <= 0 is rejected', inp, repr(v), 'no ValueError')
        return None
    if st != 'ok':
        return finding('hierarchy.lmeasure', 'returns scores on valid input', inp, v if st == 'other' else 'ValueError: ' + v, 'raised')
    R, E = brute_meet(ref, ref_labels, frame_size), brute_meet(est, est_labels, frame_size)
    r, p = brute_gauc(R, E, True, None), brute_gauc(E, R, True, None)
    return _cmp_scores('hierarchy.lmeasure', inp, v, (p, r, fmeasure(p, r, beta)))


def check_evaluate(H, ref, ref_labels, est, est_labels, window, frame_size, beta=1.0):
    """evaluate(..., window=w): the T entries are the windowed triple definition, the L entries the definition with NO window"""
    if rejected(window, frame_size):
        return None
    inp = {'ref': lists(ref), 'ref_labels': ref_labels, 'est': lists(est), 'est_labels': est_labels, 'window': window,
           'frame_size': frame_size, 'beta': beta}
    st, v = call(H.evaluate, arr(ref), ref_labels, arr(est), est_labels, window=window, frame_size=frame_size, beta=beta)
    if st != 'ok':
        return None      # span conventions of evaluate() are C14's business
    wf = window_frames(window, frame_size)
    R, E = brute_lca(ref, frame_size), brute_lca(est, frame_size)
    for tag, tr in (('reduced', False), ('full', True)):
        r, p = brute_gauc(R, E, tr, wf), brute_gauc(E, R, tr, wf)
        f = _cmp_scores('hierarchy.evaluate[T %s]' % tag, inp, (v['T-Precision ' + tag], v['T-Recall ' + tag], v['T-Measure ' + tag]),
                        (p, r, fmeasure(p, r, beta)))
        if f:
            return f
    R, E = brute_meet(ref, ref_labels, frame_size), brute_meet(est, est_labels, frame_size)
    r, p = brute_gauc(R, E, True, None), brute_gauc(E, R, True, None)
    return _cmp_scores('hierarchy.evaluate[L]', inp, (v['L-Precision'], v['L-Recall'], v['L-Measure']), (p, r, fmeasure(p, r, beta)))


def check_self(H, hier, labels, transitive, window, frame_size):
    if rejected(window, frame_size):
        return None
    inp = {'hier': lists(hier), 'labels': labels, 'transitive': transitive, 'window': window, 'frame_size': frame_size}
    M = brute_lca(hier, frame_size)
    want = 1.0 if brute_stats(M, M, transitive, window_frames(window, frame_size))[1] else 0.0
    st, v = call(H.tmeasure, arr(hier), arr(hier), transitive=transitive, window=window, frame_size=frame_size)
    if st != 'ok':
        return finding('hierarchy.tmeasure', 'an annotation compared with itself scores', inp, v, 'raised; expected (%g, %g, %g)' % (want, want, want))
    if any(abs(float(x) - want) > TOL for x in v):
        return finding('hierarchy.tmeasure', 'an annotation compared with itself scores 1 (0 without reference triple)', inp, [float(x) for x in v], 'expected %g' % want)
    M = brute_meet(hier, labels, frame_size)
    want = 1.0 if brute_stats(M, M, True, None)[1] else 0.0
    st, v = call(H.lmeasure, arr(hier), labels, arr(hier), labels, frame_size=frame_size)
    if st != 'ok':
        return finding('hierarchy.lmeasure', 'an annotation compared with itself scores', inp, v, 'raised; expected (%g, %g, %g)' % (want, want, want))
    if any(abs(float(x) - want) > TOL for x in v):
        return finding('hierarchy.lmeasure', 'an annotation compared with itself scores 1 (0 without reference triple)', inp, [float(x) for x in v], 'expected %g' % want)
    return None


def _swap(fn, inp, s1, v1, s2, v2):
    if s1 != 'ok' or s2 != 'ok':
        if s1 == s2:
            return None   # both rejected / both raise: reported by the other oracles
        return finding(fn, 'exchanging the roles exchanges precision and recall', inp, [repr(v1), repr(v2)], 'only one direction raises')
    if abs(v1[0] - v2[1]) > 1e-12 or abs(v1[1] - v2[0]) > 1e-12:
        return finding(fn, 'exchanging the roles exchanges precision and recall', inp, [list(map(float, v1)), list(map(float, v2))], 'differs')
    return None


def check_swap(H, a, b, transitive, window, frame_size):
    inp = {'a': lists(a), 'b': lists(b), 'transitive': transitive, 'window': window, 'frame_size': frame_size}
    kw = dict(transitive=transitive, window=window, frame_size=frame_size)
    s1, v1 = call(H.tmeasure, arr(a), arr(b), **kw)
    s2, v2 = call(H.tmeasure, arr(b), arr(a), **kw)
    return _swap('hierarchy.tmeasure', inp, s1, v1, s2, v2)


def check_swap_l(H, a, la, b, lb, frame_size):
    inp = {'a': lists(a), 'a_labels': la, 'b': lists(b), 'b_labels': lb, 'frame_size': frame_size}
    s1, v1 = call(H.lmeasure, arr(a), la, arr(b), lb, frame_size=frame_size)
    s2, v2 = call(H.lmeasure, arr(b), lb, arr(a), la, frame_size=frame_size)
    return _swap('hierarchy.lmeasure', inp, s1, v1, s2, v2)


def check_params(H, ref, est, window, frame_size):
    inp = {'ref': lists(ref), 'est': lists(est), 'window': window, 'frame_size': frame_size}
    rel = 'ValueError exactly when frame_size <= 0 or frame_size > window'
    for transitive in (False, True):
        st, v = call(H.tmeasure, arr(ref), arr(est), transitive=transitive, window=window, frame_size=frame_size)
        if rejected(window, frame_size) != (st == 'ValueError'):
            return finding('hierarchy.tmeasure', rel, dict(inp, transitive=transitive), v if st != 'ok' else 'returned',
                           'expected rejection=%s' % rejected(window, frame_size))
        if st == 'other':
            return finding('hierarchy.tmeasure', 'only ValueError escapes', dict(inp, transitive=transitive), v, 'other exception class')
    return None


def check_one_frame_fixed(H):
    """Regression for the former defect (a one-element slice squeezed to a 0-d array raised IndexError; fixed in /repo by
    53bf09e, squeeze -> ravel): windows of one frame and one-frame annotations must not raise and must score as the
    brute force says (0: no query frame has a reference triple).  Returns a list of findings."""
    out = []
    ref = [[[0, 4.0]], [[0, 2.0], [2.0, 4.0]]]
    est = [[[0, 4.0]], [[0, 1.0], [1.0, 4.0]]]
    one = [[[0, 1.0]]]
    for transitive in (False, True):
        for window in (1.0, 1.5, 1.984375):
            out.append(check_tmeasure(H, ref, est, transitive, window, 1.0))
            out.append(check_self(H, ref, [['a'], ['a', 'b']], transitive, window, 1.0))
        for window in (None, 1.0, 10.0):
            out.append(check_tmeasure(H, one, one, transitive, window, 1.0))
            out.append(check_params(H, one, one, window, 1.0))
        for window in (None, 0, 1, 2, 5):
            out.append(check_gauc(H, [[3]], [[3]], transitive, window))
            out.append(check_gauc(H, np.ones((4, 4), dtype=int), np.ones((4, 4), dtype=int), transitive, window))
            out.append(check_gauc(H, brute_lca(ref, 1.0), brute_lca(est, 1.0), transitive, window))
    out.append(check_lmeasure(H, one, [['a']], one, [['a']], 1.0))
    out.append(check_lmeasure(H, [[[0, 1.0], [1.0, 2.0]]], [['a', 'c']], [[[0, 1.0], [1.0, 2.0]]], [['c', 'c']], 2.0))
    st, v = call(H.tmeasure, arr(ref), arr(est), window=1.0, frame_size=1.0)
    if st != 'ok' or [float(x) for x in v] != [0.0, 0.0, 0.0]:
        out.append(finding('hierarchy.tmeasure', 'window == frame_size scores (0, 0, 0) on the former witness',
                           {'ref': ref, 'est': est, 'window': 1.0, 'frame_size': 1.0}, repr(v), 'former squeeze defect'))
    st, v = call(H.lmeasure, arr(one), [['a']], arr(one), [['a']], frame_size=1.0)
    if st != 'ok' or [float(x) for x in v] != [0.0, 0.0, 0.0]:
        out.append(finding('hierarchy.lmeasure', 'a one-frame annotation scores (0, 0, 0)', {'hier': one}, repr(v), 'former squeeze defect'))
    return [f for f in out if f is not None]


# ---------------------------------------------------------------- generators and search
def random_hierarchy(rng, n_frames, frame_size, levels, nested):
    """levels contiguous segmentations of [0, n_frames*frame_size], boundaries on the grid frame_size/2."""
    top = 2 * n_frames
    hier, prev = [], set()
    for _ in range(levels):
        k = rng.randint(0, min(top - 1, 6))
        cuts = set(rng.sample(range(1, top), k)) if top > 1 else set()
        if nested:
            cuts |= prev
        prev = cuts
        b = [0] + sorted(cuts) + [top]
        hier.append([[x * frame_size / 2.0, y * frame_size / 2.0] for x, y in zip(b[:-1], b[1:])])
    return hier


def random_labels(rng, hier):
    out = []
    for level in hier:
        alphabet = rng.sample(['a', 'A', 'b', 'B', 'c', 'Verse', 'verse'], rng.randint(1, 4))
        out.append([rng.choice(alphabet) for _ in level])
    return out


def search(H, rng, budget=300):
    best, ncases = {}, [0]

    def note(f):
        ncases[0] += 1
        if f is None:
            return
        key = (f['function'], f['relation'], str(f['observed']))
        size = len(json.dumps(f['input']))
        if key not in best or size < best[key][0]:
            best[key] = (size, f)

    for f in check_one_frame_fixed(H):
        note(f)
    for _ in range(budget):
        n = rng.randint(1, 10)
        R = [[rng.randint(0, 4) for _ in range(n)] for _ in range(n)]
        E = [[rng.randint(0, 4) for _ in range(n)] for _ in range(n)]
        for transitive in (False, True):
            note(check_gauc(H, R, E, transitive, rng.choice([None, 0, 1, 2, 3, 5, 100])))
        n_frames = rng.choice([1, 2, 3]) if rng.random() < 0.15 else rng.randint(2, 40)
        fs = rng.choice([0.25, 0.5, 1.0, 2.0])
        levels, nested = rng.randint(1, 4), rng.random() < 0.5
        ref = random_hierarchy(rng, n_frames, fs, levels, nested)
        est = random_hierarchy(rng, n_frames, fs, rng.randint(1, 4), nested)
        rl, el = random_labels(rng, ref), random_labels(rng, est)
        window = rng.choice([None, fs, 1.5 * fs, 2 * fs, 3 * fs, 5 * fs, 1000.0, fs / 2, 0.0])
        beta = rng.choice([1.0, 0.5, 2.0])
        for transitive in (False, True):
            note(check_tmeasure(H, ref, est, transitive, window, fs, beta))
            note(check_self(H, ref, rl, transitive, window, fs))
            note(check_swap(H, ref, est, transitive, window, fs))
        note(check_lmeasure(H, ref, rl, est, el, fs, beta))
        note(check_evaluate(H, ref, rl, est, el, rng.choice([None, 2 * fs, 3 * fs, 5 * fs, 8 * fs]), fs, beta))
        note(check_swap_l(H, ref, rl, est, el, fs))
        note(check_params(H, ref, est, window, fs))
        note(check_params(H, ref, est, window, rng.choice([0.0, -fs])))
    search.cases = ncases[0]
    return [f for _, f in sorted(best.values(), key=lambda x: x[0])]


if __name__ == '__main__':
    import mir_eval.hierarchy as H
    for f in search(H, random.Random(0)):
        print(json.dumps(f))
    print(json.dumps({'cases': search.cases}))
