"""Property oracles for the frame-clustering metrics of mir_eval.segment (C16 and the C01/C02/C06/C08 rows): every score is
recomputed independently from the contingency table of the two frame-label sequences (fractions for the rational
scores, math.log / math.lgamma for the entropic ones) and compared with the public functions; plus the swap, relabel,
case, self-score and range relations and vmeasure == nce(marginal=True).  Used only to search for a concrete failing
input once a proof obligation or a correspondence no longer checks; no verdict of "holds" rests on them.

Known and deliberately tolerated (they are theorems about the model, see Proofs/SegmentClusterProps.v):
  * pairwise returns nan where a denominator counts no frame pair (pairwise_defined_refuted), rand_index returns nan for
    fewer than two frames (rand_single_frame).
  * AMI is 0/0 = nan when max(H_ref, H_est) equals the expected mutual information (e.g. both labellings all-singletons);
    NMI divides by max(sqrt(H_ref*H_est), 1e-10), so when exactly one labelling has a single class the rounding noise of
    MI (~1e-16) is returned multiplied by 1e10 (~1e-6 instead of 0).
  Pass strict=True to turn these into findings.
"""
import math
from collections import Counter
from fractions import Fraction

TOL = 1e-9
TOL_AMI = 1e-7


def finding(function, relation, inp, observed, why):
    return {'function': function, 'relation': relation, 'input': inp, 'observed': observed, 'why': why}


# ---------------------------------------------------------------------------------------------------------------
# independent reference computation
# ---------------------------------------------------------------------------------------------------------------
def frames_of(bounds, labels, frame_size):
    """Frame k sits at k*frame_size (exact, frame_size dyadic) and takes the label of the segment [s, e) containing it;
    bounds are the segment boundaries of a contiguous annotation starting at 0. Labels are compared lower-cased."""
    fs = Fraction(frame_size)
    n = int(Fraction(bounds[-1]) / fs)            # floor
    out = []
    for k in range(n):
        t = k * fs
        lab = None
        for i in range(len(labels)):
            if Fraction(bounds[i]) <= t < Fraction(bounds[i + 1]):
                lab = labels[i]
        out.append(None if lab is None else lab.lower())
    return out


def table(fr, fe):
    """contingency table as dict (ref class, est class) -> count, with the marginals"""
    n = Counter(zip(fr, fe))
    a = Counter(fr)
    b = Counter(fe)
    return n, a, b, len(fr)


def c2(x):
    return Fraction(x * (x - 1), 2)


def div(x, y):
    """quotient with the 0/0 -> nan, x/0 -> +-inf conventions"""
    if y == 0:
        return float('nan') if x == 0 else math.copysign(float('inf'), x)
    return x / y


def fmeasure(p, r, beta):
    if isinstance(p, float) or isinstance(r, float):
        if (isinstance(p, float) and math.isnan(p)) or (isinstance(r, float) and math.isnan(r)):
            return float('nan')
    if p == 0 and r == 0:
        return Fraction(0)
    b2 = Fraction(beta) ** 2
    return div((1 + b2) * p * r, b2 * p + r)


def reference_scores(fr, fe, beta=1.0):
    """All scores from the textbook formulas on the contingency table. Rational ones are Fractions (or nan)."""
    assert len(fr) == len(fe)
    n, a, b, N = table(fr, fe)
    A = sum(c2(x) for x in a.values())
    B = sum(c2(x) for x in b.values())
    M = sum(c2(x) for x in n.values())
    T = c2(N)
    out = {}
    p, r = div(M, B), div(M, A)
    out['pairwise'] = (p, r, fmeasure(p, r, beta))
    out['rand'] = div(M + (T - A - B + M), T)
    R, C = len(a), len(b)
    if T == 0 or (A + B) * T == 2 * A * B:
        out['ari'] = Fraction(1)      # both partitions trivial (one block each / all singletons / < 2 frames): limit cases
    else:
        out['ari'] = (M - A * B / T) / ((A + B) / 2 - A * B / T)
    if N == 0:
        return out
    # entropic scores
    ln = math.log
    mi = sum(x / N * ln(N * x / (a[i] * b[j])) for (i, j), x in n.items())
    h_r = -sum(x / N * ln(x / N) for x in a.values())
    h_e = -sum(x / N * ln(x / N) for x in b.values())
    out['mi'] = mi
    if R == C == 1:
        out['nmi'] = 1.0
        out['ami'] = 1.0
    else:
        out['nmi'] = mi / max(math.sqrt(h_r * h_e), 1e-10)
        out['_nmi_degenerate'] = math.sqrt(h_r * h_e) <= 1e-10
        lg = math.lgamma
        emi = 0.0
        for ai in a.values():
            for bj in b.values():
                for k in range(max(1, ai + bj - N), min(ai, bj) + 1):
                    logp = (lg(ai + 1) + lg(bj + 1) + lg(N - ai + 1) + lg(N - bj + 1) - lg(N + 1) - lg(k + 1)
                            - lg(ai - k + 1) - lg(bj - k + 1) - lg(N - ai - bj + k + 1))
                    emi += k / N * ln(N * k / (ai * bj)) * math.exp(logp)
        out['ami'] = div(mi - emi, max(h_r, h_e) - emi)
        out['_ami_degenerate'] = abs(max(h_r, h_e) - emi) < 1e-9
    # conditional entropies, base 2
    l2 = math.log2
    h_e_given_r = -sum(x / N * l2(x / a[i]) for (i, j), x in n.items())
    h_r_given_e = -sum(x / N * l2(x / b[j]) for (i, j), x in n.items())
    for key, z_r, z_e in (('nce', l2(R), l2(C)), ('v', h_r / ln(2), h_e / ln(2))):
        over = 1.0 - h_e_given_r / z_e if z_e > 0 else 0.0
        under = 1.0 - h_r_given_e / z_r if z_r > 0 else 0.0
        if over == 0 and under == 0:
            f = 0.0
        else:
            b2 = beta ** 2
            f = (1 + b2) * over * under / (b2 * over + under)
        out[key] = (over, under, f)
    return out


# ---------------------------------------------------------------------------------------------------------------
# comparison helpers
# ---------------------------------------------------------------------------------------------------------------
def _close(x, y, tol=TOL):
    x, y = float(x), float(y)
    if math.isnan(x) or math.isnan(y):
        return math.isnan(x) and math.isnan(y)
    if math.isinf(x) or math.isinf(y):
        return x == y
    return abs(x - y) <= tol


def _tup(x):
    return tuple(float(v) for v in x) if isinstance(x, tuple) else float(x)


def _ivs(bounds):
    import numpy as np
    return np.array([[bounds[i], bounds[i + 1]] for i in range(len(bounds) - 1)], dtype=float).reshape(-1, 2)


def implementation_scores(S, rb, rl, eb, el, frame_size, beta):
    import warnings
    ri, ei = _ivs(rb), _ivs(eb)
    with warnings.catch_warnings():
        warnings.simplefilter('ignore')
        out = {
            'pairwise': S.pairwise(ri, rl, ei, el, frame_size=frame_size, beta=beta),
            'rand': S.rand_index(ri, rl, ei, el, frame_size=frame_size),
            'ari': S.ari(ri, rl, ei, el, frame_size=frame_size),
            'nce': S.nce(ri, rl, ei, el, frame_size=frame_size, beta=beta),
            'nce_marginal': S.nce(ri, rl, ei, el, frame_size=frame_size, beta=beta, marginal=True),
            'v': S.vmeasure(ri, rl, ei, el, frame_size=frame_size, beta=beta),
        }
        mi = S.mutual_information(ri, rl, ei, el, frame_size=frame_size)
    out['mi'], out['ami'], out['nmi'] = mi
    return out


def _same(name, x, y, tol=TOL):
    if isinstance(x, tuple):
        return all(_close(u, v, tol) for u, v in zip(x, y))
    return _close(x, y, tol)


def check_annotations(S, rb, rl, eb, el, frame_size=0.25, beta=1.0, strict=False):
    """All C16 clauses (and the C01/C02/C06/C08 rows) on one pair of contiguous annotations given by their boundary
    lists and labels. frame_size must be dyadic so that the sampling grid is exact. Returns a finding or None."""
    inp = {'ref_bounds': rb, 'ref_labels': rl, 'est_bounds': eb, 'est_labels': el, 'frame_size': frame_size, 'beta': beta}
    try:
        got = implementation_scores(S, rb, rl, eb, el, frame_size, beta)
    except Exception as e:  # noqa
        return finding('segment.*', 'valid annotations are scored without an exception', inp, type(e).__name__ + ': ' + str(e), '')
    fr, fe = frames_of(rb, rl, frame_size), frames_of(eb, el, frame_size)
    if len(fr) != len(fe) or None in fr or None in fe:
        return None       # not a pair of annotations covering the same frames: outside the property
    want = reference_scores(fr, fe, beta)
    # --- definitions
    for key, fn in (('pairwise', 'segment.pairwise'), ('rand', 'segment.rand_index'), ('ari', 'segment.ari'), ('mi', 'segment.mutual_information[MI]'),
                    ('nmi', 'segment.mutual_information[NMI]'), ('ami', 'segment.mutual_information[AMI]'), ('nce', 'segment.nce'), ('v', 'segment.vmeasure')):
        if key not in want:
            continue
        if not strict and ((key == 'ami' and want.get('_ami_degenerate')) or (key == 'nmi' and want.get('_nmi_degenerate'))):
            continue
        tol = TOL_AMI if key == 'ami' else TOL
        if not _same(key, want[key], got[key], tol):
            return finding(fn, 'equals the textbook formula on the contingency table of the sampled frames', inp,
                           {'implementation': _tup(got[key]), 'definition': _tup(want[key])}, 'difference above %g' % tol)
    # --- vmeasure is nce(marginal=True), bit for bit
    if not all((u == v) or (math.isnan(u) and math.isnan(v)) for u, v in zip(got['v'], got['nce_marginal'])):
        return finding('segment.vmeasure', 'vmeasure == nce(marginal=True)', inp, {'vmeasure': _tup(got['v']), 'nce': _tup(got['nce_marginal'])}, '')
    # --- V is the (beta-weighted) harmonic mean of its precision and recall
    vp, vr, vf = (float(x) for x in got['v'])
    if vp > 0 or vr > 0:
        hm = (1 + beta ** 2) * vp * vr / (beta ** 2 * vp + vr)
        if not _close(hm, vf):
            return finding('segment.vmeasure', 'V = weighted harmonic mean of V_precision and V_recall', inp, _tup(got['v']), 'expected %r' % hm)
    # --- ranges
    nan_ok = not strict
    for key in ('pairwise', 'nce', 'v'):
        for x in got[key]:
            x = float(x)
            if math.isnan(x) and nan_ok and key == 'pairwise':
                continue
            if not (-TOL <= x <= 1 + TOL):
                return finding('segment.' + key, 'score in [0, 1]', inp, _tup(got[key]), '')
    for key in ('rand', 'nmi'):
        x = float(got[key])
        if math.isnan(x) and nan_ok and key == 'rand' and len(fr) < 2:
            continue
        if key == 'nmi' and not strict and want.get('_nmi_degenerate'):
            continue
        if not (-TOL <= x <= 1 + TOL):
            return finding('segment.' + key, 'score in [0, 1]', inp, x, '')
    if not float(got['ari']) <= 1 + TOL:
        return finding('segment.ari', 'ARI <= 1', inp, float(got['ari']), '')
    if not float(got['ami']) <= 1 + TOL_AMI and (strict or not want.get('_ami_degenerate')):
        return finding('segment.mutual_information[AMI]', 'AMI <= 1', inp, float(got['ami']), '')
    if float(got['mi']) < -TOL:
        return finding('segment.mutual_information[MI]', 'MI >= 0', inp, float(got['mi']), '')
    # --- swap
    try:
        sw = implementation_scores(S, eb, el, rb, rl, frame_size, beta)
    except Exception as e:  # noqa
        return finding('segment.*', 'swapping the annotations raises no exception', inp, type(e).__name__, '')
    p, r, f = got['pairwise']
    p2, r2, f2 = sw['pairwise']
    if not (_close(p, r2) and _close(r, p2) and (beta != 1.0 or _close(f, f2))):
        return finding('segment.pairwise', 'swapping ref/est exchanges precision and recall', inp, {'(ref,est)': _tup(got['pairwise']), '(est,ref)': _tup(sw['pairwise'])}, '')
    for key in ('nce', 'v'):
        o, u, f = got[key]
        o2, u2, f2 = sw[key]
        if not (_close(o, u2) and _close(u, o2) and (beta != 1.0 or _close(f, f2))):
            return finding('segment.' + key, 'swapping ref/est exchanges over and under', inp, {'(ref,est)': _tup(got[key]), '(est,ref)': _tup(sw[key])}, '')
    for key in ('rand', 'ari', 'mi', 'nmi', 'ami'):
        if not _close(got[key], sw[key], TOL_AMI if key == 'ami' else TOL):
            return finding('segment.' + key, 'symmetric in (ref, est)', inp, {'(ref,est)': float(got[key]), '(est,ref)': float(sw[key])}, '')
    # --- relabelling by a bijection, and case changes
    ren = {}
    for s in rl + el:
        ren.setdefault(s.lower(), 'zz%03d' % (997 - len(ren)))          # reverses the sort order of the classes
    variants = [('labels renamed by a bijection', [ren[s.lower()] for s in rl], [ren[s.lower()] for s in el]),
                ('case of the labels changed', [s.swapcase() for s in rl], [s.upper() for s in el])]
    for rel, rl2, el2 in variants:
        try:
            alt = implementation_scores(S, rb, rl2, eb, el2, frame_size, beta)
        except Exception as e:  # noqa
            return finding('segment.*', rel + ': no exception', inp, type(e).__name__, '')
        for key in got:
            if not _same(key, got[key], alt[key], TOL_AMI if key == 'ami' else TOL):
                return finding('segment.' + key, rel + ' leaves the score unchanged', inp, {'original': _tup(got[key]), 'changed': _tup(alt[key]), 'labels': [rl2, el2]}, '')
    # --- self score and identical partitions
    try:
        se = implementation_scores(S, rb, rl, rb, [ren[s.lower()] for s in rl], frame_size, beta)
    except Exception as e:  # noqa
        return finding('segment.*', 'an annotation is scored against a renamed copy of itself', inp, type(e).__name__, '')
    for key in ('pairwise', 'rand', 'ari', 'nmi', 'ami', 'v'):
        xs = se[key] if isinstance(se[key], tuple) else (se[key],)
        for x in xs:
            x = float(x)
            if math.isnan(x) and nan_ok and key in ('pairwise', 'rand'):
                continue
            if math.isnan(x) and nan_ok and key == 'ami' and len(set(fr)) == len(fr):
                continue          # all singletons: 0/0
            if key == 'v' and len(set(fr)) == 1:
                continue          # one cluster: the marginal entropy is 0 and the code defines the score as 0
            if not _close(x, 1.0, TOL_AMI if key == 'ami' else TOL):
                return finding('segment.' + key, 'identical partitions score 1', inp, _tup(se[key]), '')
    return None


def check_case(S, case, strict=False):
    """adaptor for the 'pub' cases of the unit seg_cluster_q"""
    if case.get('kind') != 'pub' or not case.get('expect'):
        return None
    if len(case['rl']) == 0 or len(case['el']) == 0:
        return None
    return check_annotations(S, case['rb'], case['rl'], case['eb'], case['el'], 0.25, case['beta'], strict=strict)
