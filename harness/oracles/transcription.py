"""Property oracles on the implementation for mir_eval.transcription / transcription_velocity (C01, C02, C05-C09):
each states one property directly on mir_eval's API and returns None or a finding dict.  Used only to search for a
concrete failing input once a proof obligation or a correspondence no longer checks; no verdict of "holds" rests on them.

Known findings on the unchanged tree (see coq/Proofs/TranscriptionProps.v):
  * check_range: the Average Overlap Ratio can be negative (aor_negative_example);
  * check_self:  a perfect estimate can get AOR < 1 (prf_self_aor_refuted) and, with velocities, P = R = F = 0
                 (vel_prf_self_refuted): the maximum matching returned need not be the identity.

Inputs: notes are [onset, offset, pitch_hz, velocity] rows; `par` is a dict of keyword arguments."""
import itertools
import random


def finding(function, relation, inp, observed, why):
    return {'function': function, 'relation': relation, 'input': inp, 'observed': observed, 'why': why}


def _arrays(notes):
    import numpy as np
    iv = np.array([[n[0], n[1]] for n in notes], dtype=float).reshape(-1, 2)
    return iv, np.array([n[2] for n in notes], dtype=float), np.array([n[3] for n in notes], dtype=float)


def _quiet(f, *a, **k):
    import warnings
    with warnings.catch_warnings():
        warnings.simplefilter('ignore')
        return f(*a, **k)


# ---------------------------------------------------------------------------------------------------------------
# the stated note predicates, written out independently (scalar code, the documented criteria)
# ---------------------------------------------------------------------------------------------------------------
def _cmp(strict, a, b):
    return a < b if strict else a <= b


def onset_ok(r, e, par):
    import numpy as np
    return bool(_cmp(par.get('strict', False), np.around(abs(r[0] - e[0]), 4), par.get('onset_tolerance', 0.05)))


def offset_ok(r, e, par):
    import numpy as np
    ratio = par.get('offset_ratio', 0.2)
    ratio = 0.2 if ratio is None else ratio          # offset-only matching has no "None" mode: the default is used
    tol = max(ratio * abs(r[1] - r[0]), par.get('offset_min_tolerance', 0.05))
    return bool(_cmp(par.get('strict', False), np.around(abs(r[1] - e[1]), 4), tol))


def pitch_ok(r, e, par):
    import numpy as np
    return bool(_cmp(par.get('strict', False), abs(1200 * (np.log2(r[2]) - np.log2(e[2]))), par.get('pitch_tolerance', 50.0)))


def note_ok(r, e, par):
    return onset_ok(r, e, par) and pitch_ok(r, e, par) and (par.get('offset_ratio', 0.2) is None or offset_ok(r, e, par))


def brute_max(nr, ne, ok):
    """Size of a maximum one-to-one pairing inside {(i, j): ok(i, j)}: Kuhn's augmenting paths (independent of util._bipartite_match)."""
    adj = [[j for j in range(ne) if ok(i, j)] for i in range(nr)]
    mate = [-1] * ne

    def aug(i, seen):
        for j in adj[i]:
            if j in seen:
                continue
            seen.add(j)
            if mate[j] < 0 or aug(mate[j], seen):
                mate[j] = i
                return True
        return False
    return sum(1 for i in range(nr) if aug(i, set()))


def brute_max_exhaustive(nr, ne, ok):
    """The same by exhaustive enumeration (for nr, ne <= 6)."""
    best = 0
    small, big, flip = (nr, ne, False) if nr <= ne else (ne, nr, True)
    for k in range(small, 0, -1):
        if k <= best:
            break
        for rows in itertools.combinations(range(small), k):
            for cols in itertools.permutations(range(big), k):
                if all((ok(c, r) if flip else ok(r, c)) for r, c in zip(rows, cols)):
                    return k
    return best


MATCHERS = ('match_note_onsets', 'match_note_offsets', 'match_notes')


def _call_matcher(T, name, ref, est, par):
    ri, rp, _ = _arrays(ref)
    ei, ep, _ = _arrays(est)
    if name == 'match_note_onsets':
        kw = {k: par[k] for k in ('onset_tolerance', 'strict') if k in par}
        return _quiet(T.match_note_onsets, ri, ei, **kw), onset_ok
    if name == 'match_note_offsets':
        kw = {k: par[k] for k in ('offset_ratio', 'offset_min_tolerance', 'strict') if k in par and par[k] is not None}
        return _quiet(T.match_note_offsets, ri, ei, **kw), offset_ok
    return _quiet(T.match_notes, ri, rp, ei, ep, **par), note_ok


# ---------------------------------------------------------------------------------------------------------------
# C05
# ---------------------------------------------------------------------------------------------------------------
def check_matching(T, name, ref, est, par):
    """The returned list is a one-to-one pairing, every pair satisfies the stated predicate, and it is maximum."""
    try:
        m, ok = _call_matcher(T, name, ref, est, par)
    except ValueError:
        return None
    m = [(int(a), int(b)) for a, b in m]
    fn = 'transcription.' + name
    if len(set(a for a, _ in m)) != len(m) or len(set(b for _, b in m)) != len(m):
        return finding(fn, 'one-to-one', [ref, est, par], m, 'an index is used twice')
    if m != sorted(m):
        return finding(fn, 'sorted by reference index', [ref, est, par], m, 'not sorted')
    for a, b in m:
        if not (0 <= a < len(ref) and 0 <= b < len(est)) or not ok(ref[a], est[b], par):
            return finding(fn, 'every matched pair satisfies the note predicate', [ref, est, par], m, 'pair (%d,%d) does not' % (a, b))
    best = brute_max(len(ref), len(est), lambda i, j: ok(ref[i], est[j], par))
    if len(ref) <= 5 and len(est) <= 5:
        b2 = brute_max_exhaustive(len(ref), len(est), lambda i, j: ok(ref[i], est[j], par))
        if b2 != best:
            return finding('oracle', 'the two brute-force maxima agree', [ref, est, par], [best, b2], 'oracle bug')
    if len(m) != best:
        return finding(fn, 'maximum matching', [ref, est, par], len(m), 'a matching of size %d exists' % best)
    return None


# ---------------------------------------------------------------------------------------------------------------
# scores
# ---------------------------------------------------------------------------------------------------------------
def scores(T, TV, which, ref, est, par):
    """(P, R, F[, AOR]) of one of 'notes' | 'onset' | 'offset' | 'velocity'; None when the call raises ValueError."""
    ri, rp, rv = _arrays(ref)
    ei, ep, ev = _arrays(est)
    try:
        if which == 'notes':
            kw = {k: v for k, v in par.items() if k != 'velocity_tolerance'}
            return tuple(float(x) for x in _quiet(T.precision_recall_f1_overlap, ri, rp, ei, ep, **kw))
        if which == 'onset':
            kw = {k: par[k] for k in ('onset_tolerance', 'strict', 'beta') if k in par}
            return tuple(float(x) for x in _quiet(T.onset_precision_recall_f1, ri, ei, **kw))
        if which == 'offset':
            kw = {k: par[k] for k in ('offset_ratio', 'offset_min_tolerance', 'strict', 'beta') if k in par and par[k] is not None}
            return tuple(float(x) for x in _quiet(T.offset_precision_recall_f1, ri, ei, **kw))
        return tuple(float(x) for x in _quiet(TV.precision_recall_f1_overlap, ri, rp, rv, ei, ep, ev, **par))
    except ValueError:
        return None


WHICH = ('notes', 'onset', 'offset', 'velocity')
# the function a finding about `which` names (the matchers of known_findings.json look for these names)
FN = {'notes': 'transcription.precision_recall_f1_overlap', 'onset': 'transcription.onset_precision_recall_f1',
      'offset': 'transcription.offset_precision_recall_f1', 'velocity': 'transcription_velocity.precision_recall_f1_overlap'}


def check_range(T, TV, which, ref, est, par):
    """C01: P, R, F in [0, 1]; AOR <= 1 (documented: in [0, 1])."""
    s = scores(T, TV, which, ref, est, par)
    if s is None:
        return None
    for name, x in zip(('precision', 'recall', 'f_measure'), s[:3]):
        if not (0.0 <= x <= 1.0):
            return finding(FN[which], '%s in [0, 1]' % name, [ref, est, par], s, 'out of range')
    if len(s) == 4:
        if not s[3] <= 1.0 + 1e-12:
            return finding(FN[which], 'average overlap ratio <= 1', [ref, est, par], s, 'out of range')
        if s[3] < 0:
            # NOT claimed by C01 (the property bounds the ratio from above only; aor_negative_example is proved): the text is
            # worded so that harness.oracles.all.classify attributes it to no property
            return finding(FN[which], 'average overlap ratio is not below zero (NOT claimed by C01, which limits it from above only)', [ref, est, par], s,
                           'matched notes that do not overlap give a ratio below zero')
    return None


def check_self(T, TV, which, notes, par):
    """C02: a perfect estimate scores P = R = F = 1 and AOR = 1 (positive tolerances, at least one note)."""
    if not notes:
        return None
    s = scores(T, TV, which, notes, notes, par)
    if s is None:
        return None
    if any(abs(x - 1.0) > 1e-9 for x in s[:3]):
        return finding(FN[which], 'est = ref scores precision = recall = F = 1', [notes, par], s, 'not 1')
    if len(s) == 4 and abs(s[3] - 1.0) > 1e-9:
        return finding(FN[which], 'est = ref has average overlap ratio 1', [notes, par], s,
                       'the maximum matching returned is not the identity')
    return None


def check_swap(T, TV, ref, est, par):
    """C06: for onset-only matching and for note matching without offsets, swapping ref/est exchanges P and R (F for beta = 1)."""
    p2 = dict(par)
    p2['offset_ratio'] = None
    for which, p in (('onset', par), ('notes', p2)):
        a, b = scores(T, TV, which, ref, est, p), scores(T, TV, which, est, ref, p)
        if a is None or b is None:
            continue
        if abs(a[0] - b[1]) > 1e-9 or abs(a[1] - b[0]) > 1e-9 or (p.get('beta', 1.0) == 1.0 and abs(a[2] - b[2]) > 1e-9):
            return finding(FN[which], 'swapping reference and estimate exchanges precision and recall', [ref, est, p], [a, b], 'differs')
    return None


def _count(T, name, ref, est, par):
    try:
        return len(_call_matcher(T, name, ref, est, par)[0])
    except ValueError:
        return None


def check_mono(T, TV, ref, est, par, wider):
    """C07: `wider` = par with some tolerances enlarged: the number of matched notes does not decrease; strict=True <= strict=False;
    with offsets <= without offsets <= onset-only; with velocity <= without."""
    for name in MATCHERS:
        a, b = _count(T, name, ref, est, par), _count(T, name, ref, est, wider)
        if a is not None and b is not None and a > b:
            return finding('transcription.' + name, 'widening a tolerance never lowers the number of matched notes', [ref, est, par, wider], [a, b], 'decreased')
        ps, pn = dict(par, strict=True), dict(par, strict=False)
        a, b = _count(T, name, ref, est, ps), _count(T, name, ref, est, pn)
        if a is not None and b is not None and a > b:
            return finding('transcription.' + name, 'strict=True matches <= strict=False matches', [ref, est, par], [a, b], 'decreased')
    if par.get('offset_ratio', 0.2) is not None:
        a = _count(T, 'match_notes', ref, est, par)
        b = _count(T, 'match_notes', ref, est, dict(par, offset_ratio=None))
        c = _count(T, 'match_note_onsets', ref, est, par)
        if None not in (a, b, c) and not a <= b <= c:
            return finding('transcription.match_notes', 'with offsets <= without offsets <= onset-only', [ref, est, par], [a, b, c], 'chain broken')
    ri, rp, rv = _arrays(ref)
    ei, ep, ev = _arrays(est)
    if len(ref) and len(est):
        try:
            kw = {k: v for k, v in par.items() if k not in ('beta',)}
            mv = _quiet(TV.match_notes, ri, rp, rv, ei, ep, ev, **kw)
            kw.pop('velocity_tolerance', None)
            mp = _quiet(T.match_notes, ri, rp, ei, ep, **kw)
        except ValueError:
            return None
        mv = [(int(a), int(b)) for a, b in mv]
        mp = [(int(a), int(b)) for a, b in mp]
        if not set(mv) <= set(mp):
            return finding('transcription_velocity.match_notes', 'velocity matches are a subset of the plain matches', [ref, est, par], [mv, mp], 'not a subset')
    return None


def check_shift_perm(T, TV, ref, est, par, shift, seed):
    """C08: adding `shift` (chosen so that the float additions are exact) to all times and permuting the notes leaves P, R, F unchanged."""
    from fractions import Fraction
    for n in ref + est:
        for t in n[:2]:
            if Fraction(t) + Fraction(shift) != Fraction(t + shift) or t + shift < 0:
                return None
    rng = random.Random(seed)
    r2 = [[n[0] + shift, n[1] + shift] + list(n[2:]) for n in ref]
    e2 = [[n[0] + shift, n[1] + shift] + list(n[2:]) for n in est]
    rng.shuffle(r2)
    rng.shuffle(e2)
    for which in WHICH:
        a, b = scores(T, TV, which, ref, est, par), scores(T, TV, which, r2, e2, par)
        if (a is None) != (b is None):
            return finding(FN[which], 'time shift and reordering preserve validity', [ref, est, par, shift, seed], [a, b], 'one call raised')
        if a is None:
            continue
        if which == 'velocity':
            continue  # the velocity regression depends on which maximum matching is returned, hence on the order
        if any(abs(x - y) > 1e-9 for x, y in zip(a[:3], b[:3])):
            return finding(FN[which], 'time shift and reordering leave P, R, F unchanged', [ref, est, par, shift, seed], [a, b], 'differs')
    return None


def check_pitch_scale(T, TV, ref, est, par, k):
    """C09: multiplying every pitch by 2**k (exact in binary64; log2 shifts by exactly k when np.log2 is exact on it) leaves the matching unchanged."""
    import numpy as np
    from fractions import Fraction
    f = 2.0 ** k
    for n in ref + est:
        # the shift of the log-frequency must be exact (no rounding when a binade boundary is crossed)
        if Fraction(float(np.log2(np.array([n[2] * f]))[0])) != Fraction(float(np.log2(np.array([n[2]]))[0])) + k:
            return None
    r2 = [[n[0], n[1], n[2] * f] + list(n[3:]) for n in ref]
    e2 = [[n[0], n[1], n[2] * f] + list(n[3:]) for n in est]
    try:
        a = _call_matcher(T, 'match_notes', ref, est, par)[0]
        b = _call_matcher(T, 'match_notes', r2, e2, par)[0]
    except ValueError:
        return None
    if [tuple(map(int, x)) for x in a] != [tuple(map(int, x)) for x in b]:
        return finding('transcription.match_notes', 'scaling all pitches by a common factor leaves the matching unchanged', [ref, est, par, k], [a, b], 'differs')
    return None


# ---------------------------------------------------------------------------------------------------------------
# a small random search over all oracles (lattice inputs)
# ---------------------------------------------------------------------------------------------------------------
def random_case(rng):
    n = rng.randint(0, 5)
    cluster = rng.random() < 0.4
    base = rng.randint(0, 128) / 64.
    ref = []
    for _ in range(n):
        on = base + rng.randint(-4, 4) / 64. if cluster else rng.randint(0, 256) / 64.
        on = max(0.0, on)
        ref.append([on, on + rng.choice([4, 16, 32, 64, 96]) / 64., rng.choice([440.0, 440.0, 220.0, 466.1637615180899]), float(rng.randint(0, 127))])
    est = []
    for r in ref:
        for _ in range(rng.choice([0, 1, 1, 1, 2])):
            on = max(0.0, r[0] + rng.choice([0, 0, 1, -1, 2, -2, 3, -3, 4, -4]) / 64.)
            off = max(on + 1 / 64., r[1] + rng.choice([0, 0, 2, -2, 8, -8]) / 64.)
            est.append([on, off, r[2] if rng.random() < 0.8 else r[2] * 2 ** (rng.choice([50, -50, 100, 30]) / 1200.), float(rng.randint(0, 127))])
    rng.shuffle(est)
    par = {'onset_tolerance': rng.choice([0.05, 1 / 16., 1 / 32.]), 'pitch_tolerance': rng.choice([50.0, 25.0, 100.0]),
           'offset_ratio': rng.choice([0.2, 0.25, None]), 'offset_min_tolerance': rng.choice([0.05, 1 / 16.]),
           'strict': rng.random() < 0.5}
    return ref, est, par


def search(n=300, seed=0, stop_at_first=False):
    """Run every oracle on n random cases; returns the list of findings (known ones included)."""
    from mir_eval import transcription as T, transcription_velocity as TV
    rng = random.Random(seed)
    out = []
    for _ in range(n):
        ref, est, par = random_case(rng)
        wider = dict(par)
        k = rng.choice(['onset_tolerance', 'pitch_tolerance', 'offset_min_tolerance', 'offset_ratio'])
        if wider[k] is not None:
            wider[k] = wider[k] * rng.choice([1.0, 1.5, 2.0])
        checks = [check_matching(T, name, ref, est, par) for name in MATCHERS]
        checks += [check_range(T, TV, w, ref, est, par) for w in WHICH]
        checks += [check_self(T, TV, w, ref, par) for w in WHICH]
        checks += [check_swap(T, TV, ref, est, par), check_mono(T, TV, ref, est, par, wider),
                   check_shift_perm(T, TV, ref, est, par, rng.choice([1.0, 0.5, 16.0]), rng.randint(0, 10 ** 6)),
                   check_pitch_scale(T, TV, ref, est, par, rng.choice([1, -1, 2]))]
        for f in checks:
            if f is not None:
                out.append(f)
                if stop_at_first:
                    return out
    return out


if __name__ == '__main__':
    import collections
    import json
    import sys
    fs = search(int(sys.argv[1]) if len(sys.argv) > 1 else 300)
    c = collections.Counter((f['function'], f['relation']) for f in fs)
    for k, v in c.items():
        print(v, k)
    seen = set()
    for f in fs:
        k = (f['function'], f['relation'])
        if k not in seen:
            seen.add(k)
            print(json.dumps(f, default=str)[:600])
