"""Property oracles for C12 on mir_eval's API: re-cutting an annotation (any interval cut into consecutive pieces carrying
the same label) changes no interval / frame based labelling score; chord.weighted_accuracy is invariant under a positive
rescaling of the weights, is 1 when every comparable comparison is 1 and 0 when every one is 0.

Used only to search for a concrete failing input once a proof obligation or a correspondence no longer checks, and to
re-confirm witnesses; no verdict of "holds" rests on them.  Every check returns None or a finding dict
{'function','relation','input','observed','why'}.

What is and what is NOT invariant (checked here, proved in Proofs/Split*.v for the first three):
  * chord.evaluate                 : all 15 scores, including underseg / overseg / seg (merge_chord_intervals fuses equal
                                     neighbours) -- chord_evaluate_split_invariant.
  * segment.evaluate               : the frame-clustering scores (pairwise, rand, ARI, MI / AMI / NMI, NCE, V): they read the
                                     annotations only through util.intervals_to_samples -- samples_split_invariant.
                                     NOT the boundary scores of the same dict (Precision/Recall/F-measure@0.5, @3.0 and the two
                                     deviations): a cut adds a boundary.  They are outside C12 and skipped.
  * hierarchy.lmeasure             : unchanged when a segment of any level is cut in two with the same label.  Note that _meet
                                     does NOT sample through util.interpolate_intervals: it turns the interval ends into frame
                                     indices (_round) and writes label-agreement blocks; the union of the two pieces' blocks is
                                     the block of the uncut segment.
  * hierarchy.tmeasure             : ignores labels and is built from the segment boundaries (_lca): a cut generally CHANGES
                                     it.  check_tmeasure_recut reports a change only with expect_invariant=True; by default it
                                     returns None and `tmeasure_changes` counts how often the score moved (documentation).
"""
import math

TOL = 1e-9

CHORD_KEYS = ['thirds', 'thirds_inv', 'triads', 'triads_inv', 'tetrads', 'tetrads_inv', 'root', 'mirex', 'majmin', 'majmin_inv',
              'sevenths', 'sevenths_inv', 'underseg', 'overseg', 'seg']
SEGMENT_FRAME_KEYS = ['Pairwise Precision', 'Pairwise Recall', 'Pairwise F-measure', 'Rand Index', 'Adjusted Rand Index',
                      'Mutual Information', 'Adjusted Mutual Information', 'Normalized Mutual Information',
                      'NCE Over', 'NCE Under', 'NCE F-measure', 'V Precision', 'V Recall', 'V-measure']
SEGMENT_BOUNDARY_KEYS = ['Precision@0.5', 'Recall@0.5', 'F-measure@0.5', 'Precision@3.0', 'Recall@3.0', 'F-measure@3.0',
                         'Ref-to-est deviation', 'Est-to-ref deviation']


def finding(function, relation, inp, observed, why):
    return {'function': function, 'relation': relation, 'input': inp, 'observed': observed, 'why': why}


def _arr(ivs):
    import numpy as np
    return np.array(ivs, dtype=float).reshape(-1, 2)


def _call(f, *args, **kw):
    import warnings
    try:
        with warnings.catch_warnings():
            warnings.simplefilter('ignore')
            return ('ok', f(*args, **kw))
    except Exception as e:  # noqa
        return ('exc', type(e).__name__)


def _same(x, y, tol=TOL):
    x, y = float(x), float(y)
    if math.isnan(x) or math.isnan(y):
        return math.isnan(x) and math.isnan(y)
    if math.isinf(x) or math.isinf(y):
        return x == y
    return abs(x - y) <= tol


# ---------------------------------------------------------------------------------------------------------------
# re-cutting
# ---------------------------------------------------------------------------------------------------------------
def recut(rng, ivs, labels, other=(), den=None, p=0.6):
    """Cut rows of a labelled annotation at interior points: on the lattice 1/den when den is given, else anywhere;
    points of `other` (boundaries of the other annotation) lying strictly inside a row are preferred half of the time."""
    oi, ol = [], []
    for (a, b), lab in zip(ivs, labels):
        cuts = set()
        if b > a and rng.random() < p:
            inside = [x for x in other if a < x < b]
            for _ in range(rng.choice([1, 1, 2, 3])):
                if inside and rng.random() < 0.5:
                    cuts.add(rng.choice(inside))
                elif den is None:
                    c = a + (b - a) * rng.random()
                    if a < c < b:
                        cuts.add(c)
                else:
                    ia, ib = int(round(a * den)), int(round(b * den))
                    if ib - ia >= 2:
                        cuts.add(rng.randrange(ia + 1, ib) / den)
        pts = [a] + sorted(cuts) + [b]
        for u, v in zip(pts[:-1], pts[1:]):
            oi.append([u, v])
            ol.append(lab)
    return oi, ol


def is_recut(ivs, labels, tivs, tlabels):
    """tivs/tlabels is a re-cut of ivs/labels (every row = a run of consecutive pieces with its label)"""
    k = 0
    for (a, b), lab in zip(ivs, labels):
        if k >= len(tivs) or tivs[k][0] != a:
            return False
        while True:
            if tlabels[k] != lab:
                return False
            e = tivs[k][1]
            k += 1
            if e == b:
                break
            if k >= len(tivs) or tivs[k][0] != e or e > b:
                return False
    return k == len(tivs)


# ---------------------------------------------------------------------------------------------------------------
# chord.evaluate
# ---------------------------------------------------------------------------------------------------------------
def _chord_scores(C, ri, rl, ei, el):
    st, v = _call(C.evaluate, _arr(ri), list(rl), _arr(ei), list(el))
    if st != 'ok':
        return ('exc', v)
    return ('ok', [(k, float(v[k])) for k in v])


def check_chord_recut(C, ri, rl, ei, el, tri, trl, tei, tel, tol=TOL):
    """(tri, trl) a re-cut of (ri, rl), (tei, tel) a re-cut of (ei, el): the same 15 scores / the same exception class."""
    inp = {'ref_intervals': ri, 'ref_labels': rl, 'est_intervals': ei, 'est_labels': el,
           'recut_ref_intervals': tri, 'recut_ref_labels': trl, 'recut_est_intervals': tei, 'recut_est_labels': tel}
    a = _chord_scores(C, ri, rl, ei, el)
    b = _chord_scores(C, tri, trl, tei, tel)
    if a[0] != b[0]:
        return finding('chord.evaluate', 're-cutting changes no score', inp, [a, b], 'one call raises, the other does not')
    if a[0] == 'exc':
        if a[1] != b[1]:
            return finding('chord.evaluate', 're-cutting changes no score', inp, [a, b], 'different exception classes')
        return None
    if [k for k, _ in a[1]] != CHORD_KEYS or [k for k, _ in b[1]] != CHORD_KEYS:
        return finding('chord.evaluate', 'returns the 15 documented scores in order', inp, [a, b], 'keys differ')
    for (k, x), (_, y) in zip(a[1], b[1]):
        if not _same(x, y, tol):
            return finding('chord.evaluate', 're-cutting changes no score', inp, {k: [x, y]}, 'score %s differs by %g' % (k, abs(x - y)))
    return None


# ---------------------------------------------------------------------------------------------------------------
# segment.evaluate, frame-clustering scores
# ---------------------------------------------------------------------------------------------------------------
def check_segment_recut(S, ri, rl, ei, el, tri, trl, tei, tel, frame_size=0.1, tol=TOL):
    inp = {'ref_intervals': ri, 'ref_labels': rl, 'est_intervals': ei, 'est_labels': el,
           'recut_ref_intervals': tri, 'recut_ref_labels': trl, 'recut_est_intervals': tei, 'recut_est_labels': tel,
           'frame_size': frame_size}
    a = _call(S.evaluate, _arr(ri), list(rl), _arr(ei), list(el), frame_size=frame_size)
    b = _call(S.evaluate, _arr(tri), list(trl), _arr(tei), list(tel), frame_size=frame_size)
    if a[0] != b[0] or (a[0] == 'exc' and a[1] != b[1]):
        return finding('segment.evaluate', 're-cutting changes no frame-clustering score', inp, [a[0], a[1] if a[0] == 'exc' else None,
                                                                                                 b[0], b[1] if b[0] == 'exc' else None],
                       'one call raises / different exception classes')
    if a[0] == 'exc':
        return None
    for k in SEGMENT_FRAME_KEYS:
        if k not in a[1] or k not in b[1]:
            return finding('segment.evaluate', 'returns the documented frame-clustering scores', inp, sorted(a[1].keys()), 'missing ' + k)
        if not _same(a[1][k], b[1][k], tol):
            return finding('segment.evaluate', 're-cutting changes no frame-clustering score', inp, {k: [float(a[1][k]), float(b[1][k])]},
                           'score %s differs' % k)
    return None


# ---------------------------------------------------------------------------------------------------------------
# hierarchy
# ---------------------------------------------------------------------------------------------------------------
def cut_level(rng, hier, labels, den=None):
    """cut one segment of one level in two with the same label; returns (hier', labels', (level, index, m)) or None"""
    cand = [(lv, i) for lv, level in enumerate(hier) for i, (a, b) in enumerate(level)
            if (den is None and b > a) or (den is not None and int(round(b * den)) - int(round(a * den)) >= 2)]
    if not cand:
        return None
    lv, i = rng.choice(cand)
    a, b = hier[lv][i]
    near = rng.random()
    if near < 0.3:       # a sliver next to one end (a piece shorter than any frame)
        eps = rng.choice([1 / 64.0, 1 / 128.0, 1 / 1024.0]) if den is None else 1.0 / den
        m = b - eps if near < 0.15 else a + eps
        if not a < m < b:
            return None
    elif den is None:
        m = a + (b - a) * (0.05 + 0.9 * rng.random())
        if not a < m < b:
            return None
    else:
        m = rng.randrange(int(round(a * den)) + 1, int(round(b * den))) / den
    h2 = [[list(r) for r in level] for level in hier]
    l2 = [list(level) for level in labels]
    h2[lv][i:i + 1] = [[a, m], [m, b]]
    l2[lv][i:i + 1] = [labels[lv][i], labels[lv][i]]
    return h2, l2, (lv, i, m)


def _harr(hier):
    return [_arr(level) for level in hier]


def check_lmeasure_recut(H, ref, ref_labels, est, est_labels, ref2, ref_labels2, est2, est_labels2, frame_size, beta=1.0, tol=TOL):
    inp = {'ref': ref, 'ref_labels': ref_labels, 'est': est, 'est_labels': est_labels, 'recut_ref': ref2, 'recut_ref_labels': ref_labels2,
           'recut_est': est2, 'recut_est_labels': est_labels2, 'frame_size': frame_size, 'beta': beta}
    a = _call(H.lmeasure, _harr(ref), ref_labels, _harr(est), est_labels, frame_size=frame_size, beta=beta)
    b = _call(H.lmeasure, _harr(ref2), ref_labels2, _harr(est2), est_labels2, frame_size=frame_size, beta=beta)
    if a[0] != b[0] or (a[0] == 'exc' and a[1] != b[1]):
        return finding('hierarchy.lmeasure', 'cutting a segment in two with the same label changes nothing', inp,
                       [a[0], a[1] if a[0] == 'exc' else None, b[0], b[1] if b[0] == 'exc' else None], 'raises differently')
    if a[0] == 'exc':
        return None
    for x, y, name in zip(a[1], b[1], ('precision', 'recall', 'f')):
        if not _same(x, y, tol):
            return finding('hierarchy.lmeasure', 'cutting a segment in two with the same label changes nothing', inp,
                           {name: [float(x), float(y)]}, 'L-%s differs' % name)
    return None


tmeasure_changes = {'compared': 0, 'changed': 0}


def check_tmeasure_recut(H, ref, est, ref2, est2, frame_size, window=15.0, transitive=False, expect_invariant=False, tol=TOL):
    """T-measure is built from boundaries (labels are ignored): a cut is a new boundary, the score may move.  Counted in
    `tmeasure_changes`; a finding only when expect_invariant=True."""
    a = _call(H.tmeasure, _harr(ref), _harr(est), transitive=transitive, window=window, frame_size=frame_size)
    b = _call(H.tmeasure, _harr(ref2), _harr(est2), transitive=transitive, window=window, frame_size=frame_size)
    if a[0] != 'ok' or b[0] != 'ok':
        return None
    tmeasure_changes['compared'] += 1
    moved = any(not _same(x, y, tol) for x, y in zip(a[1], b[1]))
    if moved:
        tmeasure_changes['changed'] += 1
        if expect_invariant:
            return finding('hierarchy.tmeasure', 'cutting a segment changes nothing (NOT claimed by C12)',
                           {'ref': ref, 'est': est, 'recut_ref': ref2, 'recut_est': est2, 'frame_size': frame_size, 'window': window,
                            'transitive': transitive}, [[float(x) for x in a[1]], [float(x) for x in b[1]]], 'T-measure depends on boundaries')
    return None


# ---------------------------------------------------------------------------------------------------------------
# chord.weighted_accuracy
# ---------------------------------------------------------------------------------------------------------------
def check_weighted_accuracy(C, comparisons, weights, k, tol=TOL):
    """comparisons in {1, 0, -1} (float list), weights >= 0, k > 0."""
    import numpy as np
    c = np.array(comparisons, dtype=float)
    w = np.array(weights, dtype=float)
    inp = {'comparisons': list(map(float, comparisons)), 'weights': list(map(float, weights)), 'k': k}
    a = _call(C.weighted_accuracy, c, w)
    b = _call(C.weighted_accuracy, c, w * k)
    if a[0] != b[0] or (a[0] == 'exc' and a[1] != b[1]):
        return finding('chord.weighted_accuracy', 'invariant under rescaling all weights by k > 0', inp, [a, b], 'raises differently')
    if a[0] == 'exc':
        return None
    if not _same(a[1], b[1], tol):
        return finding('chord.weighted_accuracy', 'invariant under rescaling all weights by k > 0', inp, [float(a[1]), float(b[1])], 'differs')
    comparable = [(x, y) for x, y in zip(comparisons, weights) if x >= 0]
    mass = sum(y for _, y in comparable)
    s = float(a[1])
    if mass > 0 and len(comparisons) == len(weights):
        if all(x == 1 for x, _ in comparable) and not _same(s, 1.0, tol):
            return finding('chord.weighted_accuracy', 'is 1 when every comparable comparison is 1', inp, s, 'not 1')
        if all(x == 0 for x, _ in comparable) and not _same(s, 0.0, tol):
            return finding('chord.weighted_accuracy', 'is 0 when every comparable comparison is 0', inp, s, 'not 0')
        if all(x in (0, 1) for x, _ in comparable):
            want = sum(x * y for x, y in comparable) / mass
            if not _same(s, want, tol):
                return finding('chord.weighted_accuracy', 'is the weighted mean over the comparable rows', inp, [s, want], 'differs')
            if not -tol <= s <= 1 + tol:
                return finding('chord.weighted_accuracy', 'lies in [0, 1]', inp, s, 'out of range')
    return None


def check_x_lengthened(C, ri, rl, ei, el, tol=TOL):
    """the time where the reference is out of vocabulary (X) carries no weight: lengthening a final X interval of the reference
    (the estimate padded accordingly by chord.evaluate with N) changes none of the 12 accuracies"""
    if not ri or rl[-1] != 'X':
        return None
    ri2 = [list(r) for r in ri]
    ri2[-1][1] = ri2[-1][1] + 4.0
    a = _chord_scores(C, ri, rl, ei, el)
    b = _chord_scores(C, ri2, rl, ei, el)
    if a[0] != 'ok' or b[0] != 'ok':
        return None
    for (k, x), (_, y) in list(zip(a[1], b[1]))[:12]:
        if not _same(x, y, tol):
            return finding('chord.evaluate', 'time labelled X in the reference carries no weight', {'ref_intervals': ri, 'ref_labels': rl,
                           'est_intervals': ei, 'est_labels': el, 'lengthened_ref_intervals': ri2}, {k: [x, y]}, 'accuracy changed')
    return None


# ---------------------------------------------------------------------------------------------------------------
# generators and search
# ---------------------------------------------------------------------------------------------------------------
CHORDS = ['C', 'C:maj', 'C:maj/1', 'B#:maj', 'A:min', 'A:min/1', 'G:7', 'G:maj(b7)', 'C:9', 'C:7(9)', 'N', 'X', 'F#:maj7', 'Gb:maj7',
          'C:maj/3', 'C/3', 'D:sus4', 'C:min', 'G', 'E:min11', 'C:5', 'C:1']
SEG_LABELS = ['a', 'A', 'b', 'B', 'c', 'verse', 'Verse', 'chorus']


def random_annotation(rng, lo, hi, den, vocab, gaps=False, other=()):
    """time-ordered annotation with boundaries on the lattice 1/den between lo and hi (lattice integers)"""
    k = rng.choice([0, 1, 1, 2, 3, 4, 6])
    inner = set()
    for _ in range(k):
        c = rng.choice(list(other)) if other and rng.random() < 0.4 else rng.randrange(lo, hi + 1)
        if lo < c < hi:
            inner.add(c)
    b = [lo] + sorted(inner) + [hi]
    ivs = [[b[i], b[i + 1]] for i in range(len(b) - 1)]
    if gaps:
        for r in ivs[:-1]:
            if rng.random() < 0.4 and r[1] - r[0] >= 2:
                r[1] = rng.randrange(r[0] + 1, r[1])
    labels = []
    for i in range(len(ivs)):
        labels.append(labels[-1] if labels and rng.random() < 0.3 else rng.choice(vocab))
    return [[u / den, v / den] for u, v in ivs], labels


def search(C, S, H, rng, budget=200):
    """Run every oracle on `budget` random structured inputs; returns the findings (one per function/relation, smallest input)."""
    import json
    best = {}
    cases = {'chord': 0, 'segment': 0, 'lmeasure': 0, 'tmeasure': 0, 'weighted_accuracy': 0}

    def note(f):
        if f is None:
            return
        key = (f['function'], f['relation'])
        size = len(json.dumps(f['input'], default=str))
        if key not in best or size < best[key][0]:
            best[key] = (size, f)

    for _ in range(budget):
        den = rng.choice([4, 8, 16, 64])
        lattice = den if rng.random() < 0.7 else None          # cuts on the lattice or anywhere
        # --- chord
        lo = rng.randrange(0, 3 * den)
        hi = lo + rng.randrange(1, 8 * den)
        ri, rl = random_annotation(rng, lo, hi, den, CHORDS, gaps=rng.random() < 0.25)
        rb = [int(round(x * den)) for r in ri for x in r]
        elo = max(0, lo + rng.choice([0, 0, 0, -den, den, 2 * den]))
        ehi = max(elo + 1, hi + rng.choice([0, 0, 0, -den, den, 2 * den]))
        ei, el = random_annotation(rng, elo, ehi, den, CHORDS, gaps=rng.random() < 0.25, other=rb)
        if rng.random() < 0.5:
            for k, (a, b) in enumerate(ei):
                hit = [l for (s, e), l in zip(ri, rl) if s <= (a + b) / 2 < e]
                if hit and rng.random() < 0.7:
                    el[k] = hit[0]
        tri, trl = recut(rng, ri, rl, [x for r in ei for x in r], lattice)
        tei, tel = recut(rng, ei, el, [x for r in ri for x in r], lattice)
        note(check_chord_recut(C, ri, rl, ei, el, tri, trl, tei, tel))
        note(check_x_lengthened(C, ri, rl, ei, el))
        cases['chord'] += 1
        # --- segment: contiguous segmentations from 0
        hi = rng.randrange(2 * den, 12 * den)
        sri, srl = random_annotation(rng, 0, hi, den, SEG_LABELS)
        sei, sel = random_annotation(rng, 0, hi + rng.choice([0, 0, den, -den // 2]), den, SEG_LABELS, other=[int(round(x * den)) for r in sri for x in r])
        stri, strl = recut(rng, sri, srl, [x for r in sei for x in r], lattice)
        stei, stel = recut(rng, sei, sel, [x for r in sri for x in r], lattice)
        note(check_segment_recut(S, sri, srl, sei, sel, stri, strl, stei, stel, frame_size=rng.choice([0.1, 0.25, 0.5, 1 / den])))
        cases['segment'] += 1
        # --- hierarchy
        fs = rng.choice([0.25, 0.5, 1.0, 0.1])
        n_levels = rng.randint(1, 3)
        top = rng.randrange(4 * den, 16 * den)
        ref = [random_annotation(rng, 0, top, den, SEG_LABELS) for _ in range(n_levels)]
        est = [random_annotation(rng, 0, top, den, SEG_LABELS) for _ in range(rng.randint(1, 3))]
        rh, rlab = [x[0] for x in ref], [x[1] for x in ref]
        eh, elab = [x[0] for x in est], [x[1] for x in est]
        c1 = cut_level(rng, rh, rlab, lattice)
        c2 = cut_level(rng, eh, elab, lattice)
        if c1 and c2:
            which = rng.choice(['ref', 'est', 'both'])
            rh2, rlab2 = (c1[0], c1[1]) if which in ('ref', 'both') else (rh, rlab)
            eh2, elab2 = (c2[0], c2[1]) if which in ('est', 'both') else (eh, elab)
            note(check_lmeasure_recut(H, rh, rlab, eh, elab, rh2, rlab2, eh2, elab2, fs, rng.choice([1.0, 0.5, 2.0])))
            cases['lmeasure'] += 1
            note(check_tmeasure_recut(H, rh, eh, rh2, eh2, fs, window=rng.choice([15.0, 2.0, fs]), transitive=rng.random() < 0.5))
            cases['tmeasure'] += 1
        # --- weighted accuracy
        n = rng.choice([0, 1, 2, 3, 5, 8])
        kind = rng.random()
        if kind < 0.25:
            comps = [rng.choice([1.0, -1.0]) for _ in range(n)]
        elif kind < 0.5:
            comps = [rng.choice([0.0, -1.0]) for _ in range(n)]
        else:
            comps = [rng.choice([1.0, 0.0, -1.0]) for _ in range(n)]
        weights = [rng.choice([0.0, 1.0, rng.randint(1, 640) / 64.0]) for _ in range(n)]
        note(check_weighted_accuracy(C, comps, weights, rng.choice([2.0, 0.5, 4.0, 0.125, 3.0, 1e-3, 1e3, 1e-9, 1e-12, 2.0 ** -40, 1e9])))
        cases['weighted_accuracy'] += 1
    search.cases = cases
    return [f for _, f in sorted(best.values(), key=lambda x: x[0])]


if __name__ == '__main__':
    import random
    import sys
    import mir_eval.chord as C
    import mir_eval.segment as S
    import mir_eval.hierarchy as H
    out = search(C, S, H, random.Random(int(sys.argv[1]) if len(sys.argv) > 1 else 0), int(sys.argv[2]) if len(sys.argv) > 2 else 200)
    print('cases', search.cases, 'tmeasure', tmeasure_changes)
    for f in out:
        print(f)
