"""Property oracles on the implementation for mir_eval.beat: trim_beats, _get_reference_beat_variations, cemgil, goto,
p_score, continuity (beat.f_measure is covered with the other hit-based metrics).  They state the properties proved
in coq/Proofs/BeatProps.v and BeatPScore.v directly on mir_eval's API and are used only to search for a concrete
failing input once a proof obligation or a correspondence no longer checks; no verdict of "holds" rests on them.
Every check returns None or a finding dict {'function','relation','input','observed','why'} (or a list of them).

Known, proved counterexamples (they are reported by `search` with 'known' in 'why'):
  * cemgil > 1 when several reference beats share their nearest estimate (cemgil([5,5,5,5],[5]) = (1.6, 1.75)), and
    best-metric-level cemgil > 1 for a perfect estimate with beats closer than a few sigma;
  * p_score > 1 without the separation condition, and also under the separation condition read in seconds (strictly
    more than 2*win*10 ms between consecutive beats) because of the ceil quantisation; the condition that is proved
    is on the quantised trains (occupied estimate bins more than 2*win bins apart) or, in seconds, >= (2*win+1)*10 ms."""
import json
import math
import random
import warnings

TOL = 1e-9


def finding(function, relation, inp, observed, why):
    return {'function': function, 'relation': relation, 'input': inp, 'observed': observed, 'why': why}


def arr(l):
    import numpy as np
    return np.array(l, dtype=float)


def call(fn, *a, **kw):
    try:
        with warnings.catch_warnings():
            warnings.simplefilter('ignore')
            v = fn(*a, **kw)
        if isinstance(v, tuple):
            return ('ok', tuple(float(x) for x in v))
        return ('ok', float(v))
    except Exception as e:  # noqa
        return ('exc', type(e).__name__)


def valid(l):
    return all(x <= 30000.0 for x in l) and all(l[i] <= l[i + 1] for i in range(len(l) - 1))


def strictly_increasing(l):
    return all(l[i] < l[i + 1] for i in range(len(l) - 1))


# ------------------------------------------------------------------------------------------------------------------
# helpers restating the definitions
# ------------------------------------------------------------------------------------------------------------------
def round_half_even(x):
    f = math.floor(x)
    d = x - f
    if d < 0.5:
        return f
    if d > 0.5:
        return f + 1
    return f if f % 2 == 0 else f + 1


def pscore_parts(ref, est, thr):
    """(ref bins, est bins, win) as the documentation describes them; None when the window is undefined."""
    off = min(min(ref), min(est))
    rb = sorted(set(int(math.ceil((t - off) * 100)) for t in ref))
    eb = sorted(set(int(math.ceil((t - off) * 100)) for t in est))
    d = sorted(b - a for a, b in zip(rb, rb[1:]))
    if not d:
        return None
    n = len(d)
    med = d[n // 2] if n % 2 else (d[n // 2 - 1] + d[n // 2]) / 2.0
    return rb, eb, int(round_half_even(thr * med))


def nearest_idx(x, est):
    best, bi = None, 0
    for i, e in enumerate(est):
        if best is None or abs(x - e) < best:
            best, bi = abs(x - e), i
    return bi


def variations(ref):
    dbl = []
    for i, r in enumerate(ref):
        dbl.append(r)
        if i + 1 < len(ref):
            dbl.append((ref[i + 1] - r) * 0.5 + r)
    return [list(ref), dbl[1::2], dbl, list(ref[::2]), list(ref[1::2])]


# ------------------------------------------------------------------------------------------------------------------
# checks
# ------------------------------------------------------------------------------------------------------------------
def check_trim(B, beats, m):
    out = [float(x) for x in B.trim_beats(arr(beats), m)]
    want = [x for x in beats if x >= m]
    if out != want:
        return finding('beat.trim_beats', 'keeps exactly the beats >= min_beat_time, in order', [beats, m], out, 'expected %r' % want)
    return None


def check_variations(B, ref, s):
    """Definition of the five variations and commutation with a shift."""
    got = [[float(x) for x in a] for a in B._get_reference_beat_variations(arr(ref))]
    out = []
    if got != variations(ref):
        out.append(finding('beat._get_reference_beat_variations', 'original, off-beat, double, half-odd, half-even', ref, got, 'definition'))
    sh = [[float(x) for x in a] for a in B._get_reference_beat_variations(arr([r + s for r in ref]))]
    want = [[x + s for x in a] for a in got]
    if len(sh) != len(want) or any(len(a) != len(b) or any(abs(x - y) > TOL for x, y in zip(a, b)) for a, b in zip(sh, want)):
        out.append(finding('beat._get_reference_beat_variations', 'commutes with a time shift', [ref, s], sh, 'expected %r' % want))
    return out


def check_goto(B, ref, est, thr=0.35, mu=0.2, sigma=0.2):
    r = call(B.goto, arr(ref), arr(est), goto_threshold=thr, goto_mu=mu, goto_sigma=sigma)
    if r[0] == 'exc':
        if valid(ref) and valid(est) and 0 <= thr < 1:
            return finding('beat.goto', 'valid input does not raise', [ref, est, thr, mu, sigma], r, 'raised')
        return None
    if r[1] not in (0.0, 1.0):
        return finding('beat.goto', 'binary score', [ref, est, thr, mu, sigma], r[1], 'not 0 or 1')
    return None


def check_continuity(B, ref, est, ph=0.175, pe=0.175):
    r = call(B.continuity, arr(ref), arr(est), continuity_phase_threshold=ph, continuity_period_threshold=pe)
    if r[0] == 'exc':
        if valid(ref) and valid(est):
            return finding('beat.continuity', 'valid input does not raise', [ref, est, ph, pe], r, 'raised')
        return None
    a, b, c, d = r[1]
    out = []
    if not all(math.isfinite(x) and -TOL <= x <= 1 + TOL for x in (a, b, c, d)):
        out.append(finding('beat.continuity', 'each score in [0, 1]', [ref, est, ph, pe], r[1], 'out of range'))
    if a > c + TOL or b > d + TOL:
        out.append(finding('beat.continuity', 'CML <= AML (continuous and total)', [ref, est, ph, pe], r[1], 'order'))
    if a > b + TOL or c > d + TOL:
        out.append(finding('beat.continuity', 'continuous <= total', [ref, est, ph, pe], r[1], 'order'))
    return out


def check_pscore(B, ref, est, thr=0.2):
    r = call(B.p_score, arr(ref), arr(est), p_score_threshold=thr)
    if r[0] == 'exc' or len(ref) < 2 or len(est) < 2:
        return None
    out = []
    v = r[1]
    parts = pscore_parts(ref, est, thr)
    if parts is None:
        return None
    rb, eb, win = parts
    if v < -TOL:
        out.append(finding('beat.p_score', 'score >= 0', [ref, est, thr], v, 'negative'))
    # definition (windows that fit into the train): pairs of occupied bins at distance <= win, over max(|ref|, |est|)
    end = int(math.ceil(max(max(ref), max(est)) - min(min(ref), min(est)))) * 100
    if 0 <= win <= end:
        want = sum(1 for i in rb for j in eb if abs(i - j) <= win) / float(max(len(ref), len(est)))
        if abs(want - v) > TOL:
            out.append(finding('beat.p_score', 'pair count of the quantised trains within the window / max(|ref|,|est|)', [ref, est, thr], v,
                               'expected %r' % want))
    bins_sep = all(b - a > 2 * win for a, b in zip(eb, eb[1:]))
    if bins_sep and v > 1 + TOL:
        out.append(finding('beat.p_score', 'in [0,1] when occupied estimate bins are more than 2*win bins apart', [ref, est, thr], v, 'VIOLATION'))
    sec_sep = all(b - a > 2 * win * 0.01 for l in (ref, est) for a, b in zip(l, l[1:]))
    if sec_sep and not bins_sep and v > 1 + TOL:
        out.append(finding('beat.p_score', 'in [0,1] when beats are strictly more than 2*win*10ms apart (literal reading, in seconds)',
                           [ref, est, thr], v, 'known: ceil quantisation puts two beats exactly 2*win bins apart (pscore_range_if_separated_refuted)'))
    return out


def check_cemgil(B, ref, est, sigma=0.04):
    r = call(B.cemgil, arr(ref), arr(est), cemgil_sigma=sigma)
    if r[0] == 'exc':
        if valid(ref) and valid(est):
            return finding('beat.cemgil', 'valid input does not raise', [ref, est, sigma], r, 'raised')
        return None
    a, m = r[1]
    out = []
    if not ref or not est:
        if (a, m) != (0.0, 0.0):
            out.append(finding('beat.cemgil', 'empty side gives (0, 0)', [ref, est], r[1], ''))
        return out
    accs = []
    for v in variations(ref):
        s = sum(math.exp(-(min(abs(b - e) for e in est) ** 2) / (2.0 * sigma ** 2)) for b in v)
        accs.append(s / (0.5 * (len(est) + len(v))))
    if abs(accs[0] - a) > TOL or abs(max(accs) - m) > TOL:
        out.append(finding('beat.cemgil', 'sum of Gaussians of nearest-estimate distances / ((|est|+|var|)/2); max over variations',
                           [ref, est, sigma], r[1], 'expected %r' % [accs[0], max(accs)]))
    if a > m + TOL:
        out.append(finding('beat.cemgil', 'Cemgil <= Cemgil best metric level', [ref, est, sigma], r[1], 'order'))
    if a < -TOL or a > 2.0 * len(ref) / (len(ref) + len(est)) + TOL:
        out.append(finding('beat.cemgil', '0 <= score <= 2|ref|/(|ref|+|est|)', [ref, est, sigma], r[1], 'VIOLATION'))
    inj = len(set(nearest_idx(b, est) for b in ref)) == len(ref)
    if a > 1 + TOL:
        out.append(finding('beat.cemgil', 'score in [0, 1]', [ref, est, sigma], a,
                           'VIOLATION (nearest estimates are distinct)' if inj else
                           'known: two reference beats share their nearest estimated beat (cemgil_gt_1_refuted)'))
    if m > 1 + TOL:
        injall = all(len(set(nearest_idx(b, est) for b in v)) == len(v) for v in variations(ref))
        out.append(finding('beat.cemgil', 'best-metric-level score in [0, 1]', [ref, est, sigma], m,
                           'VIOLATION (nearest estimates are distinct in every variation)' if injall else
                           'known: in some metrical variation two beats share their nearest estimated beat'))
    return out


def check_self(B, ref):
    """A perfect estimate."""
    if not valid(ref) or not strictly_increasing(ref):
        return []
    out = []
    x = arr(ref)
    if len(ref) >= 5:
        g = call(B.goto, x, x)
        if g != ('ok', 1.0):
            out.append(finding('beat.goto', 'perfect estimate of >= 5 strictly increasing beats scores 1', ref, g, ''))
    if len(ref) >= 2:
        c = call(B.continuity, x, x)
        if c[0] != 'ok' or any(abs(v - 1) > TOL for v in c[1]):
            out.append(finding('beat.continuity', 'perfect estimate of >= 2 strictly increasing beats scores (1,1,1,1)', ref, c, ''))
        parts = pscore_parts(ref, ref, 0.2)
        if parts is not None:
            rb, _, win = parts
            off = min(ref)
            bins = [int(math.ceil((t - off) * 100)) for t in ref]
            if win >= 0 and all(b - a > win for a, b in zip(bins, bins[1:])):
                p = call(B.p_score, x, x)
                if p[0] != 'ok' or abs(p[1] - 1) > TOL:
                    out.append(finding('beat.p_score', 'perfect estimate scores 1 when the beats fall into bins more than win apart', ref, p, ''))
    if len(ref) >= 1:
        m = call(B.cemgil, x, x)
        if m[0] != 'ok' or abs(m[1][0] - 1) > TOL or m[1][1] < 1 - TOL:
            out.append(finding('beat.cemgil', 'perfect estimate: score 1, best metric level >= 1', ref, m, ''))
        elif m[1][1] > 1 + TOL:
            out.append(finding('beat.cemgil', 'perfect estimate: best-metric-level score is 1', ref, m[1],
                               'known: the double-tempo variation has 2n-1 beats but the normaliser is (n + 2n-1)/2'))
    return out


def check_infogain(B, ref, est, bins=41):
    r = call(B.information_gain, arr(ref), arr(est), bins=bins)
    if r[0] == 'exc':
        if valid(ref) and valid(est):
            return finding('beat.information_gain', 'valid input does not raise', [ref, est, bins], r, 'raised')
        return None
    v = r[1]
    if math.isnan(v):
        dup = not (strictly_increasing(ref) and strictly_increasing(est))
        if bins >= 2 and not dup:
            return finding('beat.information_gain', 'finite for strictly increasing sequences', [ref, est, bins], v, 'nan')
        if bins >= 2 and valid(ref) and valid(est):
            # duplicated beat times are valid input (validate only rejects decreasing times): known finding C01-infogain-duplicate-beats-nan
            return finding('beat.information_gain', 'score in [0, 1] and finite (duplicated beat times)', [ref, est, bins], 'nan', 'nan')
        return None
    if not (-TOL <= v <= 1 + TOL):
        return finding('beat.information_gain', 'score in [0, 1]', [ref, est, bins], v, 'out of range')
    if ref == est and len(ref) >= 2 and strictly_increasing(ref) and bins >= 2 and abs(v - 1) > TOL:
        return finding('beat.information_gain', 'perfect estimate scores 1', [ref, bins], v, '')
    return None


def _entropy_intended(ref, est, bins):
    """The beat-error entropy per its published definition (ig_error_def in Proofs/BeatInfoGain.v): the error of a beat
    is relative to the inter-annotation interval on its side of the closest annotation; first / last interval at the
    ends.  (Before the fix of _get_entropy the code's `if closest_beat == 0` was not chained with `elif`, so a beat
    before the first annotation was normalised by 0.5*(reference_beats[0] - reference_beats[-1]).)"""
    import numpy as np
    err = []
    n = len(ref)
    for x in est:
        d = [x - r for r in ref]
        k = min(range(n), key=lambda i: (abs(d[i]), i))
        a = d[k]
        if k == 0:
            iv = 0.5 * (ref[1] - ref[0])
        elif k == n - 1:
            iv = 0.5 * (ref[-1] - ref[-2])
        elif a < 0:
            iv = 0.5 * (ref[k] - ref[k - 1])
        else:
            iv = 0.5 * (ref[k + 1] - ref[k])
        err.append(0.5 * a / iv)
    e = np.mod(np.array(err) + 0.5, -1) + 0.5
    h = np.histogram(e, np.linspace(-0.5, 0.5, bins + 1))[0].astype(float)
    h = h / h.sum()
    h[h == 0] = 1
    return -np.sum(h * np.log2(h))


def check_infogain_definition(B, ref, est, bins=41):
    if len(ref) < 2 or len(est) < 2 or not (strictly_increasing(ref) and strictly_increasing(est)) or not (valid(ref) and valid(est)) or bins < 2:
        return None
    r = call(B.information_gain, arr(ref), arr(est), bins=bins)
    if r[0] != 'ok' or math.isnan(r[1]):
        return None
    f, b = _entropy_intended(ref, est, bins), _entropy_intended(est, ref, bins)
    norm = math.log2(bins)
    want = (norm - max(f, b)) / norm
    if abs(want - r[1]) > 1e-6:
        return finding('beat.information_gain', 'beat error normalised by the neighbouring inter-annotation interval (first annotation: first interval)',
                       [ref, est, bins], r[1], 'VIOLATION: value by the definition %r' % float(want))
    return None


def check_shift(B, ref, est, s):
    """Adding s to all reference and estimated beats (both inputs valid before and after). Use lattice values."""
    r2, e2 = [x + s for x in ref], [x + s for x in est]
    if not (valid(ref) and valid(est) and valid(r2) and valid(e2)):
        return []
    out = []
    span_ok = bool(ref) and bool(est) and max(ref + est) - min(ref + est) <= 60.0
    for name, fn in (('goto', B.goto), ('continuity', B.continuity), ('cemgil', B.cemgil), ('information_gain', B.information_gain)) + (
            (('p_score', B.p_score),) if span_ok else ()):
        a, b = call(fn, arr(ref), arr(est)), call(fn, arr(r2), arr(e2))
        if a[0] == b[0] == 'ok' and not isinstance(a[1], tuple) and math.isnan(a[1]) and math.isnan(b[1]):
            continue
        same = a[0] == b[0] and (a[0] == 'exc' and a[1] == b[1] or a[0] == 'ok' and (
            all(abs(x - y) <= TOL for x, y in zip(a[1], b[1])) if isinstance(a[1], tuple) else abs(a[1] - b[1]) <= TOL))
        if not same:
            out.append(finding('beat.' + name, 'invariant under adding the same offset to all beats', [ref, est, s], [a, b], 'differs'))
    return out


# ------------------------------------------------------------------------------------------------------------------
# search
# ------------------------------------------------------------------------------------------------------------------
def random_pair(rng):
    n = rng.choice([1, 2, 3, 5, 6, 8, 12, 20])
    p = rng.choice([16, 24, 32, 40, 64, 77])
    base = rng.choice([0, 320, 64 * 100 + 7, -64])
    ks = [base]
    for _ in range(n - 1):
        ks.append(ks[-1] + max(0 if rng.random() < 0.05 else 1, p + rng.randint(-3, 3)) if rng.random() < 0.9 else ks[-1] + rng.randint(0, 6))
    ref = [k / 64.0 for k in ks]
    style = rng.choice(['jitter', 'self', 'double', 'half', 'holes', 'random', 'close'])
    if style == 'self':
        est = list(ref)
    elif style == 'double':
        est = sorted(ref + [(a + b) / 2 for a, b in zip(ref, ref[1:])])
    elif style == 'half':
        est = ref[rng.randint(0, 1)::2]
    elif style == 'random':
        est = sorted(rng.randint(ks[0] - 20, ks[-1] + 20) / 64.0 for _ in range(rng.choice([0, 1, 2, 5, 9])))
    elif style == 'close':
        est = sorted(ref + [r + rng.choice([1, 2, 3]) / 64.0 for r in ref if rng.random() < 0.5])
    else:
        est = sorted(r + rng.randint(-6, 6) / 64.0 for r in ref if style == 'jitter' or rng.random() < 0.7)
    return ref, est


def search(B, rng, budget=300):
    best, ncases = {}, [0]

    def note(fs):
        ncases[0] += 1
        if fs is None:
            return
        for f in (fs if isinstance(fs, list) else [fs]):
            key = (f['function'], f['relation'], f['why'][:5])
            size = len(json.dumps(f['input']))
            if key not in best or size < best[key][0]:
                best[key] = (size, f)

    note(check_cemgil(B, [5.0, 5.0, 5.0, 5.0], [5.0]))
    note(check_pscore(B, [0.0, 0.05, 1.0, 1.05, 2.0], [0.0, 0.05, 1.0, 1.05, 2.0]))
    note(check_pscore(B, [x / 1024.0 for x in [1127, 1332, 2151, 2356, 3175]],
                      [x / 1024.0 for x in [0, 1025, 1230, 1435, 2049, 2254, 2459, 3073, 3278]]))
    note(check_infogain_definition(B, [5.0, 6.0, 7.0, 8.0], [4.75, 6.0, 7.0, 8.0]))
    for _ in range(budget):
        ref, est = random_pair(rng)
        note(check_trim(B, ref, rng.choice([5.0, 0.0, ref[len(ref) // 2]])))
        note(check_variations(B, ref, rng.choice([1.0, 0.25, 100.0, -3.5])))
        note(check_goto(B, ref, est))
        note(check_goto(B, ref, est, rng.choice([0.25, 0.5]), rng.choice([0.1, 0.3]), rng.choice([0.1, 0.3])))
        note(check_continuity(B, ref, est))
        note(check_continuity(B, ref, est, rng.choice([0.1, 0.25, 1.5]), rng.choice([0.1, 0.25])))
        if ref and est and max(ref + est) - min(ref + est) <= 60:
            note(check_pscore(B, ref, est, rng.choice([0.2, 0.2, 0.1, 0.25, 0.5])))
        note(check_cemgil(B, ref, est, rng.choice([0.04, 0.04, 0.1])))
        note(check_self(B, ref))
        note(check_infogain(B, ref, est, rng.choice([41, 41, 8, 2, 5])))
        note(check_infogain(B, ref, ref, 41))
        note(check_infogain_definition(B, ref, est, 41))
        note(check_shift(B, ref, est, rng.choice([1.0, 0.25, 64.0, -2.5, 1000.0])))
    search.cases = ncases[0]
    return [f for _, f in sorted(best.values(), key=lambda x: x[0])]


if __name__ == '__main__':
    import mir_eval.beat as B
    for f in search(B, random.Random(0)):
        print(json.dumps(f))
    print(json.dumps({'cases': search.cases}))
