"""Adapters over the per-module property oracles: uniform sweeps (rng, n) -> [finding], classification of a finding's
relation text into the properties it speaks about, and matching against the committed known findings."""
import json
import os
import random
import warnings

HERE = os.path.dirname(os.path.dirname(os.path.dirname(os.path.abspath(__file__))))

# property -> lower-case substrings of a finding's relation (+ why) text that attribute the finding to the property.
# A key must be specific: a substring that also occurs in texts about another property mis-attributes findings (history: 'repeat'
# sent "perfect estimate" findings to C15; 'case' sent key-transposition findings to C16; 'negat' sent "non-negative" to C09;
# 'split' sent the chord join/split round trip to C12; 'within the window' sent the P-score definition to C05).
# Audit after every change: tools_probe_selftest.py --audit (classification of every relation literal of harness/oracles/*.py)
# and --sweeps (every sweep on the unchanged tree: no classified finding may be non-known).
KEYS = {
    'C01': ['in [0, 1]', '<= 1', '>= 0', 'finite', 'non-negative', 'nan exactly', 'binary', 'exactly 0 or 1', 'score in', 'bounded',
            '2|ref|/(|ref|+|est|)', 'in [0,1] when', 'are bools'],
    'C02': ['perfect estimate', 'est = ref', 'identical partitions', 'copy of itself', 'self-score', 'against itself',
            'scores 1 with itself', 'compared with itself scores'],
    'C03': ['documented set of metric names', 'values are real scalars', 'equals the documented metric call'],
    'C04': ['textbook formula', 'equals np.where', 'definition', 'f = util.f_measure', 'harmonic mean', 'documented table', 'published',
            'brute-force', 'brute force', 'triple', 'beat error normalised', 'keeps exactly the beats', 'original, off-beat, double',
            'sum of gaussians', 'pair count of the quantised trains', 'of the first n estimates', 'median / mean absolute deviation',
            'documented relationship table', 'empty side scores 0', 'empty side gives'],
    'C05': ['maximum', 'one-to-one', 'at most once', 'pair is within the window', 'satisfies the note predicate', 'reordering of the items', 'kuhn',
            'sorted by reference', 'matching is sorted', 'every pair is feasible'],
    'C06': ['swapping', 'exchang', 'symmetric in (ref, est)', 'tp(ref, est) == tp(est, ref)', 'ref-to-est of', 'swap of reference and estimate'],
    'C07': ['larger window never', 'widening', 'strict=true matches', 'with offsets <=', 'subset of the plain', 'raw pitch accuracy <=',
            'chroma tp >= raw', 'never lowers', 'implies one', 'non-decreasing in', 'cml <= aml', 'continuous <= total',
            'cemgil <= cemgil best', 'monotone in tol', 'monotone in window'],
    'C08': ['offset to all times', 'time shift', 'reordering', 'renamed', 'renaming', 'relabel', 'permut', 'label names',
            'same offset to all beats', 'common onset offset', 'shifting all timestamps', 'symmetric in the two estimated tempi'],
    'C09': ['octave', 'scaling all pitches', 'same amount to all midi', 'transpos', 'enharmonic', 'spell', 'sign flip', 'negating',
            'joint cent shift', 'letter + sharps', 'letter + accidentals'],
    'C10': ['harte syntax', 'quality shorthands as documented', 'strict_bass_intervals', 'sound encoding', 'join(split(label))',
            'raises only invalidchordexception'],
    'C11': ['= 1 implies', 'x is always ignored', 'never gives 0', 'never a mirex mismatch', 'returns 1, 0 or -1', 'depends on the reference alone',
            'documented vocabulary of', 'list call equals per-pair calls'],
    'C12': ['re-cut', 'recut', 'splitting', 'rescal', 'scale invariance', 'every comparable', 'scaling all weights', 'weight of an ignored row',
            'weighted mean over', 'carries no weight', 'cutting a segment in two with the same label'],
    'C13': ['first output start', 'last output end', 'output is time-ordered', 'strictly positive durations', 'one label per', 'output is non-empty',
            'nothing outside [t_min', 'keeps its label', 'sorted union of both boundary sets', 'total duration is conserved',
            'label of the (closed) interval', 'label of the interval containing', 'label the annotation had over', 'consecutive pairs', 'roundtrip',
            'label_at', 'half-open intervals', 'boundaries of a contiguous segmentation', 'labels are returned iff', 'sample times =',
            't_min >= t_max raises', 'empty input without both bounds', 'valueerror iff', 'sample times are non-decreasing',
            'non-decreasing grid is accepted', 'unique ascending boundaries', 'repaired input gives the recorded output'],
    'C14': ['does not raise', 'do not raise', 'raises only', 'without an exception', 'raises no exception', 'preserve validity', 'rejected',
            'returns a score', 'returns scores on valid input', 'only valueerror escapes', 'valid arrays are accepted', 'no exception for a non-empty'],
    'C15': ['does not modify', 'is not modified', 'repeatab', 'bit-identical', 'uninitial', 'does not depend on earlier calls'],
    'C16': ['textbook formula', 'vmeasure == nce', 'harmonic mean', 'mi >= 0', 'case of the labels'],
    'C17': ['triple', 'brute-force', 'brute force'],
    'C18': ['e_tot', 'accuracy <= min', 'tp <= min', 'nearest source time', 'chroma tp >= raw', 'one output frame',
            'same number of frames after resampling', 'returns 14 scores'],
    'C19': ['components add up to the estimate', 'proj(', 'is multiplied by', 'perm is a permutation', 'perm undoes', 'perm maximises', 'perm follows',
            'sdr > 200', 'silent window', 'non-framewise result', 'empty arrays', 'singular gram', 'shape (nsrc', 'fewer than 2 windows',
            'reordering of the estimates'],
    'C20': ['path and file object', 'well-formed file loads', 'round trip', 'wrong number of columns', 'malformed row raises', 'names the faulty row',
            'violating content', 'pattern file loads', 'malformed data row', 'without exactly two columns'],
}


def classify(f):
    rel = (str(f.get('relation', '')) + ' ' + str(f.get('why', ''))).lower()
    return {p for p, ks in KEYS.items() if any(k in rel for k in ks)}


def known():
    p = os.path.join(HERE, 'known_findings.json')
    if not os.path.exists(p):
        return []
    return [k for k in json.load(open(p)).get('findings', []) if k.get('status') == 'finding']


def is_known(f):
    """A finding is listed only if an entry's match pattern fits function AND relation (and the optional input predicate)."""
    fn = str(f.get('function', ''))
    rel = str(f.get('relation', ''))
    for k in known():
        m = k.get('match')
        if not m:
            continue
        if all(s in fn for s in m.get('function', [])) and all(s.lower() in rel.lower() for s in m.get('relation', [])) \
                and all(s.lower() in str(f.get('why', '')).lower() for s in m.get('why', [])) \
                and ('observed_abs_below' not in m or (isinstance(f.get('observed'), (int, float)) and abs(f['observed']) < m['observed_abs_below'])) \
                and all(s in json.dumps(f.get('input'), default=str) for s in m.get('input_contains', [])) \
                and all(s.lower() in json.dumps(f.get('observed'), default=str).lower() for s in m.get('observed_contains', [])):
            return k
    return None


def _quiet(fn):
    def run(rng, n):
        with warnings.catch_warnings():
            warnings.simplefilter('ignore')
            try:
                return list(fn(rng, n) or [])
            except Exception as e:  # noqa: an oracle crash is reported as a finding about the oracle, never swallowed
                import traceback
                return [{'function': 'oracle:' + fn.__name__, 'relation': 'the oracle itself runs', 'input': None,
                         'observed': type(e).__name__ + ': ' + str(e)[:200], 'why': traceback.format_exc()[-600:]}]
    run.__name__ = fn.__name__
    return run


@_quiet
def sw_events(rng, n):
    import mir_eval
    from harness.oracles import events as O
    f = O.search(mir_eval, rng, max(3, n // 6))
    return [f] if f else []


@_quiet
def sw_transcription(rng, n):
    from harness.oracles import transcription as O
    return O.search(max(3, n // 8), seed=rng.randrange(1 << 30))


@_quiet
def sw_melody(rng, n):
    from mir_eval import melody as M
    from harness.oracles import melody as O
    return O.search(M, seed=rng.randrange(1 << 30), n=max(3, n // 8))


@_quiet
def sw_multipitch(rng, n):
    from harness.oracles import multipitch as O
    return O.search(rng, max(3, n // 8), include_known=False)


@_quiet
def sw_hierarchy(rng, n):
    from mir_eval import hierarchy as H
    from harness.oracles import hierarchy as O
    return O.search(H, rng, budget=max(2, n // 20))


@_quiet
def sw_segment(rng, n):
    from mir_eval import segment as S
    from harness import gen_inputs as G
    from harness.oracles import segment_cluster as O
    out = []
    for _ in range(max(4, n // 5)):
        end = rng.choice([2.0, 4.0, 6.0])

        def ann():
            k = int(end / 0.5)
            cuts = sorted(set(rng.sample(range(1, k), min(rng.choice([0, 1, 2, 4]), k - 1))))
            b = [0.0] + [c * 0.5 for c in cuts] + [end]
            return b, [rng.choice(G.SEGLABELS) for _ in range(len(b) - 1)]
        rb, rl = ann()
        eb, el = (rb, list(rl)) if rng.random() < 0.2 else ann()
        f = O.check_annotations(S, rb, rl, eb, el, rng.choice([0.25, 0.5]), rng.choice([1.0, 0.5, 2.0]), strict=False)
        if f:
            out.append(f)
    return out


@_quiet
def sw_keychord(rng, n):
    from harness.oracles import key_chordscore as O
    return [f for f in O.sweep(rng, max(10, n // 3)) if 'other' not in str(f.get('relation', '')).lower()
            and f.get('function') != 'key.weighted_score[other]']


@_quiet
def sw_chord(rng, n):
    from mir_eval import chord as C
    from harness.oracles import chord as O
    from harness.units.chord_cmp import closure
    cl = closure('quick')
    out = []
    for _ in range(max(5, n // 2)):
        f = O.check_pair(C, rng.choice(cl), rng.choice(cl), others=[rng.choice(cl)])
        if f:
            out.append(f)
            break
    return out


@_quiet
def sw_intervals(rng, n):
    from mir_eval import util as U
    from harness.oracles import intervals as O
    return O.search(U, rng, max(5, n // 2), mode='proved', first_only=True)


@_quiet
def sw_pattern_alignment_tempo(rng, n):
    from harness.oracles import pattern_alignment_tempo as O
    return O.sweep(rng, max(5, n // 2))


@_quiet
def sw_beat(rng, n):
    from mir_eval import beat as B
    from harness.oracles import beat as O
    return O.search(B, rng, budget=max(2, n // 20))


@_quiet
def sw_multipitch_self(rng, n):
    """a multipitch annotation scored against an exact copy of itself: P = R = Acc = 1, all errors 0 (raw and chroma)"""
    import numpy as np
    from mir_eval import multipitch as M
    out = []
    base = [110.0, 220.0, 440.0, 880.0, 330.0, 660.0, 247.5, 495.0, 277.18263097687, 1760.0]
    for _ in range(max(3, n // 4)):
        k = rng.randint(1, 6)
        t = np.arange(k) * rng.choice([0.25, 0.01, 0.5])
        fr = [np.array(sorted(set(rng.choice(base) for _ in range(rng.choice([0, 1, 2, 3, 4])))), dtype=float) for _ in range(k)]
        if not any(len(f) for f in fr):
            continue
        if rng.random() < 0.5:
            fr = [f[::-1].copy() for f in fr]
        sc = M.evaluate(t, fr, t.copy(), [f.copy() for f in fr])
        for key, v in sc.items():
            want = 0.0 if 'Error' in key else 1.0
            if abs(float(v) - want) > 1e-9:
                out.append({'function': 'multipitch.evaluate', 'relation': 'perfect estimate: %s = %g' % (key, want),
                            'input': [t.tolist(), [f.tolist() for f in fr]], 'observed': float(v), 'why': ''})
                return out
    return out


# keys of evaluate() that are NOT proportion-type scores: (lower bound, upper bound) or None for "any finite value"
_SPECIAL = {
    'Ref-to-est deviation': (0, None), 'Est-to-ref deviation': (0, None), 'mae': (0, None), 'aae': (0, None),
    'Mutual Information': (0, None), 'Adjusted Mutual Information': (None, 1), 'Adjusted Rand Index': (None, 1),
    'Average_Overlap_Ratio': (None, 1), 'Average_Overlap_Ratio_no_offset': (None, 1),
    'P-score': None, 'Cemgil': None, 'Cemgil Best Metric Level': None,     # beat: conditional / known findings; tempo P-score handled below
    'F': None, 'P': None,                                                    # pattern standard_FPR: known finding
    'perceptual': None,
}


@_quiet
def sw_evaluate_ranges(rng, n):
    """every evaluate(): each documented proportion lies in [0, 1], errors/deviations are >= 0, all finite (C01)"""
    import importlib
    import math
    from harness import gen_inputs as G
    from harness.oracles.evaluate import PROBES, describe
    out = []
    mods = [m for m in G.TASKS if m != 'separation']
    for _ in range(max(1, n // 25)):
        for m in mods:
            mod = importlib.import_module('mir_eval.' + m)
            args = G.TASKS[m](rng)
            kw = dict(rng.choice(PROBES[m]))
            try:
                sc = mod.evaluate(*args, **kw)
            except Exception:  # noqa  (C14's business)
                continue
            for k, v in sc.items():
                try:
                    x = float(v)
                except Exception:  # noqa
                    continue
                lo, hi = 0.0, 1.0
                if k in _SPECIAL and not (m == 'tempo' and k == 'P-score'):
                    if _SPECIAL[k] is None:
                        continue
                    lo, hi = _SPECIAL[k]
                if 'Error' in k:
                    lo, hi = 0.0, None
                if math.isnan(x):
                    if m == 'segment' and ('deviation' in k or 'Pairwise' in k or k in ('Rand Index', 'Adjusted Mutual Information', 'Normalized Mutual Information')):
                        continue        # NaN deviation for a side without boundaries is documented; pairwise / AMI NaN are listed findings
                    bad = True
                else:
                    bad = math.isinf(x) or (lo is not None and x < lo - 1e-9) or (hi is not None and x > hi + 1e-9)
                if bad:
                    out.append({'function': m + '.evaluate', 'relation': 'score %r is finite and in [0, 1] (errors/deviations >= 0)' % k,
                                'input': describe(args, kw), 'observed': x, 'why': 'expected range [%s, %s]' % (lo, hi)})
                    return out
    return out


@_quiet
def sw_segment_relabel(rng, n):
    """renaming segment labels by a bijection (within each annotation independently, changing their alphabetical order) and
    permuting nothing else leaves every labelling score of segment.evaluate and the hierarchy L-measure unchanged (C08)"""
    import numpy as np
    from mir_eval import segment as S, hierarchy as H
    from harness import gen_inputs as G
    out = []
    keys = ['Pairwise Precision', 'Pairwise Recall', 'Pairwise F-measure', 'Rand Index', 'Adjusted Rand Index', 'Mutual Information',
            'Adjusted Mutual Information', 'Normalized Mutual Information', 'NCE Over', 'NCE Under', 'NCE F-measure', 'V Precision', 'V Recall', 'V-measure']

    def rename(labels):
        names = sorted(set(l.lower() for l in labels))
        new = ['z%02d' % i for i in range(len(names))]
        rng.shuffle(new)
        m = dict(zip(names, new))
        return [m[l.lower()] for l in labels]
    for _ in range(max(3, n // 6)):
        ri, rl, ei, el = G.segment(rng)
        if abs(ri[-1, 1] - ei[-1, 1]) > 1e-9:
            continue
        try:
            a = S.evaluate(ri, rl, ei, el)
            b = S.evaluate(ri, rename(rl), ei, rename(el))
        except Exception:  # noqa
            continue
        for k in keys:
            x, y = float(a[k]), float(b[k])
            if not ((x != x and y != y) or abs(x - y) <= 1e-9):
                out.append({'function': 'segment.evaluate', 'relation': 'renaming segment labels by a bijection leaves %r unchanged' % k,
                            'input': [ri.tolist(), rl, ei.tolist(), el], 'observed': [x, y], 'why': ''})
                return out
    return out


@_quiet
def sw_many_labels(rng, n):
    """more than 256 distinct labels in one annotation (guards against narrow integer label codes): renaming the labels by a bijection
    that changes their alphabetical order leaves the L-measure and every segment labelling score unchanged (C08)"""
    import numpy as np
    from mir_eval import segment as S, hierarchy as H
    k = rng.choice([260, 300, 520])
    bounds = np.arange(k + 1, dtype=float)
    iv = np.column_stack([bounds[:-1], bounds[1:]])
    names = ['s%04d' % i for i in range(k)]
    # the reference repeats some labels far apart (i and i + 256 are the pairs a uint8 code would confuse)
    ref_labels = [names[i % (k - 3)] for i in range(k)]
    est_labels = [names[(i // 2) % (k - 5)] for i in range(k)]
    perm = list(names)
    rng.shuffle(perm)
    m = dict(zip(names, perm))
    out = []
    try:
        a = S.evaluate(iv, ref_labels, iv, est_labels, frame_size=1.0)
        b = S.evaluate(iv, [m[x] for x in ref_labels], iv, [m[x] for x in est_labels], frame_size=1.0)
        for key in a:
            if key.startswith(('Pairwise', 'Rand', 'Adjusted', 'Mutual', 'Normalized', 'NCE', 'V')):
                x, y = float(a[key]), float(b[key])
                if not ((x != x and y != y) or abs(x - y) <= 1e-9):
                    out.append({'function': 'segment.evaluate', 'relation': 'renaming %d distinct segment labels by a bijection leaves %r unchanged' % (k, key),
                                'input': {'n_labels': k, 'ref_labels': 'names[i %% %d]' % (k - 3), 'est_labels': 'names[(i // 2) %% %d]' % (k - 5)},
                                'observed': [x, y], 'why': ''})
                    return out
        coarse = np.array([[0.0, float(k)]])
        la = H.lmeasure([coarse, iv], [['all'], ref_labels], [coarse, iv], [['all'], est_labels], frame_size=1.0)
        lb = H.lmeasure([coarse, iv], [['all'], [m[x] for x in ref_labels]], [coarse, iv], [['all'], [m[x] for x in est_labels]], frame_size=1.0)
        if any(abs(float(x) - float(y)) > 1e-9 for x, y in zip(la, lb)):
            out.append({'function': 'hierarchy.lmeasure', 'relation': 'renaming %d distinct segment labels by a bijection leaves the L-measure unchanged' % k,
                        'input': {'n_labels': k}, 'observed': [[float(x) for x in la], [float(x) for x in lb]], 'why': ''})
    except Exception as e:  # noqa
        out.append({'function': 'segment.evaluate / hierarchy.lmeasure', 'relation': 'valid input with %d labels does not raise' % k, 'input': {'n_labels': k},
                    'observed': type(e).__name__ + ': ' + str(e)[:200], 'why': ''})
    return out


@_quiet
def sw_ari_large(rng, n):
    """ARI / Rand / pairwise on a LONG annotation with a fine frame grid (counts beyond 2**31): equals the textbook formula
    computed with exact integers (C16; guards against fixed-width integer arithmetic)"""
    import numpy as np
    from fractions import Fraction
    from mir_eval import segment as S
    out = []
    for _ in range(1):
        dur = rng.choice([1200.0, 1500.0])
        def ann(k):
            cuts = sorted(rng.sample(range(1, int(dur) - 1), k))
            b = [0.0] + [float(c) for c in cuts] + [dur]
            labs = [rng.choice(['a', 'a', 'a', 'b', 'c']) for _ in range(len(b) - 1)]
            return np.array([[b[i], b[i + 1]] for i in range(len(b) - 1)]), labs
        ri, rl = ann(rng.choice([3, 5]))
        ei, el = ann(rng.choice([3, 6]))
        fs = 0.01
        try:
            got = float(S.ari(ri, rl, ei, el, frame_size=fs))
        except Exception as e:  # noqa
            out.append({'function': 'segment.ari', 'relation': 'equals the textbook formula on the contingency table (long annotation)',
                        'input': [ri.tolist(), rl, ei.tolist(), el, fs], 'observed': type(e).__name__, 'why': 'raised'})
            return out
        # exact: frames are [k*fs, (k+1)*fs); boundaries are integers, so frame k has the label of the segment containing k*fs
        nfr = int(dur / fs)
        def frames(iv, labs):
            y = np.empty(nfr, dtype=np.int64)
            names = sorted(set(labs))
            for (a, b), l in zip(iv, labs):
                y[int(round(a / fs)):int(round(b / fs))] = names.index(l)
            return y
        yr, ye = frames(ri, rl), frames(ei, el)
        tab = {}
        for a, b in zip(yr.tolist(), ye.tolist()):
            tab[(a, b)] = tab.get((a, b), 0) + 1
        c2 = lambda x: x * (x - 1) // 2
        rows, cols = {}, {}
        for (a, b), v in tab.items():
            rows[a] = rows.get(a, 0) + v
            cols[b] = cols.get(b, 0) + v
        sc = sum(c2(v) for v in tab.values())
        sa = sum(c2(v) for v in rows.values())
        sb = sum(c2(v) for v in cols.values())
        tot = c2(nfr)
        if len(rows) == len(cols) == 1 or len(rows) == len(cols) == nfr or len(rows) == len(cols) == 0:
            continue
        exp = Fraction(sa * sb, tot)
        mean = Fraction(sa + sb, 2)
        want = float((sc - exp) / (mean - exp))
        if not abs(got - want) <= 1e-9:
            out.append({'function': 'segment.ari', 'relation': 'equals the textbook formula on the contingency table (long annotation)',
                        'input': [ri.tolist(), rl, ei.tolist(), el, fs], 'observed': got, 'why': 'exact integer computation gives %r' % want})
    return out


SWEEPS = [sw_ari_large, sw_segment_relabel, sw_many_labels, sw_evaluate_ranges, sw_multipitch_self, sw_beat, sw_pattern_alignment_tempo, sw_events, sw_transcription, sw_melody, sw_multipitch, sw_hierarchy, sw_segment, sw_keychord, sw_chord, sw_intervals]


def register(fn):
    SWEEPS.append(_quiet(fn))


def for_property(pid, sweeps=None):
    """-> sweep(rng, n) returning the findings that speak about property pid and are not listed as known."""
    sw = sweeps or SWEEPS

    def run(rng, n):
        out = []
        for s in sw:
            for f in s(rng, n):
                if pid in classify(f) or f.get('function', '').startswith('oracle:'):
                    if is_known(f) is None:
                        f = dict(f)
                        f['oracle'] = s.__name__
                        out.append(f)
        return out
    return run
