"""Property oracles on the implementation for mir_eval.io (C20): write an annotation in its documented text format, load
it back through the real API and compare bit-identically (float.hex), from a path and from an open file object; a
single-fault corruption must raise ValueError naming the row; content that violates the task's conventions must come back
with a warning, not an exception (except the tempo weight / one-line tests). Used only to search for a concrete failing
input; no verdict of "holds" rests on them. Every check returns None or a finding dict
{'function','relation','input','observed','why'}."""
import io as pyio
import json
import os
import re
import shutil
import struct
import warnings

TMP = '/verif/build/tmpfiles'
ROW_RE = re.compile(r':(\d+):\n\t')
SEPS = {r'\s+': [' ', '\t', '  ', ' \t '], ',': [','], '\t': ['\t']}
LABELS = ['N', 'C:maj', 'verse', 'a b', 'E:min7/b3 x', 'café α', 'x\ty', '#1', 'a#b', '1.5', 'chorus  2', '"q" z']
DELIMITED = {'events': 'f', 'labeled_events': 'fs', 'intervals': 'ff', 'labeled_intervals': 'ffs', 'valued_intervals': 'fff',
             'time_series': 'ff', 'key': 'ss', 'tempo': 'fff'}


def finding(function, relation, inp, observed, why):
    return {'function': function, 'relation': relation, 'input': inp, 'observed': observed, 'why': why}


def hx(x):
    return float(x).hex()


def call(fn, *a, **kw):
    """('ok', value, [UserWarning messages]) | ('exc', class name, message)"""
    try:
        with warnings.catch_warnings(record=True) as rec:
            warnings.simplefilter('always')
            v = fn(*a, **kw)
        return ('ok', v, [str(w.message) for w in rec if issubclass(w.category, UserWarning)])
    except Exception as e:  # noqa
        return ('exc', type(e).__name__, str(e))


def both_ways(fn, text, **kw):
    """the same text through a StringIO and through a real path"""
    a = call(fn, pyio.StringIO(text), **kw)
    d = os.path.join(TMP, 'oracle_%d' % os.getpid())
    os.makedirs(d, exist_ok=True)
    p = os.path.join(d, 'f.txt')
    try:
        with open(p, 'w', encoding='utf-8', newline='') as f:
            f.write(text)
        b = call(fn, p, **kw)
    finally:
        shutil.rmtree(d, ignore_errors=True)
    return a, b


def canon(v):
    """nested structure with floats as hex strings (bit-identical comparison), arrays as lists"""
    import numpy as np
    if isinstance(v, np.ndarray):
        return canon(v.tolist())
    if isinstance(v, (list, tuple)):
        return [canon(x) for x in v]
    if isinstance(v, float):
        return hx(v)
    if isinstance(v, (np.floating,)):
        return hx(float(v))
    return v


def render_rows(rows, sep_of, comment_lines=(), final_newline=True):
    """rows: list of token lists; sep_of(i, j) the separator before token j of row i; comment_lines: {position: text}"""
    lines = []
    cl = dict(comment_lines)
    for i, toks in enumerate(rows):
        if i in cl:
            lines.append(cl[i])
        s = toks[0]
        for j, t in enumerate(toks[1:], 1):
            s += sep_of(i, j) + t
        lines.append(s)
    if len(rows) in cl:
        lines.append(cl[len(rows)])
    text = '\n'.join(lines)
    return text + ('\n' if final_newline and lines else '')


def loader(M, name):
    return getattr(M, 'load_' + name)


def expected(name, rows):
    """what the loader must return for the typed rows (floats / strings)"""
    cols = [list(c) for c in zip(*rows)] if rows else [[] for _ in DELIMITED[name]]
    if name == 'events':
        return canon(cols[0])
    if name == 'labeled_events':
        return canon([cols[0], cols[1]])
    if name == 'intervals':
        return canon([[a, b] for a, b in zip(cols[0], cols[1])])
    if name in ('labeled_intervals', 'valued_intervals'):
        return canon([[[a, b] for a, b in zip(cols[0], cols[1])], cols[2]])
    if name == 'time_series':
        return canon([cols[0], cols[1]])
    if name == 'key':
        return '%s %s' % (rows[0][0], rows[0][1])
    if name == 'tempo':
        return canon([[rows[0][0], rows[0][1]], rows[0][2]])
    raise KeyError(name)


def tokens(row):
    return [repr(v) if isinstance(v, float) else v for v in row]


def check_roundtrip(M, name, rows, delim=r'\s+', seps=None, comments=(), final_newline=True):
    """typed rows -> text -> loader: exactly the written values, same through a path and a file object"""
    seps = seps or SEPS[delim]
    text = render_rows([tokens(r) for r in rows], lambda i, j: seps[(i + j) % len(seps)], comments, final_newline)
    a, b = both_ways(loader(M, name), text, delimiter=delim)
    inp = {'loader': name, 'text': text, 'delimiter': delim}
    same = (a[0] == b[0]) and (canon(a[1]) == canon(b[1]) if a[0] == 'ok' else a[1] == b[1])
    if not same:
        return finding('io.load_' + name, 'path and file object give the same result', inp, [repr(a), repr(b)], 'differ')
    if a[0] != 'ok':
        return finding('io.load_' + name, 'a well-formed file loads', inp, list(a[:2]) + [a[2][:200]], 'exception')
    want = expected(name, rows)
    if canon(a[1]) != want:
        return finding('io.load_' + name, 'round trip returns exactly the written values (float.hex), in file order', inp,
                       json.dumps(canon(a[1]))[:300], 'expected ' + json.dumps(want)[:300])
    return None


def check_corruption(M, name, rows, bad_row, kind, delim=r'\s+'):
    """one faulty row in a well-formed file -> ValueError naming that row (1-based, comment lines count)"""
    toks = [tokens(r) for r in rows]
    if not toks:
        return None
    bad_row %= len(toks)
    t = list(toks[bad_row])
    if kind == 'drop' and len(t) > 1:
        t = t[:-1]
    elif kind == 'drop':
        t = ['']
    elif kind == 'add_front':
        t = ['7.5'] + t
    elif kind == 'damage':
        k = [j for j, c in enumerate(DELIMITED[name]) if c == 'f']
        if not k:
            return None
        t[k[bad_row % len(k)]] = t[k[bad_row % len(k)]] + 'x'
    elif kind == 'blank':
        t = ['']
    else:
        return None
    if kind == 'add_front' and DELIMITED[name].endswith('s') and DELIMITED[name][0] == 'f' and len(DELIMITED[name]) == 2:
        return None                      # "7.5 1.0 label": the extra token is absorbed by the label, by design
    toks[bad_row] = t
    sep = SEPS[delim][0]
    text = render_rows(toks, lambda i, j: sep, {0: '# header'})
    a, b = both_ways(loader(M, name), text, delimiter=delim)
    inp = {'loader': name, 'text': text, 'delimiter': delim, 'faulty_line': bad_row + 2}
    for o in (a, b):
        if o[0] == 'ok':
            # an added numeric column in front of a numeric file may still parse when the last column is a label
            if kind == 'add_front' and DELIMITED[name].endswith('s'):
                continue
            return finding('io.load_' + name, 'a row with the wrong number of columns / an unparsable number raises ValueError',
                           inp, repr(o[1])[:200], 'no exception')
        if o[1] != 'ValueError':
            return finding('io.load_' + name, 'malformed row raises ValueError', inp, list(o[:2]), 'other exception class')
        m = ROW_RE.search(o[2])
        if not m or int(m.group(1)) != bad_row + 2:
            return finding('io.load_' + name, 'the ValueError names the faulty row', inp, o[2][:200], 'row not named')
    return None


def check_warned_not_raised(M, name, rows, delim=r'\s+'):
    """content that parses but violates the conventions: returned, with a warning"""
    text = render_rows([tokens(r) for r in rows], lambda i, j: SEPS[delim][0])
    a, b = both_ways(loader(M, name), text, delimiter=delim)
    inp = {'loader': name, 'text': text}
    for o in (a, b):
        if o[0] != 'ok':
            return finding('io.load_' + name, 'violating content is returned with a warning, not an exception', inp, list(o[:2]), 'raised')
        if not o[2]:
            return finding('io.load_' + name, 'violating content produces a warning', inp, repr(o[1])[:200], 'no warning')
        if canon(o[1]) != expected(name, rows):
            return finding('io.load_' + name, 'violating content is returned unchanged', inp, json.dumps(canon(o[1]))[:300], 'differs')
    return None


def check_documented_error(M, name, text, why):
    """tempo weight outside [0, 1]; key / tempo file that does not have exactly one line: ValueError"""
    a, b = both_ways(loader(M, name), text)
    for o in (a, b):
        if o[0] == 'ok' or o[1] != 'ValueError':
            return finding('io.load_' + name, why + ' raises ValueError', {'loader': name, 'text': text}, list(o[:2]), 'not a ValueError')
    return None


def render_patterns(pats):
    s = ''
    for i, p in enumerate(pats, 1):
        s += 'pattern%d\n' % i
        for j, occ in enumerate(p, 1):
            s += 'occurrence%d\n' % j
            for on, midi in occ:
                s += '%r, %r\n' % (on, midi)
    return s


def check_patterns_roundtrip(M, pats):
    text = render_patterns(pats)
    a, b = both_ways(M.load_patterns, text)
    inp = {'loader': 'patterns', 'text': text}
    want = canon([[[[on, midi] for on, midi in occ] for occ in p] for p in pats])
    for o in (a, b):
        if o[0] != 'ok':
            return finding('io.load_patterns', 'a well-formed pattern file loads', inp, list(o[:2]), 'exception')
        if canon(o[1]) != want:
            return finding('io.load_patterns', 'round trip returns the written patterns', inp, json.dumps(canon(o[1]))[:300], 'differs')
    return None


def check_patterns_corruption(M, pats, line_no, new_line):
    """replace one line of a well-formed pattern file: any exception must be a ValueError; a data line (no "pattern" /
    "occurrence" in it) that does not consist of exactly two comma-separated fields must raise ValueError naming its 1-based
    line number, header lines counted (fixed by /repo f596eb3; it used to be IndexError / silently accepted)."""
    lines = render_patterns(pats).split('\n')[:-1]
    if not lines:
        return None
    line_no %= len(lines)
    lines[line_no] = new_line
    text = '\n'.join(lines) + '\n'
    a, b = both_ways(M.load_patterns, text)
    inp = {'loader': 'patterns', 'text': text, 'faulty_line': line_no + 1}
    is_data = 'pattern' not in new_line and 'occurrence' not in new_line
    # the first line that is not "a, b" -- an earlier unparsable number cannot occur: the other lines are well-formed
    must_name_row = is_data and len((new_line + '\n').split(',')) != 2
    for o in (a, b):
        if o[0] == 'exc' and o[1] != 'ValueError':
            return finding('io.load_patterns', 'a malformed data row raises ValueError', inp, list(o[:2]) + [o[2][:100]],
                           'other exception class')
        if must_name_row:
            if o[0] != 'exc':
                return finding('io.load_patterns', 'a data row without exactly two columns raises ValueError', inp,
                               repr(o[1])[:200], 'no exception')
            m = ROW_RE.search(o[2])
            if not m or int(m.group(1)) != line_no + 1:
                return finding('io.load_patterns', 'the ValueError names the faulty row (1-based, header lines count)', inp,
                               o[2][:200], 'row not named')
    return None


def check_ragged_roundtrip(M, times, values, delim=r'\s+'):
    rows = [[t] + list(v) for t, v in zip(times, values)]
    text = render_rows([tokens(r) for r in rows], lambda i, j: SEPS[delim][(i + j) % len(SEPS[delim])], {0: '# time f0...'})
    a, b = both_ways(M.load_ragged_time_series, text, delimiter=delim)
    inp = {'loader': 'ragged_time_series', 'text': text}
    want = canon([list(times), [list(v) for v in values]])
    for o in (a, b):
        if o[0] != 'ok':
            return finding('io.load_ragged_time_series', 'a well-formed file loads', inp, list(o[:2]), 'exception')
        if canon([o[1][0], list(o[1][1])]) != want:
            return finding('io.load_ragged_time_series', 'round trip', inp, json.dumps(canon([o[1][0], list(o[1][1])]))[:300], 'differs')
    return None


# ------------------------------------------------------------------------------------------------------------------
def rnd_float(rng):
    r = rng.random()
    if r < 0.5:
        return rng.randint(0, 80000) / 64.0
    if r < 0.7:
        return struct.unpack('>d', struct.pack('>Q', rng.getrandbits(62) | (rng.getrandbits(1) << 63)))[0] or 1.0
    if r < 0.85:
        return rng.uniform(-1, 1) * 10.0 ** rng.randint(-300, 300)
    return rng.choice([0.0, -0.0, 1e-320, 5e-324, 1.7976931348623157e308, 0.1, 1 / 3, 1e22, 1e23, 123456789.123456789])


def finite(x):
    return x == x and abs(x) != float('inf')


def rnd_rows(rng, name, valid=True):
    n = rng.choice([0, 1, 2, 3, 5, 8])
    conv = DELIMITED[name]
    if name == 'key':
        return [[rng.choice(['C', 'c#', 'Eb', 'G']), rng.choice(['major', 'minor', 'other'])]]
    if name == 'tempo':
        return [[rng.randint(240, 960) / 8.0, rng.randint(960, 2400) / 8.0, rng.choice([0.0, 0.5, 1.0, 0.25])]]
    rows = []
    t = 0.0
    hard = rng.random() < 0.5           # arbitrary doubles instead of multiples of 1/8
    for _ in range(n):
        row = []
        if name in ('events', 'labeled_events', 'time_series'):
            t += rng.uniform(0.0, 10.0) if hard else rng.randint(0, 80) / 8.0
            row.append(t)
            if name == 'time_series':
                x = rnd_float(rng)
                row.append(x if finite(x) else 1.0)
        else:
            d = rng.uniform(0.001, 10.0) if hard else rng.randint(1, 80) / 8.0
            row += [t, t + d]
            t += d
            if name == 'valued_intervals':
                x = rnd_float(rng)
                row.append(x if finite(x) else 1.0)
        if conv.endswith('s'):
            row.append(rng.choice(LABELS))
        rows.append(row)
    return rows


def search(M, rng, budget=300):
    best, ncases = {}, [0]

    def note(f):
        ncases[0] += 1
        if f is None:
            return
        key = (f['function'], f['relation'])
        size = len(json.dumps(f['input']))
        if key not in best or size < best[key][0]:
            best[key] = (size, f)

    # fixed inputs: the documented errors and the two former defects (fixed in /repo by 7de24cd and f596eb3)
    note(check_documented_error(M, 'tempo', '60 120 1.5\n', 'a tempo weight outside [0, 1]'))
    note(check_documented_error(M, 'tempo', '60 120 -0.5\n', 'a tempo weight outside [0, 1]'))
    note(check_documented_error(M, 'tempo', '60 120 0.5\n60 120 0.5\n', 'a multi-line tempo file'))
    note(check_documented_error(M, 'key', 'C major\nD minor\n', 'a multi-line key file'))
    note(check_documented_error(M, 'tempo', '', 'a tempo file without any line'))
    note(check_documented_error(M, 'tempo', '# only a comment\n', 'a tempo file without any line'))
    note(check_documented_error(M, 'key', '', 'a key file without any line'))
    note(check_patterns_corruption(M, [[[(1.0, 60.0)]]], 2, '1.0'))
    note(check_patterns_corruption(M, [[[(1.0, 60.0)]]], 2, '1.0 60.0'))
    note(check_patterns_corruption(M, [[[(1.0, 60.0)]]], 2, '1.0, 60.0, 3.0'))
    note(check_patterns_corruption(M, [[[(1.0, 60.0), (2.0, 61.0)]], [[(3.0, 62.0)]]], 6, '3.0'))
    note(check_patterns_corruption(M, [[[(1.0, 60.0)]]], 2, ''))
    note(check_warned_not_raised(M, 'events', [[2.0], [1.0]]))
    note(check_warned_not_raised(M, 'events', [[30000.5]]))
    note(check_warned_not_raised(M, 'labeled_events', [[2.0, 'a b'], [1.0, 'c']]))
    note(check_warned_not_raised(M, 'intervals', [[1.0, 1.0]]))
    note(check_warned_not_raised(M, 'intervals', [[-1.0, 1.0]]))
    note(check_warned_not_raised(M, 'labeled_intervals', [[2.0, 1.0, 'N']]))
    note(check_warned_not_raised(M, 'valued_intervals', [[2.0, 1.0, 60.0]]))
    note(check_warned_not_raised(M, 'key', [['H', 'major']]))
    note(check_warned_not_raised(M, 'key', [['C', 'dorian mode']]))
    note(check_warned_not_raised(M, 'tempo', [[0.0, 0.0, 0.5]]))
    note(check_warned_not_raised(M, 'tempo', [[-60.0, 120.0, 0.5]]))
    for _ in range(budget):
        name = rng.choice(sorted(DELIMITED))
        rows = rnd_rows(rng, name)
        delim = rng.choice([r'\s+', r'\s+', ',', '\t'])
        comments = {k: rng.choice(['# c', '#', '# 1.0 2.0 x']) for k in range(len(rows) + 1) if rng.random() < 0.2}
        note(check_roundtrip(M, name, rows, delim, None, comments, rng.random() < 0.8))
        if name not in ('key', 'tempo') and rows:
            note(check_corruption(M, name, rows, rng.randrange(len(rows)), rng.choice(['drop', 'add_front', 'damage', 'blank']), delim))
        if rng.random() < 0.3:
            pats = [[[(rng.choice([rng.randint(0, 800) / 8.0, rng.uniform(0, 100)]),
                       rng.choice([float(rng.randint(40, 90)), rng.randint(320, 720) / 8.0, rng.uniform(40, 90)]))
                      for _ in range(rng.randint(1, 4))]
                     for _ in range(rng.randint(1, 3))] for _ in range(rng.randint(0, 3))]
            note(check_patterns_roundtrip(M, pats))
            if pats:
                note(check_patterns_corruption(M, pats, rng.randrange(50), rng.choice(['1.0', '', 'x, 1', '1.0,', '3 4', ' ', '1,2,3', '1.0, 60.0,', ',,'])))
            times = [i / 4.0 for i in range(rng.randint(0, 6))]
            vals = [[rng.choice([rng.randint(400, 8000) / 8.0, rng.uniform(50, 1000), rnd_float(rng)])
                     for _ in range(rng.choice([0, 1, 2, 4]))] for _ in times]
            vals = [[x if finite(x) else 1.0 for x in v] for v in vals]
            note(check_ragged_roundtrip(M, times, vals, rng.choice([r'\s+', '\t'])))
    search.cases = ncases[0]
    return [f for _, f in sorted(best.values(), key=lambda x: x[0])]
