"""C14 oracle on the REAL API of the 14 task modules ("valid input is scored, invalid input raises ValueError").

    check_valid(module, args, shape=None)   every public metric function of the module and evaluate() return without raising
                                            on an input that satisfies the documented conventions
    check_faults(module, args, rng=None)    every applicable single-fault corruption of a valid input makes every entry point
                                            that receives the corrupted argument raise ValueError (InvalidChordException for a
                                            malformed chord label) and nothing else
    search(rng, n, include_known=False)     n random valid inputs per module (+ all degenerate shapes) through both checks
    KNOWN                                   (module, 'shape:<name>' | 'fault:<name>', function) combinations that fail on the
                                            pinned tree, each with an exact call, so that they are listed and not re-reported

A finding is {'function','relation','input','observed','why'} (+ 'module', 'kind' = 'shape:..'/'fault:..', 'call' = a Python
expression that reproduces it).  No verdict of "holds" rests on this file; it searches for concrete counterexamples.

`args` are always the positional arguments of <module>.evaluate (as produced by harness/gen_inputs.py).  Metric functions
that take derived quantities (chord comparison functions, melody measures, boundary functions) receive them through the
documented pipeline (`ENTRY[module]`).  Faults are applied either to evaluate()'s arguments or to the derived arguments of a
metric function - `at` says which."""
import random
import warnings

import numpy as np

from harness import gen_inputs as G

A = np.array


# ------------------------------------------------------------------------------------------------------------------
# printing an exact call
# ------------------------------------------------------------------------------------------------------------------

def py(x):
    if isinstance(x, np.ndarray):
        if x.size == 0:
            return 'np.zeros(%r)' % (x.shape,)
        return 'np.array(%s)' % py(x.tolist())
    if isinstance(x, (list, tuple)):
        s = ', '.join(py(y) for y in x)
        return '[%s]' % s if isinstance(x, list) else '(%s%s)' % (s, ',' if len(x) == 1 else '')
    if isinstance(x, (float, np.floating)):
        x = float(x)
        if x != x:
            return 'np.nan'
        if x in (float('inf'), float('-inf')):
            return 'np.inf' if x > 0 else '-np.inf'
        return repr(x)
    if isinstance(x, (np.integer,)):
        return repr(int(x))
    if isinstance(x, (np.bool_,)):
        return repr(bool(x))
    return repr(x)


def call_text(module, fname, args, kw=None):
    parts = [py(a) for a in args] + ['%s=%s' % (k, py(v)) for k, v in sorted((kw or {}).items())]
    text = 'mir_eval.%s.%s(%s)' % (module, fname, ', '.join(parts))
    return text if len(text) < 1500 else text[:1500] + ' ...'


def finding(module, kind, fname, relation, call, observed, why):
    return {'function': '%s.%s' % (module, fname), 'relation': relation, 'input': call, 'observed': observed, 'why': why,
            'module': module, 'kind': kind, 'call': call}


class _Timeout(BaseException):
    pass


def _alarm(signum, frame):
    raise _Timeout()


LIMIT = 20      # seconds per call; a call that does not return within the limit is reported as 'Timeout'
LIMITS = {'separation': 900}     # bss_eval solves 512-tap filter systems: minutes per call on a loaded machine


def run(fn, args, kw=None):
    """-> ('ok', value) | ('exc', class name, message)"""
    import signal
    old = signal.signal(signal.SIGALRM, _alarm)
    limit = LIMITS.get(getattr(fn, '__module__', '').rsplit('.', 1)[-1], LIMIT)
    signal.alarm(limit)
    try:
        with warnings.catch_warnings():
            warnings.simplefilter('ignore')
            try:
                with np.errstate(all='ignore'):
                    return ('ok', fn(*args, **(kw or {})))
            except _Timeout:
                return ('exc', 'Timeout', 'no result within %d s' % limit)
            except Exception as e:  # noqa
                return ('exc', type(e).__name__, str(e)[:160])
    finally:
        signal.alarm(0)
        signal.signal(signal.SIGALRM, old)


def mod(name):
    import importlib
    return importlib.import_module('mir_eval.' + name)


# ------------------------------------------------------------------------------------------------------------------
# entry points: for every module the public metric functions, each with the derivation of its arguments from
# evaluate()'s arguments.  ENTRY[module] = [(function name, group)], DERIVE[module][group](args) -> (call args, kwargs)
# ------------------------------------------------------------------------------------------------------------------

CHORD_CMP = ['thirds', 'thirds_inv', 'triads', 'triads_inv', 'tetrads', 'tetrads_inv', 'root', 'mirex', 'majmin', 'majmin_inv',
             'sevenths', 'sevenths_inv']


def _chord_labels(args):
    """the label lists evaluate() hands to the comparison functions (documented pipeline of the weighted_accuracy example)"""
    import mir_eval
    ri, rl, ei, el = args
    ei, el = mir_eval.util.adjust_intervals(ei, list(el), ri.min(), ri.max(), mir_eval.chord.NO_CHORD, mir_eval.chord.NO_CHORD)
    iv, rl2, el2 = mir_eval.util.merge_labeled_intervals(ri, list(rl), ei, el)
    return iv, rl2, el2


def _chord_lab(args):
    iv, rl, el = _chord_labels(args)
    return (rl, el), {}


def _chord_wacc(args):
    import mir_eval
    iv, rl, el = _chord_labels(args)
    return (mir_eval.chord.root(rl, el), mir_eval.util.intervals_to_durations(iv)), {}


def _chord_seg(args):
    import mir_eval
    ri, rl, ei, el = args
    ei, el = mir_eval.util.adjust_intervals(ei, list(el), ri.min(), ri.max(), mir_eval.chord.NO_CHORD, mir_eval.chord.NO_CHORD)
    return (mir_eval.chord.merge_chord_intervals(ri, rl), mir_eval.chord.merge_chord_intervals(ei, el)), {}


def _melody_cv(args):
    import mir_eval
    return tuple(mir_eval.melody.to_cent_voicing(*args)), {}


def _melody_v(args):
    rv, rc, ev, ec = _melody_cv(args)[0]
    return (rv, ev), {}


def _seg_adjust(args):
    """segment.evaluate's documented preprocessing (the docstring examples of the structure metrics do the same)"""
    import mir_eval
    ri, rl, ei, el = args
    if ri.size == 0 or ei.size == 0:          # the metric functions define a score for empty annotations: no adjustment possible
        return ri, list(rl), ei, list(el)
    ri, rl = mir_eval.util.adjust_intervals(ri, labels=list(rl), t_min=0.0)
    ei, el = mir_eval.util.adjust_intervals(ei, labels=list(el), t_min=0.0, t_max=ri.max())
    return ri, rl, ei, el


def _hier_align(args):
    """hierarchy.evaluate's preprocessing: both hierarchies start at 0 and the estimate is cropped / padded to the reference's end"""
    from mir_eval import hierarchy as H
    ri, rl, ei, el = args
    _, t_end = H._hierarchy_bounds(ri)
    ri, rl = H._align_intervals(ri, rl, t_min=0.0, t_max=None)
    ei, el = H._align_intervals(ei, el, t_min=0.0, t_max=t_end)
    return ri, rl, ei, el


IDENT = lambda args: (tuple(args), {})  # noqa

DERIVE = {
    'alignment': {'ev': IDENT},
    'beat': {'ev': IDENT},
    'onset': {'ev': IDENT},
    'tempo': {'ev': IDENT},
    'key': {'ev': IDENT},
    'pattern': {'ev': IDENT},
    'multipitch': {'ev': IDENT},
    'separation': {'ev': IDENT},
    'transcription': {'ev': IDENT, 'iv': lambda a: ((a[0], a[2]), {})},
    'transcription_velocity': {'ev': IDENT},
    'chord': {'ev': IDENT, 'lab': _chord_lab, 'wacc': _chord_wacc, 'seg': _chord_seg},
    'melody': {'ev': IDENT, 'cv': _melody_cv, 'v': _melody_v},
    'segment': {'ev': IDENT, 'bnd': lambda a: ((a[0], a[2]), {}), 'adj': lambda a: (_seg_adjust(a), {}),
                'adjbnd': lambda a: ((_seg_adjust(a)[0], _seg_adjust(a)[2]), {})},
    'hierarchy': {'ev': IDENT, 'iv': lambda a: ((_hier_align(a)[0], _hier_align(a)[2]), {}), 'lm': lambda a: (_hier_align(a), {})},
}

ENTRY = {
    'alignment': [('absolute_error', 'ev'), ('percentage_correct', 'ev'), ('percentage_correct_segments', 'ev'),
                  ('karaoke_perceptual_metric', 'ev'), ('evaluate', 'ev')],
    'beat': [('f_measure', 'ev'), ('cemgil', 'ev'), ('goto', 'ev'), ('p_score', 'ev'), ('continuity', 'ev'),
             ('information_gain', 'ev'), ('evaluate', 'ev')],
    'onset': [('f_measure', 'ev'), ('evaluate', 'ev')],
    'tempo': [('detection', 'ev'), ('evaluate', 'ev')],
    'key': [('weighted_score', 'ev'), ('evaluate', 'ev')],
    'pattern': [('standard_FPR', 'ev'), ('establishment_FPR', 'ev'), ('occurrence_FPR', 'ev'), ('three_layer_FPR', 'ev'),
                ('first_n_three_layer_P', 'ev'), ('first_n_target_proportion_R', 'ev'), ('evaluate', 'ev')],
    'multipitch': [('metrics', 'ev'), ('evaluate', 'ev')],
    'separation': [('bss_eval_sources', 'ev'), ('bss_eval_sources_framewise', 'ev'), ('bss_eval_images', 'ev'),
                   ('bss_eval_images_framewise', 'ev'), ('evaluate', 'ev')],
    'transcription': [('precision_recall_f1_overlap', 'ev'), ('onset_precision_recall_f1', 'iv'),
                      ('offset_precision_recall_f1', 'iv'), ('evaluate', 'ev')],
    'transcription_velocity': [('precision_recall_f1_overlap', 'ev'), ('evaluate', 'ev')],
    'chord': [(c, 'lab') for c in CHORD_CMP] + [('weighted_accuracy', 'wacc'), ('directional_hamming_distance', 'seg'),
                                                 ('overseg', 'seg'), ('underseg', 'seg'), ('seg', 'seg'), ('evaluate', 'ev')],
    'melody': [('voicing_recall', 'v'), ('voicing_false_alarm', 'v'), ('voicing_measures', 'v'), ('raw_pitch_accuracy', 'cv'),
               ('raw_chroma_accuracy', 'cv'), ('overall_accuracy', 'cv'), ('evaluate', 'ev')],
    'segment': [('detection', 'adjbnd'), ('deviation', 'adjbnd'), ('pairwise', 'adj'), ('rand_index', 'adj'), ('ari', 'adj'),
                ('mutual_information', 'adj'), ('nce', 'adj'), ('vmeasure', 'adj'), ('evaluate', 'ev')],
    'hierarchy': [('tmeasure', 'iv'), ('lmeasure', 'lm'), ('evaluate', 'ev')],
}
MODULES = sorted(ENTRY)


# ------------------------------------------------------------------------------------------------------------------
# degenerate valid shapes: SHAPES[module] = {name: () -> args}.  Every one satisfies the documented conventions.
# ------------------------------------------------------------------------------------------------------------------

E1 = lambda: np.zeros(0)         # noqa  empty 1-d
E2 = lambda: np.zeros((0, 2))    # noqa  empty (0, 2)


def _ev_shapes(lo=0.0):
    r = A([1.0, 2.0, 3.0, 4.0]) + lo
    return {
        'empty_ref': lambda: (E1(), r.copy()),
        'empty_est': lambda: (r.copy(), E1()),
        'empty_both': lambda: (E1(), E1()),
        'single_ref': lambda: (A([2.0 + lo]), r.copy()),
        'single_est': lambda: (r.copy(), A([2.0 + lo])),
        'single_both': lambda: (A([2.0 + lo]), A([2.0 + lo])),
        'duplicate_times': lambda: (A([1.0, 2.0, 2.0, 3.0]) + lo, A([1.0, 1.0, 2.0, 3.0]) + lo),
        'all_identical': lambda: (A([2.0, 2.0, 2.0]) + lo, A([2.0, 2.0, 2.0]) + lo),
        'est_starts_earlier': lambda: (r.copy(), A([0.25, 1.0, 2.0, 3.0]) + lo),
        'est_runs_longer': lambda: (r.copy(), A([1.0, 2.0, 3.0, 4.0, 5.0, 6.0]) + lo),
        'est_at_ref_ends': lambda: (r.copy(), A([1.0 + lo, 4.0 + lo])),
        'time_zero': lambda: (A([0.0, 1.0, 2.0]), A([0.0, 1.0, 2.0])),
        'at_max_time': lambda: (A([29998.0, 29999.0, 30000.0]), A([29998.5, 29999.0, 30000.0])),   # close together: p_score correlates 100 Hz pulse trains
    }


def _iv(*rows):
    return A([list(map(float, r)) for r in rows]) if rows else E2()


SHAPES = {}
SHAPES['onset'] = _ev_shapes()
SHAPES['beat'] = dict(_ev_shapes(5.0))          # beats before 5 s are trimmed by evaluate(): keep the content after 5 s
SHAPES['beat'].update({
    'all_before_trim': lambda: (A([1.0, 2.0, 3.0]), A([1.0, 2.0, 3.0])),          # evaluate() trims everything
    'two_beats': lambda: (A([6.0, 7.0]), A([6.0, 7.0])),
    'est_one_after_trim': lambda: (A([6.0, 7.0, 8.0]), A([1.0, 6.5])),
})
SHAPES['alignment'] = {
    'single_both': lambda: (A([2.0]), A([2.5])),
    'two': lambda: (A([1.0, 2.0]), A([1.5, 2.5])),
    'duplicate_times': lambda: (A([1.0, 2.0, 2.0, 3.0]), A([1.0, 1.0, 2.0, 3.0])),
    'all_identical': lambda: (A([2.0, 2.0, 2.0]), A([2.0, 2.0, 2.0])),
    'est_starts_earlier': lambda: (A([1.0, 2.0, 3.0]), A([0.0, 2.0, 3.0])),
    'est_runs_longer': lambda: (A([1.0, 2.0, 3.0]), A([1.0, 2.0, 9.0])),
    'est_wholly_after': lambda: (A([1.0, 2.0, 3.0]), A([4.0, 5.0, 6.0])),
    'est_wholly_before': lambda: (A([4.0, 5.0, 6.0]), A([1.0, 2.0, 3.0])),
    'est_at_ref_ends': lambda: (A([1.0, 2.0, 3.0]), A([1.0, 3.0, 3.0])),
    'time_zero': lambda: (A([0.0, 1.0]), A([0.0, 1.0])),
}
SHAPES['tempo'] = {
    'est_zero_tempo': lambda: (A([60.0, 120.0]), 0.5, A([0.0, 120.0])),
    'est_both_zero': lambda: (A([60.0, 120.0]), 0.5, A([0.0, 0.0])),
    'ref_one_zero': lambda: (A([0.0, 120.0]), 0.0, A([60.0, 120.0])),
    'ref_one_zero_weighted': lambda: (A([0.0, 120.0]), 1.0, A([60.0, 120.0])),
    'weight_0': lambda: (A([60.0, 120.0]), 0.0, A([60.0, 120.0])),
    'weight_1': lambda: (A([60.0, 120.0]), 1.0, A([60.0, 120.0])),
    'duplicate_tempi': lambda: (A([120.0, 120.0]), 0.5, A([120.0, 120.0])),
}
SHAPES['key'] = {
    'x_ref': lambda: ('X', 'C major'), 'x_est': lambda: ('C major', 'X'), 'x_both': lambda: ('x', 'X'),
    'other_mode': lambda: ('C other', 'G other'), 'other_ref': lambda: ('C other', 'C major'), 'other_est': lambda: ('C major', 'C other'),
    'lower_case_tonic': lambda: ('c# minor', 'db minor'), 'extra_spaces': lambda: (' C   major ', 'C\tminor'),
}
_P = [[(0.0, 60.0), (1.0, 62.0)], [(4.0, 60.0), (5.0, 62.0)]]
SHAPES['pattern'] = {
    'empty_ref': lambda: ([], [_P]), 'empty_est': lambda: ([_P], []), 'empty_both': lambda: ([], []),
    'single_occurrence': lambda: ([[_P[0]]], [[_P[1]]]), 'single_note': lambda: ([[[(0.0, 60.0)]]], [[[(0.0, 60.0)]]]),
    'duplicate_pattern': lambda: ([_P, _P], [_P]), 'duplicate_notes': lambda: ([[[(0.0, 60.0), (0.0, 60.0)]]], [[[(0.0, 60.0)]]]),
    'empty_occurrence': lambda: ([[[]]], [_P]),
}
_F = lambda *x: A(list(map(float, x)))  # noqa
SHAPES['multipitch'] = {
    'empty_ref': lambda: (E1(), [], A([0.0, 0.5]), [_F(220), _F(440)]),
    'empty_est': lambda: (A([0.0, 0.5]), [_F(220), _F(440)], E1(), []),
    'empty_both': lambda: (E1(), [], E1(), []),
    'single_frame': lambda: (A([0.0]), [_F(220)], A([0.0]), [_F(220)]),
    'single_ref_frame': lambda: (A([0.0]), [_F(220)], A([0.0, 0.5, 1.0]), [_F(220), _F(), _F(440)]),
    'single_est_frame': lambda: (A([0.0, 0.5, 1.0]), [_F(220), _F(), _F(440)], A([0.25]), [_F(220)]),
    'all_frames_silent': lambda: (A([0.0, 0.5]), [_F(), _F()], A([0.0, 0.5]), [_F(), _F()]),
    'ref_silent': lambda: (A([0.0, 0.5]), [_F(), _F()], A([0.0, 0.5]), [_F(220), _F(440)]),
    'est_silent': lambda: (A([0.0, 0.5]), [_F(220), _F(440)], A([0.0, 0.5]), [_F(), _F()]),
    'duplicate_times': lambda: (A([0.0, 0.5, 0.5, 1.0]), [_F(220)] * 4, A([0.0, 0.25, 0.25, 1.0]), [_F(220)] * 4),
    'duplicate_freqs': lambda: (A([0.0, 0.5]), [_F(220, 220), _F(440)], A([0.0, 0.5]), [_F(220), _F(440, 440)]),
    'est_starts_earlier': lambda: (A([1.0, 1.5, 2.0]), [_F(220)] * 3, A([0.0, 0.5, 1.0, 1.5, 2.0]), [_F(220)] * 5),
    'est_runs_longer': lambda: (A([0.0, 0.5]), [_F(220)] * 2, A([0.0, 0.5, 1.0, 1.5]), [_F(220)] * 4),
    'est_shorter': lambda: (A([0.0, 0.5, 1.0, 1.5]), [_F(220)] * 4, A([0.0, 0.25]), [_F(220)] * 2),
    'est_wholly_after': lambda: (A([0.0, 0.5]), [_F(220)] * 2, A([2.0, 2.5]), [_F(220)] * 2),
    'freq_bounds': lambda: (A([0.0, 0.5]), [_F(20), _F(5000)], A([0.0, 0.5]), [_F(5000), _F(20)]),
}
SHAPES['melody'] = {
    'empty_both': lambda: (E1(), E1(), E1(), E1()),
    'empty_est': lambda: (A([0.0, 0.25, 0.5]), _F(220, 220, 0), E1(), E1()),
    'empty_ref': lambda: (E1(), E1(), A([0.0, 0.25, 0.5]), _F(220, 220, 0)),
    'single_frame': lambda: (A([0.0]), _F(220), A([0.0]), _F(220)),
    'single_est_frame': lambda: (A([0.0, 0.25, 0.5]), _F(220, 220, 0), A([0.0]), _F(220)),
    'single_ref_frame': lambda: (A([0.0]), _F(220), A([0.0, 0.25, 0.5]), _F(220, 220, 0)),
    'single_frame_late': lambda: (A([0.5]), _F(220), A([0.5]), _F(220)),
    'two_frames': lambda: (A([0.0, 0.25]), _F(220, 0), A([0.0, 0.25]), _F(220, 220)),
    'all_unvoiced': lambda: (A([0.0, 0.25, 0.5]), _F(0, 0, 0), A([0.0, 0.25, 0.5]), _F(0, 0, 0)),
    'ref_unvoiced': lambda: (A([0.0, 0.25, 0.5]), _F(0, 0, 0), A([0.0, 0.25, 0.5]), _F(220, 220, 0)),
    'est_unvoiced': lambda: (A([0.0, 0.25, 0.5]), _F(220, 220, 0), A([0.0, 0.25, 0.5]), _F(0, -220, 0)),
    'duplicate_times': lambda: (A([0.0, 0.25, 0.25, 0.5]), _F(220, 220, 220, 0), A([0.0, 0.25, 0.5, 0.75]), _F(220, 220, 0, 0)),
    'duplicate_est_times': lambda: (A([0.0, 0.25, 0.5, 0.75]), _F(220, 220, 0, 0), A([0.0, 0.25, 0.25, 0.5]), _F(220, 220, 220, 0)),
    'est_starts_earlier': lambda: (A([0.5, 0.75, 1.0]), _F(220, 220, 0), A([0.0, 0.25, 0.5, 0.75, 1.0]), _F(220, 220, 220, 220, 0)),
    'est_starts_later': lambda: (A([0.0, 0.25, 0.5, 0.75, 1.0]), _F(220, 220, 220, 220, 0), A([0.5, 0.75, 1.0]), _F(220, 220, 0)),
    'est_runs_longer': lambda: (A([0.0, 0.25, 0.5]), _F(220, 220, 0), A([0.0, 0.25, 0.5, 0.75, 1.0]), _F(220, 220, 220, 220, 0)),
    'est_shorter': lambda: (A([0.0, 0.25, 0.5, 0.75, 1.0]), _F(220, 220, 220, 220, 0), A([0.0, 0.25]), _F(220, 220)),
    'est_wholly_after': lambda: (A([0.0, 0.25]), _F(220, 220), A([2.0, 2.25]), _F(220, 220)),
}
_S2 = lambda: (_iv((0, 2), (2, 4)), ['a', 'b'])  # noqa
SHAPES['segment'] = {
    'empty_ref': lambda: (E2(), [], ) + _S2(),
    'empty_est': lambda: _S2() + (E2(), []),
    'empty_both': lambda: (E2(), [], E2(), []),
    'single_segment': lambda: (_iv((0, 4)), ['a'], _iv((0, 4)), ['b']),
    'single_ref_segment': lambda: (_iv((0, 4)), ['a']) + _S2(),
    'single_est_segment': lambda: _S2() + (_iv((0, 4)), ['a']),
    'duplicate_labels': lambda: (_iv((0, 1), (1, 2), (2, 4)), ['a', 'a', 'a'], _iv((0, 2), (2, 4)), ['b', 'b']),
    'est_starts_later': lambda: _S2() + (_iv((1, 2), (2, 4)), ['a', 'b']),
    'ref_starts_later': lambda: (_iv((1, 2), (2, 4)), ['a', 'b']) + _S2(),
    'est_runs_longer': lambda: _S2() + (_iv((0, 2), (2, 6)), ['a', 'b']),
    'est_shorter': lambda: _S2() + (_iv((0, 1), (1, 3)), ['a', 'b']),
    'est_boundary_at_ref_end': lambda: _S2() + (_iv((0, 2), (2, 4), (4, 6)), ['a', 'b', 'c']),
    'est_ends_at_ref_first_boundary': lambda: _S2() + (_iv((0, 1), (1, 2)), ['a', 'b']),
    'est_starts_at_ref_end': lambda: _S2() + (_iv((4, 5), (5, 6)), ['a', 'b']),
    'est_wholly_after': lambda: _S2() + (_iv((5, 6), (6, 7)), ['a', 'b']),
    'tiny_segment': lambda: (_iv((0, 0.015625), (0.015625, 4)), ['a', 'b']) + _S2(),
    'gapped_est': lambda: _S2() + (_iv((0, 1), (2, 4)), ['a', 'b']),
}
SHAPES['chord'] = {
    'empty_est': lambda: (_iv((0, 2), (2, 4)), ['C', 'G:7'], E2(), []),
    'single_interval': lambda: (_iv((0, 4)), ['C'], _iv((0, 4)), ['C']),
    'single_est_interval': lambda: (_iv((0, 2), (2, 4)), ['C', 'G:7'], _iv((0, 4)), ['C']),
    'single_ref_interval': lambda: (_iv((0, 4)), ['C'], _iv((0, 2), (2, 4)), ['C', 'G:7']),
    'all_no_chord': lambda: (_iv((0, 2), (2, 4)), ['N', 'N'], _iv((0, 4)), ['N']),
    'all_x': lambda: (_iv((0, 2), (2, 4)), ['X', 'X'], _iv((0, 4)), ['C']),
    'duplicate_labels': lambda: (_iv((0, 1), (1, 2), (2, 4)), ['C', 'C', 'C'], _iv((0, 2), (2, 4)), ['G', 'G']),
    'est_starts_earlier': lambda: (_iv((1, 2), (2, 4)), ['C', 'G'], _iv((0, 2), (2, 4)), ['C', 'G']),
    'est_starts_later': lambda: (_iv((0, 2), (2, 4)), ['C', 'G'], _iv((1, 2), (2, 4)), ['C', 'G']),
    'est_runs_longer': lambda: (_iv((0, 2), (2, 4)), ['C', 'G'], _iv((0, 2), (2, 6)), ['C', 'G']),
    'est_shorter': lambda: (_iv((0, 2), (2, 4)), ['C', 'G'], _iv((0, 1), (1, 3)), ['C', 'G']),
    'est_boundary_at_ref_end': lambda: (_iv((0, 2), (2, 4)), ['C', 'G'], _iv((0, 2), (2, 4), (4, 6)), ['C', 'G', 'A']),
    'est_boundary_at_ref_start': lambda: (_iv((2, 3), (3, 4)), ['C', 'G'], _iv((0, 2), (2, 4)), ['C', 'G']),
    'est_ends_at_ref_start': lambda: (_iv((2, 3), (3, 4)), ['C', 'G'], _iv((0, 1), (1, 2)), ['C', 'G']),
    'est_starts_at_ref_end': lambda: (_iv((0, 2), (2, 4)), ['C', 'G'], _iv((4, 5), (5, 6)), ['C', 'G']),
    'est_wholly_before': lambda: (_iv((5, 6), (6, 7)), ['C', 'G'], _iv((0, 1), (1, 2)), ['C', 'G']),
    'est_wholly_after': lambda: (_iv((0, 1), (1, 2)), ['C', 'G'], _iv((5, 6), (6, 7)), ['C', 'G']),
    'gapped_est': lambda: (_iv((0, 2), (2, 4)), ['C', 'G'], _iv((0, 1), (2, 4)), ['C', 'G']),
    'gapped_ref': lambda: (_iv((0, 1), (2, 4)), ['C', 'G'], _iv((0, 2), (2, 4)), ['C', 'G']),
    'ref_not_at_zero': lambda: (_iv((10, 12), (12, 14)), ['C', 'G'], _iv((10, 11), (11, 14)), ['C', 'G']),
}
_H1 = lambda: [_iv((0, 4))]  # noqa
_H2 = lambda: [_iv((0, 2), (2, 4)), _iv((0, 1), (1, 2), (2, 3), (3, 4))]  # noqa
_L1 = lambda: [['a']]  # noqa
_L2 = lambda: [['a', 'b'], ['c', 'd', 'e', 'f']]  # noqa
SHAPES['hierarchy'] = {
    'single_level_single_segment': lambda: (_H1(), _L1(), _H1(), _L1()),
    'single_level_ref': lambda: (_H1(), _L1(), _H2(), _L2()),
    'single_level_est': lambda: (_H2(), _L2(), _H1(), _L1()),
    'duplicate_levels': lambda: ([_iv((0, 2), (2, 4))] * 2, [['a', 'b']] * 2, _H2(), _L2()),
    'duplicate_labels': lambda: (_H2(), [['a', 'a'], ['a', 'a', 'a', 'a']], _H2(), _L2()),
    'est_runs_longer': lambda: (_H2(), _L2(), [_iv((0, 2), (2, 6)), _iv((0, 3), (3, 6))], [['a', 'b'], ['c', 'd']]),
    'est_shorter': lambda: (_H2(), _L2(), [_iv((0, 1), (1, 3)), _iv((0, 2), (2, 3))], [['a', 'b'], ['c', 'd']]),
    'est_starts_later': lambda: (_H2(), _L2(), [_iv((1, 2), (2, 4)), _iv((1, 3), (3, 4))], [['a', 'b'], ['c', 'd']]),
    'est_boundary_at_ref_end': lambda: (_H2(), _L2(), [_iv((0, 4), (4, 6)), _iv((0, 2), (2, 4), (4, 6))], [['a', 'b'], ['c', 'd', 'e']]),
    'est_wholly_after': lambda: (_H2(), _L2(), [_iv((5, 6), (6, 7))], [['a', 'b']]),
    'short_annotation': lambda: ([_iv((0, 0.5))], [['a']], [_iv((0, 0.5))], [['a']]),
    'coarser_deeper_level': lambda: ([_iv((0, 1), (1, 2), (2, 4)), _iv((0, 4))], [['a', 'b', 'c'], ['d']], _H2(), _L2()),
}
_N = lambda: (_iv((0, 1), (1, 2), (2.5, 3)), _F(220, 440, 330))  # noqa
SHAPES['transcription'] = {
    'empty_ref': lambda: (E2(), E1()) + _N(),
    'empty_est': lambda: _N() + (E2(), E1()),
    'empty_both': lambda: (E2(), E1(), E2(), E1()),
    'single_note': lambda: (_iv((0, 1)), _F(220), _iv((0, 1)), _F(220)),
    'single_ref_note': lambda: (_iv((0, 1)), _F(220)) + _N(),
    'single_est_note': lambda: _N() + (_iv((0, 1)), _F(220)),
    'duplicate_notes': lambda: (_iv((0, 1), (0, 1), (0, 1)), _F(220, 220, 220), _iv((0, 1), (0, 1)), _F(220, 220)),
    'duplicate_onsets': lambda: (_iv((0, 1), (0, 2), (0, 3)), _F(220, 440, 330), _iv((0, 1), (0, 1)), _F(220, 440)),
    'est_starts_earlier': lambda: (_iv((2, 3), (3, 4)), _F(220, 440), _iv((0, 1), (2, 3), (3, 4)), _F(330, 220, 440)),
    'est_runs_longer': lambda: (_iv((0, 1), (1, 2)), _F(220, 440), _iv((0, 1), (1, 2), (5, 9)), _F(220, 440, 330)),
    'est_wholly_after': lambda: (_iv((0, 1), (1, 2)), _F(220, 440), _iv((5, 6), (6, 7)), _F(220, 440)),
    'unsorted_notes': lambda: (_iv((2, 3), (0, 1)), _F(220, 440), _iv((1, 2), (0, 1)), _F(220, 440)),
    'overlapping_notes': lambda: (_iv((0, 2), (1, 3)), _F(220, 440), _iv((0, 2), (1, 3)), _F(220, 440)),
}
_V = lambda *x: A(list(map(float, x)))  # noqa


def _with_vel(f, rv, ev):
    def g():
        ri, rp, ei, ep = f()
        return ri, rp, _V(*rv[:len(rp)]), ei, ep, _V(*ev[:len(ep)])
    return g


SHAPES['transcription_velocity'] = {k: _with_vel(f, [64, 100, 30], [64, 100, 30]) for k, f in SHAPES['transcription'].items()}
SHAPES['transcription_velocity'].update({
    'zero_velocities': _with_vel(SHAPES['transcription']['single_est_note'], [0, 0, 0], [0]),
    'equal_ref_velocities': _with_vel(lambda: _N() + _N(), [64, 64, 64], [20, 64, 100]),
    'equal_est_velocities': _with_vel(lambda: _N() + _N(), [20, 64, 100], [64, 64, 64]),
    'single_matched_note': _with_vel(SHAPES['transcription']['single_note'], [64], [100]),
})


def _sep(seed, nsrc, n, est_noise=0.1):
    r = np.random.RandomState(seed)
    ref = r.randn(nsrc, n)
    return ref, ref + est_noise * r.randn(nsrc, n)


SHAPES['separation'] = {
    'empty_both': lambda: (np.zeros((0, 0)), np.zeros((0, 0))),
    'single_source': lambda: _sep(1, 1, 1100),
    'single_source_1d': lambda: tuple(x[0] for x in _sep(2, 1, 1100)),
    'identical_sources': lambda: (_sep(3, 2, 2200)[0],) * 2,
    'duplicate_sources': lambda: (np.vstack([_sep(4, 1, 2200)[0]] * 2) + A([[0.0], [1e-3]]) * _sep(5, 2, 2200)[0], _sep(6, 2, 2200)[0]),
    'short_signal': lambda: _sep(7, 1, 600),
}


# metric-level degenerate inputs that evaluate()'s own preprocessing cannot produce (the metric's docstring defines the score)
DIRECT = {
    'melody': [
        ('empty_arrays', 'voicing_recall', lambda: (E1(), E1())),
        ('empty_arrays', 'voicing_false_alarm', lambda: (E1(), E1())),
        ('empty_arrays', 'voicing_measures', lambda: (E1(), E1())),
        ('empty_arrays', 'raw_pitch_accuracy', lambda: (E1(), E1(), E1(), E1())),
        ('empty_arrays', 'raw_chroma_accuracy', lambda: (E1(), E1(), E1(), E1())),
        ('empty_arrays', 'overall_accuracy', lambda: (E1(), E1(), E1(), E1())),
        ('single_frame_arrays', 'voicing_measures', lambda: (A([1.0]), A([0.0]))),
        ('single_frame_arrays', 'overall_accuracy', lambda: (A([1.0]), A([100.0]), A([0.0]), A([0.0]))),
        ('continuous_voicing', 'overall_accuracy', lambda: (A([1.0, 0.5, 0.0]), A([100.0, 200.0, 0.0]), A([0.25, 1.0, 0.75]), A([100.0, 250.0, 300.0]))),
        ('voicing_bounds', 'voicing_measures', lambda: (A([1.0, 0.0]), A([0.0, 1.0]))),
    ],
    'chord': [
        ('empty_label_lists', c, lambda: ([], [])) for c in CHORD_CMP
    ] + [
        ('single_label', c, lambda: (['C'], ['C'])) for c in CHORD_CMP
    ] + [
        ('empty_comparisons', 'weighted_accuracy', lambda: (E1(), E1())),
        ('zero_weights', 'weighted_accuracy', lambda: (A([1.0, 0.0]), A([0.0, 0.0]))),
        ('all_uncomparable', 'weighted_accuracy', lambda: (A([-1.0, -1.0]), A([1.0, 2.0]))),
        ('single_interval', 'seg', lambda: (_iv((0, 4)), _iv((0, 4)))),
        ('touching_intervals', 'directional_hamming_distance', lambda: (_iv((0, 2), (2, 4)), _iv((0, 1), (1, 4)))),
        ('gapped_intervals', 'seg', lambda: (_iv((0, 1), (2, 4)), _iv((0, 2), (3, 4)))),
        ('est_longer_than_ref', 'overseg', lambda: (_iv((0, 2), (2, 4)), _iv((0, 3), (3, 6)))),
        ('est_earlier_than_ref', 'underseg', lambda: (_iv((2, 3), (3, 4)), _iv((0, 3), (3, 4)))),
    ],
    'segment': [
        ('empty_trimmed', 'detection', lambda: (_iv((0, 4)), _iv((0, 4)))),
        ('single_segment_trim', 'deviation', lambda: (_iv((0, 4)), _iv((0, 2), (2, 4)))),
    ],
    'hierarchy': [
        ('window_equals_frame_size', 'tmeasure', lambda: (_H2(), _H2())),
        ('window_none', 'tmeasure', lambda: (_H2(), _H2())),
    ],
    'transcription': [
        ('empty_both', 'onset_precision_recall_f1', lambda: (E2(), E2())),
        ('empty_both', 'offset_precision_recall_f1', lambda: (E2(), E2())),
    ],
    'alignment': [
        ('duration_equals_last_timestamp', 'percentage_correct_segments', lambda: (A([1.0, 2.0, 3.0]), A([1.0, 2.5, 3.0]))),
        ('single_with_duration', 'percentage_correct_segments', lambda: (A([2.0]), A([2.5]))),
    ],
    'tempo': [
        ('tol_0', 'detection', lambda: (A([60.0, 120.0]), 0.5, A([60.0, 121.0]))),
        ('tol_1', 'detection', lambda: (A([60.0, 120.0]), 0.5, A([60.0, 121.0]))),
    ],
}
DIRECT_KW = {('segment', 'empty_trimmed'): {'trim': True}, ('segment', 'single_segment_trim'): {'trim': True},
             ('hierarchy', 'window_equals_frame_size'): {'window': 0.5, 'frame_size': 0.5}, ('hierarchy', 'window_none'): {'window': None},
             ('alignment', 'duration_equals_last_timestamp'): {'duration': 3.0}, ('alignment', 'single_with_duration'): {'duration': 4.0},
             ('tempo', 'tol_0'): {'tol': 0.0}, ('tempo', 'tol_1'): {'tol': 1.0}}


def check_direct(module):
    M = mod(module)
    out = []
    for sname, fname, mk in DIRECT.get(module, []):
        a = mk()
        kw = DIRECT_KW.get((module, sname), {})
        r = run(getattr(M, fname), _copy(tuple(a)), kw)
        if r[0] == 'exc':
            out.append(finding(module, 'shape:' + sname, fname, 'valid input: the call returns a result and does not raise',
                               call_text(module, fname, a, kw), r[1] + ': ' + r[2], 'raised on input satisfying the documented conventions'))
    return out


def random_valid(module, rng):
    return G.TASKS[module](rng)


# ------------------------------------------------------------------------------------------------------------------
# check_valid
# ------------------------------------------------------------------------------------------------------------------

def _copy(x):
    if isinstance(x, np.ndarray):
        return x.copy()
    if isinstance(x, list):
        return [_copy(y) for y in x]
    if isinstance(x, tuple):
        return tuple(_copy(y) for y in x)
    return x


def check_valid(module, args, shape=None, entries=None):
    """-> list of findings: entry points that raise on this valid input.  A derivation step (the documented preprocessing in
    front of a metric function) that raises is reported once, under the name of the preprocessing function."""
    M = mod(module)
    kind = 'shape:%s' % (shape or 'random')
    out = []
    derived = {}
    for fname, group in (entries or ENTRY[module]):
        if group not in derived:
            derived[group] = run(DERIVE[module][group], (_copy(tuple(args)),))
            if derived[group][0] == 'exc' and group != 'ev':
                out.append(finding(module, kind, 'preprocess[%s]' % group, 'valid input: the documented preprocessing does not raise',
                                   'DERIVE[%r][%r](%s)' % (module, group, py(list(args))), derived[group][1] + ': ' + derived[group][2],
                                   'the pipeline that evaluate() / the docstring example places in front of the metric raised'))
        d = derived[group]
        if d[0] == 'exc':
            continue
        cargs, kw = d[1]
        r = run(getattr(M, fname), _copy(tuple(cargs)), kw)
        if r[0] == 'exc':
            out.append(finding(module, kind, fname, 'valid input: the call returns a result and does not raise',
                               call_text(module, fname, cargs, kw), r[1] + ': ' + r[2], 'raised on input satisfying the documented conventions'))
    return out


# ------------------------------------------------------------------------------------------------------------------
# faults.  FAULTS[module] = [(name, group, mutator, expected, functions or None)]
#   mutator(call_args(list), rng) -> corrupted positional args (list) | (args, kwargs) | None when not applicable
#   expected = 'ValueError' | 'InvalidChordException';  functions: names of the entry points of that group receiving the fault
#   (None = all of the group)
# ------------------------------------------------------------------------------------------------------------------

def setarg(i, f):
    def m(a, rng):
        v = f(_copy(a[i]), rng)
        if v is None:
            return None
        a = list(a)
        a[i] = v
        return a
    return m


def ev_unsorted(x, rng):
    if len(x) < 2 or x[0] == x[-1]:
        return None
    return x[::-1].copy()


def ev_2d(x, rng):
    return x.reshape(1, -1) if len(x) else None


def ev_2d_col(x, rng):
    return x.reshape(-1, 1) if len(x) else None


def ev_too_large(x, rng):
    return np.append(x, 30000.5)


def ev_negative(x, rng):
    return np.insert(x, 0, -1.0)


def iv_negative(x, rng):
    if len(x) == 0:
        return A([[-1.0, 1.0]])
    x = x.copy()
    j = int(np.argmin(x[:, 0]))
    x[j, 0] = -0.5
    return x


def iv_zero_dur(x, rng):
    if len(x) == 0:
        return A([[1.0, 1.0]])
    x = x.copy()
    j = rng.randrange(len(x)) if rng else 0
    x[j, 1] = x[j, 0]
    return x


def iv_neg_dur(x, rng):
    if len(x) == 0:
        return A([[2.0, 1.0]])
    x = x.copy()
    j = rng.randrange(len(x)) if rng else 0
    x[j] = x[j][::-1]
    return x


def iv_n_by_3(x, rng):
    if len(x) == 0:
        return np.zeros((0, 3))
    return np.hstack([x, x[:, 1:] + 1.0])


def iv_n_by_1(x, rng):
    return x[:, :1] if len(x) else np.zeros((0, 1))


def iv_1d(x, rng):
    return x.ravel() if len(x) else None


def iv_3d(x, rng):
    return x[None, :, :] if len(x) else None


def iv_overlap(x, rng):
    if len(x) < 2:
        return None
    x = x.copy()
    x[0, 1] = x[1, 0] + (x[1, 1] - x[1, 0]) / 2.0     # first interval runs into the second
    return x


def drop_last(x, rng):
    if len(x) == 0:
        return None
    return x[:-1] if not isinstance(x, list) else x[:-1]


def add_one(v):
    def f(x, rng):
        if isinstance(x, list):
            return x + [_copy(v)]
        return np.append(x, v)
    return f


def set_elem(v):
    def f(x, rng):
        if len(x) == 0:
            return None
        x = _copy(x)
        x[rng.randrange(len(x)) if rng else 0] = v
        return x
    return f


def events_faults(extra=()):
    fl = []
    for i, side in ((0, 'ref'), (1, 'est')):
        fl += [(side + '_unsorted', 'ev', setarg(i, ev_unsorted), 'ValueError', None),
               (side + '_2d_row', 'ev', setarg(i, ev_2d), 'ValueError', None),
               (side + '_2d_column', 'ev', setarg(i, ev_2d_col), 'ValueError', None),
               (side + '_too_large', 'ev', setarg(i, ev_too_large), 'ValueError', None)]
    return fl + list(extra)


def with_kw(**kw):
    def m(a, rng):
        return (list(a), kw)
    return m


FAULTS = {}
FAULTS['beat'] = events_faults()
FAULTS['onset'] = events_faults()
FAULTS['alignment'] = [
    ('ref_unsorted', 'ev', setarg(0, ev_unsorted), 'ValueError', None),
    ('est_unsorted', 'ev', setarg(1, ev_unsorted), 'ValueError', None),
    ('ref_2d_row', 'ev', setarg(0, ev_2d), 'ValueError', None),
    ('est_2d_row', 'ev', setarg(1, ev_2d), 'ValueError', None),
    ('ref_2d_column', 'ev', setarg(0, ev_2d_col), 'ValueError', None),
    ('est_2d_column', 'ev', setarg(1, ev_2d_col), 'ValueError', None),
    ('ref_negative', 'ev', setarg(0, lambda x, r: np.concatenate([[-1.0], x[1:]])), 'ValueError', None),
    ('est_negative', 'ev', setarg(1, lambda x, r: np.concatenate([[-1.0], x[1:]])), 'ValueError', None),
    ('unequal_length_est_longer', 'ev', setarg(1, lambda x, r: np.append(x, x[-1] + 1.0)), 'ValueError', None),
    ('unequal_length_est_shorter', 'ev', setarg(1, lambda x, r: x[:-1]), 'ValueError', None),
    ('empty_ref', 'ev', lambda a, r: [E1(), E1()], 'ValueError', None),
    ('ref_not_ndarray', 'ev', setarg(0, lambda x, r: x.tolist()), 'ValueError', None),
    ('est_not_ndarray', 'ev', setarg(1, lambda x, r: x.tolist()), 'ValueError', None),
    ('duration_non_positive', 'ev', with_kw(duration=0.0), 'ValueError', ['percentage_correct_segments']),
    ('duration_below_last_timestamp', 'ev', lambda a, r: (list(a), {'duration': float(max(a[0].max(), a[1].max())) - 0.25}), 'ValueError',
     ['percentage_correct_segments']),
]
FAULTS['tempo'] = [
    ('ref_one_tempo', 'ev', setarg(0, lambda x, r: x[:1]), 'ValueError', None),
    ('ref_three_tempi', 'ev', setarg(0, lambda x, r: np.append(x, 100.0)), 'ValueError', None),
    ('est_one_tempo', 'ev', setarg(2, lambda x, r: x[:1]), 'ValueError', None),
    ('est_three_tempi', 'ev', setarg(2, lambda x, r: np.append(x, 100.0)), 'ValueError', None),
    ('est_empty', 'ev', setarg(2, lambda x, r: E1()), 'ValueError', None),
    ('ref_negative_tempo', 'ev', setarg(0, set_elem(-60.0)), 'ValueError', None),
    ('est_negative_tempo', 'ev', setarg(2, set_elem(-60.0)), 'ValueError', None),
    ('ref_nan_tempo', 'ev', setarg(0, set_elem(float('nan'))), 'ValueError', None),
    ('est_nan_tempo', 'ev', setarg(2, set_elem(float('nan'))), 'ValueError', None),
    ('ref_inf_tempo', 'ev', setarg(0, set_elem(float('inf'))), 'ValueError', None),
    ('est_inf_tempo', 'ev', setarg(2, set_elem(float('inf'))), 'ValueError', None),
    ('ref_all_zero', 'ev', setarg(0, lambda x, r: A([0.0, 0.0])), 'ValueError', None),
    ('weight_negative', 'ev', setarg(1, lambda x, r: -0.25), 'ValueError', None),
    ('weight_above_one', 'ev', setarg(1, lambda x, r: 1.25), 'ValueError', None),
    ('weight_nan', 'ev', setarg(1, lambda x, r: float('nan')), 'ValueError', None),
    ('tol_negative', 'ev', with_kw(tol=-0.125), 'ValueError', None),
    ('tol_above_one', 'ev', with_kw(tol=1.125), 'ValueError', None),
    ('ref_2d', 'ev', setarg(0, lambda x, r: x.reshape(1, 2)), 'ValueError', None),
]
BAD_KEYS = ['C', 'major', '', ' ', 'C major minor', 'H major', 'C maj', 'C Major', 'X major', 'x minor', 'C# ', 'Cb major', 'E# minor',
            'C-major', 'C  ', 'X X', 'c', 'C:major', 'Cmajor', 'C mixolydian', 'C\nmajor\nx']
FAULTS['key'] = [('ref_malformed[%s]' % k, 'ev', setarg(0, (lambda k: lambda x, r: k)(k)), 'ValueError', None) for k in BAD_KEYS] + \
                [('est_malformed[%s]' % k, 'ev', setarg(1, (lambda k: lambda x, r: k)(k)), 'ValueError', None) for k in BAD_KEYS]


def pat_no_occ(x, rng):
    return _copy(x) + [[]]


def pat_tuple3(x, rng):
    if not x:
        return [[[(0.0, 60.0, 1.0)]]]
    x = [[[tuple(n) for n in o] for o in p] for p in x]
    x[-1][-1][-1] = x[-1][-1][-1] + (1.0,)
    return x


def pat_tuple1(x, rng):
    if not x:
        return [[[(0.0,)]]]
    x = [[[tuple(n) for n in o] for o in p] for p in x]
    x[0][0][0] = x[0][0][0][:1]
    return x


FAULTS['pattern'] = [
    ('ref_pattern_without_occurrence', 'ev', setarg(0, pat_no_occ), 'ValueError', None),
    ('est_pattern_without_occurrence', 'ev', setarg(1, pat_no_occ), 'ValueError', None),
    ('ref_note_3_tuple', 'ev', setarg(0, pat_tuple3), 'ValueError', None),
    ('est_note_3_tuple', 'ev', setarg(1, pat_tuple3), 'ValueError', None),
    ('ref_note_1_tuple', 'ev', setarg(0, pat_tuple1), 'ValueError', None),
    ('est_note_1_tuple', 'ev', setarg(1, pat_tuple1), 'ValueError', None),
]


def mp_freq(v):
    def f(x, rng):
        if not x:
            return None
        x = _copy(x)
        j = rng.randrange(len(x)) if rng else 0
        x[j] = np.append(x[j], v)
        return x
    return f


def mp_freq_2d(x, rng):
    for j, f in enumerate(x):
        if len(f):
            x = _copy(x)
            x[j] = x[j].reshape(1, -1)
            return x
    return None


FAULTS['multipitch'] = []
for i, side in ((0, 'ref'), (2, 'est')):
    FAULTS['multipitch'] += [
        (side + '_time_unsorted', 'ev', setarg(i, ev_unsorted), 'ValueError', None),
        (side + '_time_2d_row', 'ev', setarg(i, ev_2d), 'ValueError', None),
        (side + '_time_2d_column', 'ev', setarg(i, ev_2d_col), 'ValueError', None),
        (side + '_time_too_large', 'ev', (lambda i: lambda a, r: a[:i] + [np.append(a[i], 30000.5), a[i + 1] + [E1()]] + a[i + 2:])(i),
         'ValueError', None),
        (side + '_more_times_than_freqs', 'ev', setarg(i, lambda x, r: np.append(x, (x[-1] if len(x) else 0.0) + 1.0)), 'ValueError', None),
        (side + '_more_freqs_than_times', 'ev', setarg(i + 1, add_one(A([220.0]))), 'ValueError', None),
        (side + '_freq_too_high', 'ev', setarg(i + 1, mp_freq(5000.5)), 'ValueError', None),
        (side + '_freq_too_low', 'ev', setarg(i + 1, mp_freq(19.5)), 'ValueError', None),
        (side + '_freq_zero', 'ev', setarg(i + 1, mp_freq(0.0)), 'ValueError', None),
        (side + '_freq_negative', 'ev', setarg(i + 1, mp_freq(-220.0)), 'ValueError', None),
        (side + '_freq_negative_too_high', 'ev', setarg(i + 1, mp_freq(-6000.0)), 'ValueError', None),
        (side + '_freq_2d', 'ev', setarg(i + 1, mp_freq_2d), 'ValueError', None),
    ]


def interval_faults(i, side, group, fns=None, overlap=False):
    fl = [(side + '_negative_time', group, setarg(i, iv_negative), 'ValueError', fns),
          (side + '_zero_duration', group, setarg(i, iv_zero_dur), 'ValueError', fns),
          (side + '_negative_duration', group, setarg(i, iv_neg_dur), 'ValueError', fns),
          (side + '_n_by_3', group, setarg(i, iv_n_by_3), 'ValueError', fns),
          (side + '_n_by_1', group, setarg(i, iv_n_by_1), 'ValueError', fns),
          (side + '_1d', group, setarg(i, iv_1d), 'ValueError', fns),
          (side + '_3d', group, setarg(i, iv_3d), 'ValueError', fns)]
    if overlap:
        fl.append((side + '_overlapping', group, setarg(i, iv_overlap), 'ValueError', fns))
    return fl


FAULTS['transcription'] = (
    interval_faults(0, 'ref', 'ev') + interval_faults(2, 'est', 'ev') + interval_faults(0, 'ref', 'iv') + interval_faults(1, 'est', 'iv') + [
        ('ref_fewer_pitches', 'ev', setarg(1, drop_last), 'ValueError', None),
        ('ref_more_pitches', 'ev', setarg(1, add_one(220.0)), 'ValueError', None),
        ('est_fewer_pitches', 'ev', setarg(3, drop_last), 'ValueError', None),
        ('est_more_pitches', 'ev', setarg(3, add_one(220.0)), 'ValueError', None),
        ('ref_zero_pitch', 'ev', setarg(1, set_elem(0.0)), 'ValueError', None),
        ('ref_negative_pitch', 'ev', setarg(1, set_elem(-220.0)), 'ValueError', None),
        ('est_zero_pitch', 'ev', setarg(3, set_elem(0.0)), 'ValueError', None),
        ('est_negative_pitch', 'ev', setarg(3, set_elem(-220.0)), 'ValueError', None),
    ])
FAULTS['transcription_velocity'] = (
    interval_faults(0, 'ref', 'ev') + interval_faults(3, 'est', 'ev') + [
        ('ref_fewer_pitches', 'ev', setarg(1, drop_last), 'ValueError', None),
        ('est_more_pitches', 'ev', setarg(4, add_one(220.0)), 'ValueError', None),
        ('ref_zero_pitch', 'ev', setarg(1, set_elem(0.0)), 'ValueError', None),
        ('est_negative_pitch', 'ev', setarg(4, set_elem(-220.0)), 'ValueError', None),
        ('ref_fewer_velocities', 'ev', setarg(2, drop_last), 'ValueError', None),
        ('ref_more_velocities', 'ev', setarg(2, add_one(64.0)), 'ValueError', None),
        ('est_fewer_velocities', 'ev', setarg(5, drop_last), 'ValueError', None),
        ('est_more_velocities', 'ev', setarg(5, add_one(64.0)), 'ValueError', None),
        ('ref_negative_velocity', 'ev', setarg(2, set_elem(-1.0)), 'ValueError', None),
        ('est_negative_velocity', 'ev', setarg(5, set_elem(-1.0)), 'ValueError', None),
    ])


def lab_set(v):
    def f(x, rng):
        if len(x) == 0:
            return None
        x = list(x)
        x[rng.randrange(len(x)) if rng else 0] = v
        return x
    return f


BAD_CHORDS = ['', 'H', 'C:', 'C:foo', 'c', 'C::maj', 'C/', 'C:maj/', 'C:(3', 'C:maj(3,)', 'N:maj', 'C:maj7/b', 'C#b', 'C:maj\n', ' C', 'C ',
              'C:MAJ', 'Cmaj', 'C:(14)', 'C/0', 'n', 'NC']
SEG_FNS = ['directional_hamming_distance', 'overseg', 'underseg', 'seg']
FAULTS['chord'] = (
    [('ref_label_malformed[%s]' % c, 'lab', setarg(0, lab_set(c)), 'InvalidChordException', None) for c in BAD_CHORDS] +
    [('est_label_malformed[%s]' % c, 'lab', setarg(1, lab_set(c)), 'InvalidChordException', None) for c in BAD_CHORDS] +
    [('ref_label_malformed[%s]' % c, 'ev', setarg(1, lab_set(c)), 'InvalidChordException', None) for c in BAD_CHORDS] +
    [('est_label_malformed[%s]' % c, 'ev', setarg(3, lab_set(c)), 'InvalidChordException', None) for c in BAD_CHORDS] +
    [('labels_unequal_ref_longer', 'lab', setarg(0, add_one('C')), 'ValueError', None),
     ('labels_unequal_est_longer', 'lab', setarg(1, add_one('C')), 'ValueError', None),
     ('labels_unequal_est_empty', 'lab', setarg(1, lambda x, r: []), 'ValueError', None),
     ('weights_negative', 'wacc', setarg(1, set_elem(-1.0)), 'ValueError', None),
     ('weights_more_than_comparisons', 'wacc', setarg(1, add_one(1.0)), 'ValueError', None),
     ('weights_fewer_than_comparisons', 'wacc', setarg(1, drop_last), 'ValueError', None)] +
    interval_faults(0, 'ref', 'seg', overlap=True) + interval_faults(1, 'est', 'seg', overlap=True) +
    interval_faults(0, 'ref', 'ev', overlap=True) + interval_faults(2, 'est', 'ev', overlap=True) +
    [('ref_fewer_labels', 'ev', setarg(1, drop_last), 'ValueError', None),
     ('ref_more_labels', 'ev', setarg(1, add_one('C')), 'ValueError', None),
     ('est_fewer_labels', 'ev', setarg(3, drop_last), 'ValueError', None),
     ('est_more_labels', 'ev', setarg(3, add_one('C')), 'ValueError', None)])


def seg_shift(x, rng):
    return x + 0.5 if len(x) else None


def seg_longer(x, rng):
    if len(x) == 0:
        return None
    x = x.copy()
    x[-1, 1] += 0.5
    return x


STRUCT = ['pairwise', 'rand_index', 'ari', 'mutual_information', 'nce', 'vmeasure']
FAULTS['segment'] = (
    interval_faults(0, 'ref', 'adjbnd') + interval_faults(1, 'est', 'adjbnd') +
    interval_faults(0, 'ref', 'adj') + interval_faults(2, 'est', 'adj') +
    interval_faults(0, 'ref', 'ev') + interval_faults(2, 'est', 'ev') + [
        ('ref_fewer_labels', 'adj', setarg(1, drop_last), 'ValueError', None),
        ('ref_more_labels', 'adj', setarg(1, add_one('z')), 'ValueError', None),
        ('est_fewer_labels', 'adj', setarg(3, drop_last), 'ValueError', None),
        ('est_more_labels', 'adj', setarg(3, add_one('z')), 'ValueError', None),
        ('ref_fewer_labels', 'ev', setarg(1, drop_last), 'ValueError', None),
        ('ref_more_labels', 'ev', setarg(1, add_one('z')), 'ValueError', None),
        ('est_fewer_labels', 'ev', setarg(3, drop_last), 'ValueError', None),
        ('est_more_labels', 'ev', setarg(3, add_one('z')), 'ValueError', None),
        ('ref_not_starting_at_0', 'adj', setarg(0, seg_shift), 'ValueError', None),
        ('est_not_starting_at_0', 'adj', lambda a, r: None if not len(a[2]) or not len(a[0]) else
         [a[0], a[1], np.vstack([a[2][:-1] + 0.5, [[a[2][-1, 0] + 0.5, a[2][-1, 1]]]]) if a[2][-1, 1] - a[2][-1, 0] > 0.5 else None, a[3]],
         'ValueError', None),
        ('end_times_differ', 'adj', lambda a, r: None if not len(a[2]) or not len(a[0]) else [a[0], a[1], seg_longer(a[2], r), a[3]],
         'ValueError', None),
    ])


def hier_level(f, lvl=-1):
    def g(x, rng):
        x = [y.copy() for y in x]
        v = f(x[lvl], rng)
        if v is None:
            return None
        x[lvl] = v
        return x
    return g


def hier_need2(f):
    def g(x, rng):
        return f(x, rng) if len(x) >= 2 else None
    return g


def hier_faults(group, iref, iest):
    fl = []
    for i, side in ((iref, 'ref'), (iest, 'est')):
        fl += [
            (side + '_level_not_starting_at_0', group, setarg(i, hier_need2(hier_level(seg_shift))), 'ValueError', None),
            (side + '_level_ends_later_than_top', group, setarg(i, hier_need2(hier_level(seg_longer))), 'ValueError', None),
            (side + '_negative_time', group, setarg(i, hier_need2(hier_level(iv_negative))), 'ValueError', None),
            (side + '_zero_duration', group, setarg(i, hier_need2(hier_level(iv_zero_dur))), 'ValueError', None),
            (side + '_negative_duration', group, setarg(i, hier_need2(hier_level(iv_neg_dur))), 'ValueError', None),
            (side + '_n_by_3', group, setarg(i, hier_need2(hier_level(iv_n_by_3))), 'ValueError', None),
            (side + '_top_zero_duration', group, setarg(i, hier_level(iv_zero_dur, 0)), 'ValueError', None),
            (side + '_top_negative_time', group, setarg(i, hier_level(iv_negative, 0)), 'ValueError', None),
            (side + '_top_not_starting_at_0', group, setarg(i, lambda x, r: [y + 0.5 for y in x]), 'ValueError', None),
        ]
    fl += [('frame_size_zero', group, with_kw(frame_size=0.0), 'ValueError', None),
           ('frame_size_negative', group, with_kw(frame_size=-0.5), 'ValueError', None)]
    return fl


FAULTS['hierarchy'] = (
    hier_faults('iv', 0, 1) + hier_faults('lm', 0, 2) + hier_faults('ev', 0, 2) + [
        ('frame_size_above_window', 'iv', with_kw(frame_size=1.0, window=0.5), 'ValueError', ['tmeasure']),
        ('frame_size_above_window', 'ev', with_kw(frame_size=1.0, window=0.5), 'ValueError', ['evaluate']),
        ('window_zero', 'iv', with_kw(window=0.0), 'ValueError', ['tmeasure']),
        ('ref_fewer_labels', 'ev', setarg(1, lambda x, r: [list(y) for y in x[:-1]] + [list(x[-1][:-1])]), 'ValueError', None),
        ('est_more_labels', 'ev', setarg(3, lambda x, r: [list(y) for y in x[:-1]] + [list(x[-1]) + ['z']]), 'ValueError', None),
        ('ref_fewer_label_levels', 'ev', setarg(1, lambda x, r: [list(y) for y in x[:-1]] if len(x) > 1 else None), 'ValueError', None),
        ('ref_fewer_labels', 'lm', setarg(1, lambda x, r: [list(y) for y in x[:-1]] + [list(x[-1][:-1])]), 'ValueError', None),
        ('est_more_labels', 'lm', setarg(3, lambda x, r: [list(y) for y in x[:-1]] + [list(x[-1]) + ['z']]), 'ValueError', None),
        ('ref_fewer_label_levels', 'lm', setarg(1, lambda x, r: [list(y) for y in x[:-1]] if len(x) > 1 else None), 'ValueError', None),
        ('est_different_depth', 'iv', setarg(1, lambda x, r: [y.copy() for y in x] + [x[-1].copy()]), None, None),   # allowed: no fault
    ])
FAULTS['hierarchy'] = [f for f in FAULTS['hierarchy'] if f[3] is not None]

FAULTS['melody'] = [
    ('voicing_unequal_est_longer', 'v', setarg(1, add_one(1.0)), 'ValueError', None),
    ('voicing_unequal_est_shorter', 'v', setarg(1, drop_last), 'ValueError', None),
    ('ref_voicing_above_1', 'v', setarg(0, set_elem(1.5)), 'ValueError', None),
    ('ref_voicing_negative', 'v', setarg(0, set_elem(-0.5)), 'ValueError', None),
    ('est_voicing_above_1', 'v', setarg(1, set_elem(1.5)), 'ValueError', None),
    ('est_voicing_negative', 'v', setarg(1, set_elem(-0.5)), 'ValueError', None),
    ('voicing_unequal_est_longer', 'cv', lambda a, r: [a[0], a[1], np.append(a[2], 1.0), np.append(a[3], 100.0)], 'ValueError', None),
    ('ref_voicing_above_1', 'cv', setarg(0, set_elem(1.5)), 'ValueError', None),
    ('est_voicing_negative', 'cv', setarg(2, set_elem(-0.5)), 'ValueError', None),
    ('ref_cent_longer', 'cv', setarg(1, add_one(100.0)), 'ValueError', None),
    ('ref_cent_shorter', 'cv', setarg(1, drop_last), 'ValueError', None),
    ('est_cent_longer', 'cv', setarg(3, add_one(100.0)), 'ValueError', None),
    ('est_cent_shorter', 'cv', setarg(3, drop_last), 'ValueError', None),
    ('est_voicing_kw_above_1', 'ev', lambda a, r: (list(a), {'est_voicing': np.full(len(a[3]), 1.5)}), 'ValueError', None),
    ('est_voicing_kw_negative', 'ev', lambda a, r: (list(a), {'est_voicing': np.full(len(a[3]), -0.5)}), 'ValueError', None),
    ('est_voicing_kw_wrong_length', 'ev', lambda a, r: (list(a), {'est_voicing': np.ones(len(a[3]) + 1)}), 'ValueError', None),
    ('ref_reward_kw_above_1', 'ev', lambda a, r: (list(a), {'ref_reward': np.full(len(a[1]), 1.5)}), 'ValueError', None),
    ('ref_more_times_than_freqs', 'ev', setarg(0, lambda x, r: np.append(x, x[-1] + 0.125) if len(x) else None), 'ValueError', None),
    ('est_more_freqs_than_times', 'ev', setarg(3, add_one(220.0)), 'ValueError', None),
    ('ref_time_unsorted', 'ev', setarg(0, ev_unsorted), 'ValueError', None),
    ('est_time_unsorted', 'ev', setarg(2, ev_unsorted), 'ValueError', None),
]


def sep_silent(x, rng):
    if x.size == 0:
        return None
    x = x.copy()
    if x.ndim == 1:
        x[:] = 0.0
    else:
        x[-1] = 0.0
    return x


FAULTS['separation'] = [
    ('shape_mismatch_samples', 'ev', setarg(1, lambda x, r: x[..., :-1] if x.size else None), 'ValueError', None),
    ('shape_mismatch_sources', 'ev', setarg(1, lambda x, r: np.vstack([x, x[:1]]) if x.ndim == 2 and x.size else None), 'ValueError', None),
    ('four_dimensional', 'ev', lambda a, r: None if a[0].ndim != 2 or not a[0].size else [a[0][:, :, None, None], a[1][:, :, None, None]],
     'ValueError', None),
    ('ref_silent_source', 'ev', setarg(0, sep_silent), 'ValueError', None),
    ('est_silent_source', 'ev', setarg(1, sep_silent), 'ValueError', None),
    ('too_many_sources', 'ev', lambda a, r: None if not a[0].size else [np.random.RandomState(0).randn(101, 64)] * 2, 'ValueError', None),
]


def check_faults(module, args, rng=None, only=None):
    """-> list of findings: (fault, entry point) pairs where the corrupted call returns a value or raises something else."""
    M = mod(module)
    rng = rng or random.Random(0)
    out = []
    derived = {}
    for name, group, mut, expected, fns in FAULTS[module]:
        if only and not name.startswith(only):
            continue
        if group not in derived:
            derived[group] = run(DERIVE[module][group], (_copy(tuple(args)),))
        d = derived[group]
        if d[0] == 'exc':
            continue                                   # reported by check_valid
        cargs, kw = d[1]
        m = run(mut, (list(_copy(tuple(cargs))), rng))
        if m[0] == 'exc' or m[1] is None:
            continue                                   # fault not applicable to this input
        bad = m[1]
        kw2 = dict(kw)
        if isinstance(bad, tuple):
            bad, extra = bad
            kw2.update(extra)
        if any(b is None for b in bad):
            continue
        for fname, g in ENTRY[module]:
            if g != group or (fns is not None and fname not in fns):
                continue
            r = run(getattr(M, fname), _copy(tuple(bad)), kw2)
            kind = 'fault:%s' % name
            if r[0] == 'ok':
                v = r[1]
                obs = repr(dict(v) if hasattr(v, 'items') else v)
                out.append(finding(module, kind, fname, 'invalid input (%s) is rejected with %s' % (name, expected),
                                   call_text(module, fname, bad, kw2), 'returned ' + obs[:300], 'accepted: a score is returned'))
            elif r[1] != expected:
                out.append(finding(module, kind, fname, 'invalid input (%s) raises only %s' % (name, expected),
                                   call_text(module, fname, bad, kw2), r[1] + ': ' + r[2], 'unrelated exception class'))
    return out


# ------------------------------------------------------------------------------------------------------------------
# KNOWN: failing combinations on the pinned tree.  Key = (module, kind, function) with kind/function allowed to be a
# prefix pattern ending in '*'.  Filled from a complete run of `search` (see the report); each entry carries one exact call.
# ------------------------------------------------------------------------------------------------------------------

KNOWN = {
    ('alignment', 'shape:all_identical', 'evaluate'): {
        'call': 'mir_eval.alignment.evaluate(np.array([2.0, 2.0, 2.0]), np.array([2.0, 2.0, 2.0]))',
        'observed': 'ValueError: Reference timestamps are all identical, can not compute PCS metric!',
        'cause': 'percentage_correct_segments needs two distinct reference timestamps (documented only in the error message)'},
    ('alignment', 'shape:all_identical', 'percentage_correct_segments'): {
        'call': 'mir_eval.alignment.percentage_correct_segments(np.array([2.0, 2.0, 2.0]), np.array([2.0, 2.0, 2.0]))',
        'observed': 'ValueError: Reference timestamps are all identical, can not compute PCS metric!',
        'cause': 'percentage_correct_segments needs two distinct reference timestamps (documented only in the error message)'},
    ('alignment', 'shape:single_both', 'evaluate'): {
        'call': 'mir_eval.alignment.evaluate(np.array([2.0]), np.array([2.5]))',
        'observed': 'ValueError: Reference timestamps are all identical, can not compute PCS metric!',
        'cause': 'percentage_correct_segments needs two distinct reference timestamps (documented only in the error message)'},
    ('alignment', 'shape:single_both', 'percentage_correct_segments'): {
        'call': 'mir_eval.alignment.percentage_correct_segments(np.array([2.0]), np.array([2.5]))',
        'observed': 'ValueError: Reference timestamps are all identical, can not compute PCS metric!',
        'cause': 'percentage_correct_segments needs two distinct reference timestamps (documented only in the error message)'},
    ('beat', 'fault:est_2d_column', 'evaluate'): {
        'call': 'mir_eval.beat.evaluate(np.array([6.71875, 6.78125, 12.15625, 13.875, 20.53125, 21.90625, 23.3125, 24.3125]), np.array([[6.71875], [6.78125], [12.15625], [13.875], [20.53125], [21.90625], [23.3125], [24.3125]]))',
        'observed': "returned {'F-measure': 1.0, 'Cemgil': np.float64(1.0), 'Cemgil Best Metric Level': np.float64(1.0), 'Goto': 1.0, 'P-score': np.float64(1.25), 'Correct Metric Level Continuous': np.float64(1.0), 'Corre",
        'cause': 'beat.evaluate trims with boolean indexing (flattens 2-d input, may trim the offending events away) before validate runs'},
    ('beat', 'fault:est_2d_row', 'evaluate'): {
        'call': 'mir_eval.beat.evaluate(np.array([6.71875, 6.78125, 12.15625, 13.875, 20.53125, 21.90625, 23.3125, 24.3125]), np.array([[6.71875, 6.78125, 12.15625, 13.875, 20.53125, 21.90625, 23.3125, 24.3125]]))',
        'observed': "returned {'F-measure': 1.0, 'Cemgil': np.float64(1.0), 'Cemgil Best Metric Level': np.float64(1.0), 'Goto': 1.0, 'P-score': np.float64(1.25), 'Correct Metric Level Continuous': np.float64(1.0), 'Corre",
        'cause': 'beat.evaluate trims with boolean indexing (flattens 2-d input, may trim the offending events away) before validate runs'},
    ('beat', 'fault:est_unsorted', 'evaluate'): {
        'call': 'mir_eval.beat.evaluate(np.array([1.0, 2.0, 3.0]), np.array([3.0, 2.0, 1.0]))',
        'observed': "returned {'F-measure': 0.0, 'Cemgil': 0.0, 'Cemgil Best Metric Level': 0.0, 'Goto': 0.0, 'P-score': 0.0, 'Correct Metric Level Continuous': 0.0, 'Correct Metric Level Total': 0.0, 'Any Metric Level Co",
        'cause': 'beat.evaluate trims with boolean indexing (flattens 2-d input, may trim the offending events away) before validate runs'},
    ('beat', 'fault:ref_2d_column', 'evaluate'): {
        'call': 'mir_eval.beat.evaluate(np.array([[6.71875], [6.78125], [12.15625], [13.875], [20.53125], [21.90625], [23.3125], [24.3125]]), np.array([6.71875, 6.78125, 12.15625, 13.875, 20.53125, 21.90625, 23.3125, 24.3125]))',
        'observed': "returned {'F-measure': 1.0, 'Cemgil': np.float64(1.0), 'Cemgil Best Metric Level': np.float64(1.0), 'Goto': 1.0, 'P-score': np.float64(1.25), 'Correct Metric Level Continuous': np.float64(1.0), 'Corre",
        'cause': 'beat.evaluate trims with boolean indexing (flattens 2-d input, may trim the offending events away) before validate runs'},
    ('beat', 'fault:ref_2d_row', 'evaluate'): {
        'call': 'mir_eval.beat.evaluate(np.array([[6.71875, 6.78125, 12.15625, 13.875, 20.53125, 21.90625, 23.3125, 24.3125]]), np.array([6.71875, 6.78125, 12.15625, 13.875, 20.53125, 21.90625, 23.3125, 24.3125]))',
        'observed': "returned {'F-measure': 1.0, 'Cemgil': np.float64(1.0), 'Cemgil Best Metric Level': np.float64(1.0), 'Goto': 1.0, 'P-score': np.float64(1.25), 'Correct Metric Level Continuous': np.float64(1.0), 'Corre",
        'cause': 'beat.evaluate trims with boolean indexing (flattens 2-d input, may trim the offending events away) before validate runs'},
    ('beat', 'fault:ref_unsorted', 'evaluate'): {
        'call': 'mir_eval.beat.evaluate(np.array([3.0, 2.0, 1.0]), np.array([1.0, 2.0, 3.0]))',
        'observed': "returned {'F-measure': 0.0, 'Cemgil': 0.0, 'Cemgil Best Metric Level': 0.0, 'Goto': 0.0, 'P-score': 0.0, 'Correct Metric Level Continuous': 0.0, 'Correct Metric Level Total': 0.0, 'Any Metric Level Co",
        'cause': 'beat.evaluate trims with boolean indexing (flattens 2-d input, may trim the offending events away) before validate runs'},
    ('beat', 'shape:all_identical', 'evaluate'): {
        'call': 'mir_eval.beat.evaluate(np.array([7.0, 7.0, 7.0]), np.array([7.0, 7.0, 7.0]))',
        'observed': 'ValueError: cannot convert float NaN to integer',
        'cause': 'p_score on beats that are all identical: median inter-beat interval 0 -> NaN window -> int(NaN)'},
    ('beat', 'shape:all_identical', 'p_score'): {
        'call': 'mir_eval.beat.p_score(np.array([7.0, 7.0, 7.0]), np.array([7.0, 7.0, 7.0]))',
        'observed': 'ValueError: cannot convert float NaN to integer',
        'cause': 'p_score on beats that are all identical: median inter-beat interval 0 -> NaN window -> int(NaN)'},
    ('chord', 'fault:est_1d', 'evaluate'): {
        'call': "mir_eval.chord.evaluate(np.array([[0.0, 4.0]]), ['D:sus4'], np.array([0.0, 4.0, 4.0, 5.5]), ['Db:1', 'B:hdim7'])",
        'observed': 'IndexError: too many indices for array: array is 1-dimensional, but 2 were indexed',
        'cause': 'evaluate() preprocesses (util.adjust_intervals / _align_intervals index intervals[:, 1] and labels) BEFORE util.validate_intervals runs'},
    ('chord', 'fault:est_3d', 'evaluate'): {
        'call': "mir_eval.chord.evaluate(np.array([[0.0, 4.0]]), ['Db:1'], np.array([[[0.0, 4.0]]]), ['Db:1'])",
        'observed': 'IndexError: index 1 is out of bounds for axis 1 with size 1',
        'cause': 'evaluate() preprocesses (util.adjust_intervals / _align_intervals index intervals[:, 1] and labels) BEFORE util.validate_intervals runs'},
    ('chord', 'fault:est_fewer_labels', 'evaluate'): {
        'call': "mir_eval.chord.evaluate(np.array([[0.0, 4.0]]), ['D:sus4'], np.array([[0.0, 4.0], [4.0, 5.5]]), ['Db:1'])",
        'observed': "returned {'thirds': np.float64(0.0), 'thirds_inv': np.float64(0.0), 'triads': np.float64(0.0), 'triads_inv': np.float64(0.0), 'tetrads': np.float64(0.0), 'tetrads_inv': np.float64(0.0), 'root': np.flo",
        'cause': 'evaluate() crops / pads the annotations (util.adjust_intervals) BEFORE any validator runs: the fault is cut away or re-labelled instead of rejected'},
    ('chord', 'fault:est_label_malformed*', 'evaluate'): {
        'call': "mir_eval.chord.evaluate(np.array([[0.0, 4.0]]), ['D:sus4'], np.array([[0.0, 4.0], [4.0, 5.5]]), ['Db:1', ''])",
        'observed': "returned {'thirds': np.float64(0.0), 'thirds_inv': np.float64(0.0), 'triads': np.float64(0.0), 'triads_inv': np.float64(0.0), 'tetrads': np.float64(0.0), 'tetrads_inv': np.float64(0.0), 'root': np.flo",
        'cause': 'evaluate() crops / pads the annotations (util.adjust_intervals) BEFORE any validator runs: the fault is cut away or re-labelled instead of rejected'},
    ('chord', 'fault:est_more_labels', 'evaluate'): {
        'call': "mir_eval.chord.evaluate(np.array([[0.0, 4.0]]), ['D:sus4'], np.array([[0.0, 4.0], [4.0, 5.5]]), ['Db:1', 'B:hdim7', 'C'])",
        'observed': "returned {'thirds': np.float64(0.0), 'thirds_inv': np.float64(0.0), 'triads': np.float64(0.0), 'triads_inv': np.float64(0.0), 'tetrads': np.float64(0.0), 'tetrads_inv': np.float64(0.0), 'root': np.flo",
        'cause': 'evaluate() crops / pads the annotations (util.adjust_intervals) BEFORE any validator runs: the fault is cut away or re-labelled instead of rejected'},
    ('chord', 'fault:est_n_by_1', 'evaluate'): {
        'call': "mir_eval.chord.evaluate(np.array([[0.0, 4.0]]), ['D:sus4'], np.array([[0.0], [4.0]]), ['Db:1', 'B:hdim7'])",
        'observed': 'IndexError: index 1 is out of bounds for axis 1 with size 1',
        'cause': 'evaluate() preprocesses (util.adjust_intervals / _align_intervals index intervals[:, 1] and labels) BEFORE util.validate_intervals runs'},
    ('chord', 'fault:est_n_by_3', 'evaluate'): {
        'call': "mir_eval.chord.evaluate(np.array([[0.0, 2.0], [2.0, 4.0]]), ['C', 'G:7'], np.zeros((0, 3)), [])",
        'observed': "returned {'thirds': np.float64(0.0), 'thirds_inv': np.float64(0.0), 'triads': np.float64(0.0), 'triads_inv': np.float64(0.0), 'tetrads': np.float64(0.0), 'tetrads_inv': np.float64(0.0), 'root': np.flo",
        'cause': 'evaluate() crops / pads the annotations (util.adjust_intervals) BEFORE any validator runs: the fault is cut away or re-labelled instead of rejected'},
    ('chord', 'fault:est_negative_duration', 'evaluate'): {
        'call': "mir_eval.chord.evaluate(np.array([[0.0, 4.0]]), ['D:sus4'], np.array([[4.0, 0.0], [4.0, 5.5]]), ['Db:1', 'B:hdim7'])",
        'observed': "returned {'thirds': np.float64(0.0), 'thirds_inv': np.float64(0.0), 'triads': np.float64(0.0), 'triads_inv': np.float64(0.0), 'tetrads': np.float64(0.0), 'tetrads_inv': np.float64(0.0), 'root': np.flo",
        'cause': 'evaluate() crops / pads the annotations (util.adjust_intervals) BEFORE any validator runs: the fault is cut away or re-labelled instead of rejected'},
    ('chord', 'fault:est_negative_time', 'evaluate'): {
        'call': "mir_eval.chord.evaluate(np.array([[0.0, 4.0]]), ['D:sus4'], np.array([[-0.5, 4.0], [4.0, 5.5]]), ['Db:1', 'B:hdim7'])",
        'observed': "returned {'thirds': np.float64(0.0), 'thirds_inv': np.float64(0.0), 'triads': np.float64(0.0), 'triads_inv': np.float64(0.0), 'tetrads': np.float64(0.0), 'tetrads_inv': np.float64(0.0), 'root': np.flo",
        'cause': 'evaluate() crops / pads the annotations (util.adjust_intervals) BEFORE any validator runs: the fault is cut away or re-labelled instead of rejected'},
    ('chord', 'fault:est_overlapping', 'directional_hamming_distance'): {
        'call': 'mir_eval.chord.directional_hamming_distance(np.array([[0.0, 4.0], [4.0, 5.5], [5.5, 8.0]]), np.array([[0.0, 7.5], [7.0, 8.0]]))',
        'observed': 'returned np.float64(0.125)',
        'cause': 'directional_hamming_distance checks overlaps of its FIRST argument only (documented for both); seg checks both'},
    ('chord', 'fault:est_overlapping', 'evaluate'): {
        'call': "mir_eval.chord.evaluate(np.array([[0.0, 4.0]]), ['D:sus4'], np.array([[0.0, 4.75], [4.0, 5.5]]), ['Db:1', 'B:hdim7'])",
        'observed': "returned {'thirds': np.float64(0.0), 'thirds_inv': np.float64(0.0), 'triads': np.float64(0.0), 'triads_inv': np.float64(0.0), 'tetrads': np.float64(0.0), 'tetrads_inv': np.float64(0.0), 'root': np.flo",
        'cause': 'evaluate() crops / pads the annotations (util.adjust_intervals) BEFORE any validator runs: the fault is cut away or re-labelled instead of rejected'},
    ('chord', 'fault:est_overlapping', 'overseg'): {
        'call': 'mir_eval.chord.overseg(np.array([[0.0, 4.0], [4.0, 5.5], [5.5, 8.0]]), np.array([[0.0, 7.5], [7.0, 8.0]]))',
        'observed': 'returned np.float64(0.875)',
        'cause': 'directional_hamming_distance checks overlaps of its FIRST argument only (documented for both); seg checks both'},
    ('chord', 'fault:est_zero_duration', 'evaluate'): {
        'call': "mir_eval.chord.evaluate(np.array([[0.0, 4.0]]), ['D:sus4'], np.array([[0.0, 0.0], [4.0, 5.5]]), ['Db:1', 'B:hdim7'])",
        'observed': "returned {'thirds': np.float64(0.0), 'thirds_inv': np.float64(0.0), 'triads': np.float64(0.0), 'triads_inv': np.float64(0.0), 'tetrads': np.float64(0.0), 'tetrads_inv': np.float64(0.0), 'root': np.flo",
        'cause': 'evaluate() crops / pads the annotations (util.adjust_intervals) BEFORE any validator runs: the fault is cut away or re-labelled instead of rejected'},
    ('chord', 'fault:ref_1d', 'evaluate'): {
        'call': "mir_eval.chord.evaluate(np.array([0.0, 4.0]), ['D:sus4'], np.array([[0.0, 4.0], [4.0, 5.5]]), ['Db:1', 'B:hdim7'])",
        'observed': 'IndexError: too many indices for array: array is 1-dimensional, but 2 were indexed',
        'cause': 'evaluate() preprocesses (util.adjust_intervals / _align_intervals index intervals[:, 1] and labels) BEFORE util.validate_intervals runs'},
    ('chord', 'fault:ref_3d', 'evaluate'): {
        'call': "mir_eval.chord.evaluate(np.array([[[0.0, 4.0]]]), ['Db:1'], np.array([[0.0, 4.0]]), ['Db:1'])",
        'observed': 'IndexError: index 1 is out of bounds for axis 1 with size 1',
        'cause': 'evaluate() preprocesses (util.adjust_intervals / _align_intervals index intervals[:, 1] and labels) BEFORE util.validate_intervals runs'},
    ('chord', 'fault:ref_fewer_labels', 'evaluate'): {
        'call': "mir_eval.chord.evaluate(np.array([[0.0, 4.0]]), [], np.array([[0.0, 4.0], [4.0, 5.5]]), ['Db:1', 'B:hdim7'])",
        'observed': 'IndexError: boolean index did not match indexed array along axis 0; size of axis is 0 but size of corresponding boolean axis is 1',
        'cause': 'evaluate() preprocesses (util.adjust_intervals / _align_intervals index intervals[:, 1] and labels) BEFORE util.validate_intervals runs'},
    ('chord', 'fault:ref_more_labels', 'evaluate'): {
        'call': "mir_eval.chord.evaluate(np.array([[0.0, 4.0]]), ['D:sus4', 'C'], np.array([[0.0, 4.0], [4.0, 5.5]]), ['Db:1', 'B:hdim7'])",
        'observed': 'IndexError: boolean index did not match indexed array along axis 0; size of axis is 2 but size of corresponding boolean axis is 1',
        'cause': 'evaluate() preprocesses (util.adjust_intervals / _align_intervals index intervals[:, 1] and labels) BEFORE util.validate_intervals runs'},
    ('chord', 'fault:ref_n_by_1', 'evaluate'): {
        'call': "mir_eval.chord.evaluate(np.array([[0.0], [4.0], [5.5]]), ['G:7', 'Ab:aug', 'X'], np.array([[0.0, 7.0]]), ['G:7'])",
        'observed': 'IndexError: index 1 is out of bounds for axis 1 with size 1',
        'cause': 'evaluate() preprocesses (util.adjust_intervals / _align_intervals index intervals[:, 1] and labels) BEFORE util.validate_intervals runs'},
    ('chord', 'fault:ref_negative_duration', 'evaluate'): {
        'call': "mir_eval.chord.evaluate(np.array([[0.0, 4.0], [7.0, 4.0], [7.0, 8.0]]), ['D:min7/b7', 'D:min7/b7', 'C:maj'], np.array([[0.0, 4.0], [4.0, 7.0], [7.0, 8.0]]), ['D:min7/b7', 'D:min7/b7', 'C:maj'])",
        'observed': "returned {'thirds': np.float64(1.0), 'thirds_inv': np.float64(1.0), 'triads': np.float64(1.0), 'triads_inv': np.float64(1.0), 'tetrads': np.float64(1.0), 'tetrads_inv': np.float64(1.0), 'root': np.flo",
        'cause': 'evaluate() crops / pads the annotations (util.adjust_intervals) BEFORE any validator runs: the fault is cut away or re-labelled instead of rejected'},
    ('chord', 'fault:ref_overlapping', 'evaluate'): {
        'call': "mir_eval.chord.evaluate(np.array([[0.0, 3.0], [2.0, 4.0]]), ['N', 'N'], np.array([[0.0, 4.0]]), ['N'])",
        'observed': "returned {'thirds': np.float64(1.0), 'thirds_inv': np.float64(1.0), 'triads': np.float64(1.0), 'triads_inv': np.float64(1.0), 'tetrads': np.float64(1.0), 'tetrads_inv': np.float64(1.0), 'root': np.flo",
        'cause': 'evaluate() crops / pads the annotations (util.adjust_intervals) BEFORE any validator runs: the fault is cut away or re-labelled instead of rejected'},
    ('chord', 'fault:ref_overlapping', 'underseg'): {
        'call': 'mir_eval.chord.underseg(np.array([[0.0, 4.75], [4.0, 5.5], [5.5, 8.0]]), np.array([[0.0, 7.0], [7.0, 8.0]]))',
        'observed': 'returned np.float64(0.625)',
        'cause': 'directional_hamming_distance checks overlaps of its FIRST argument only (documented for both); seg checks both'},
    ('chord', 'fault:ref_zero_duration', 'evaluate'): {
        'call': "mir_eval.chord.evaluate(np.array([[0.0, 0.0], [3.0, 4.0]]), ['Ab:aug', 'Ab:aug'], np.array([[0.0, 0.5], [0.5, 1.5], [1.5, 3.0]]), ['A:min7', 'C:maj6', 'C'])",
        'observed': "returned {'thirds': np.float64(0.0), 'thirds_inv': np.float64(0.0), 'triads': np.float64(0.0), 'triads_inv': np.float64(0.0), 'tetrads': np.float64(0.0), 'tetrads_inv': np.float64(0.0), 'root': np.flo",
        'cause': 'evaluate() crops / pads the annotations (util.adjust_intervals) BEFORE any validator runs: the fault is cut away or re-labelled instead of rejected'},
    ('chord', 'shape:empty_label_lists', 'mirex'): {
        'call': 'mir_eval.chord.mirex([], [])',
        'observed': "TypeError: 'numpy.float64' object does not support item assignment",
        'cause': 'chord.mirex([], []): np.sum over an empty (0,) array is a scalar; the item assignment that follows raises TypeError'},
    ('chord', 'shape:est_ends_at_ref_start', 'directional_hamming_distance'): {
        'call': 'mir_eval.chord.directional_hamming_distance(np.array([[2.0, 3.0], [3.0, 4.0]]), np.array([[2.0, 2.0], [2.0, 2.0], [2.0, 4.0]]))',
        'observed': 'ValueError: All interval durations must be strictly positive',
        'cause': 'C13-adjust-collapse: util.adjust_intervals keeps zero-duration rows when no estimated interval ends after t_min'},
    ('chord', 'shape:est_ends_at_ref_start', 'evaluate'): {
        'call': "mir_eval.chord.evaluate(np.array([[2.0, 3.0], [3.0, 4.0]]), ['C', 'G'], np.array([[0.0, 1.0], [1.0, 2.0]]), ['C', 'G'])",
        'observed': 'ValueError: All interval durations must be strictly positive',
        'cause': 'C13-adjust-collapse: util.adjust_intervals keeps zero-duration rows when no estimated interval ends after t_min'},
    ('chord', 'shape:est_ends_at_ref_start', 'overseg'): {
        'call': 'mir_eval.chord.overseg(np.array([[2.0, 3.0], [3.0, 4.0]]), np.array([[2.0, 2.0], [2.0, 2.0], [2.0, 4.0]]))',
        'observed': 'ValueError: All interval durations must be strictly positive',
        'cause': 'C13-adjust-collapse: util.adjust_intervals keeps zero-duration rows when no estimated interval ends after t_min'},
    ('chord', 'shape:est_ends_at_ref_start', 'seg'): {
        'call': 'mir_eval.chord.seg(np.array([[2.0, 3.0], [3.0, 4.0]]), np.array([[2.0, 2.0], [2.0, 2.0], [2.0, 4.0]]))',
        'observed': 'ValueError: All interval durations must be strictly positive',
        'cause': 'C13-adjust-collapse: util.adjust_intervals keeps zero-duration rows when no estimated interval ends after t_min'},
    ('chord', 'shape:est_ends_at_ref_start', 'underseg'): {
        'call': 'mir_eval.chord.underseg(np.array([[2.0, 3.0], [3.0, 4.0]]), np.array([[2.0, 2.0], [2.0, 2.0], [2.0, 4.0]]))',
        'observed': 'ValueError: All interval durations must be strictly positive',
        'cause': 'C13-adjust-collapse: util.adjust_intervals keeps zero-duration rows when no estimated interval ends after t_min'},
    ('chord', 'shape:est_wholly_before', 'directional_hamming_distance'): {
        'call': 'mir_eval.chord.directional_hamming_distance(np.array([[5.0, 6.0], [6.0, 7.0]]), np.array([[5.0, 5.0], [5.0, 5.0], [5.0, 7.0]]))',
        'observed': 'ValueError: All interval durations must be strictly positive',
        'cause': 'C13-adjust-collapse: util.adjust_intervals keeps zero-duration rows when no estimated interval ends after t_min'},
    ('chord', 'shape:est_wholly_before', 'evaluate'): {
        'call': "mir_eval.chord.evaluate(np.array([[5.0, 6.0], [6.0, 7.0]]), ['C', 'G'], np.array([[0.0, 1.0], [1.0, 2.0]]), ['C', 'G'])",
        'observed': 'ValueError: All interval durations must be strictly positive',
        'cause': 'C13-adjust-collapse: util.adjust_intervals keeps zero-duration rows when no estimated interval ends after t_min'},
    ('chord', 'shape:est_wholly_before', 'overseg'): {
        'call': 'mir_eval.chord.overseg(np.array([[5.0, 6.0], [6.0, 7.0]]), np.array([[5.0, 5.0], [5.0, 5.0], [5.0, 7.0]]))',
        'observed': 'ValueError: All interval durations must be strictly positive',
        'cause': 'C13-adjust-collapse: util.adjust_intervals keeps zero-duration rows when no estimated interval ends after t_min'},
    ('chord', 'shape:est_wholly_before', 'seg'): {
        'call': 'mir_eval.chord.seg(np.array([[5.0, 6.0], [6.0, 7.0]]), np.array([[5.0, 5.0], [5.0, 5.0], [5.0, 7.0]]))',
        'observed': 'ValueError: All interval durations must be strictly positive',
        'cause': 'C13-adjust-collapse: util.adjust_intervals keeps zero-duration rows when no estimated interval ends after t_min'},
    ('chord', 'shape:est_wholly_before', 'underseg'): {
        'call': 'mir_eval.chord.underseg(np.array([[5.0, 6.0], [6.0, 7.0]]), np.array([[5.0, 5.0], [5.0, 5.0], [5.0, 7.0]]))',
        'observed': 'ValueError: All interval durations must be strictly positive',
        'cause': 'C13-adjust-collapse: util.adjust_intervals keeps zero-duration rows when no estimated interval ends after t_min'},
    ('hierarchy', 'fault:est_level_ends_later_than_top', 'evaluate'): {
        'call': "mir_eval.hierarchy.evaluate([np.array([[0.0, 6.0]])], [['b']], [np.array([[0.0, 6.0]]), np.array([[0.0, 1.0], [1.0, 6.5]])], [['x'], ['A', 'Chorus']])",
        'observed': "returned {'T-Precision reduced': np.float64(0.0), 'T-Recall reduced': 0.0, 'T-Measure reduced': 0.0, 'T-Precision full': np.float64(0.0), 'T-Recall full': 0.0, 'T-Measure full': 0.0, 'L-Precision': np",
        'cause': 'evaluate() crops / pads the annotations (util.adjust_intervals) BEFORE any validator runs: the fault is cut away or re-labelled instead of rejected'},
    ('hierarchy', 'fault:est_level_not_starting_at_0', 'evaluate'): {
        'call': "mir_eval.hierarchy.evaluate([np.array([[0.0, 6.0]])], [['b']], [np.array([[0.0, 6.0]]), np.array([[0.5, 1.5], [1.5, 6.5]])], [['x'], ['A', 'Chorus']])",
        'observed': "returned {'T-Precision reduced': np.float64(0.0), 'T-Recall reduced': 0.0, 'T-Measure reduced': 0.0, 'T-Precision full': np.float64(0.0), 'T-Recall full': 0.0, 'T-Measure full': 0.0, 'L-Precision': np",
        'cause': 'evaluate() crops / pads the annotations (util.adjust_intervals) BEFORE any validator runs: the fault is cut away or re-labelled instead of rejected'},
    ('hierarchy', 'fault:est_more_labels', 'evaluate'): {
        'call': "mir_eval.hierarchy.evaluate([np.array([[0.0, 6.0]])], [['b']], [np.array([[0.0, 6.0]]), np.array([[0.0, 1.0], [1.0, 6.0]])], [['x'], ['A', 'Chorus', 'z']])",
        'observed': 'IndexError: index 2 is out of bounds for axis 0 with size 2',
        'cause': 'evaluate() preprocesses (util.adjust_intervals / _align_intervals index intervals[:, 1] and labels) BEFORE util.validate_intervals runs'},
    ('hierarchy', 'fault:est_more_labels', 'lmeasure'): {
        'call': "mir_eval.hierarchy.lmeasure([np.array([[0.0, 6.0]])], [['b']], [np.array([[0.0, 6.0]]), np.array([[0.0, 1.0], [1.0, 6.0]])], [['x'], ['A', 'Chorus', 'z']])",
        'observed': 'IndexError: index 2 is out of bounds for axis 0 with size 2',
        'cause': 'lmeasure validates intervals with generated labels; the supplied label lists are never compared with the intervals'},
    ('hierarchy', 'fault:est_negative_duration', 'evaluate'): {
        'call': "mir_eval.hierarchy.evaluate([np.array([[0.0, 6.0]])], [['b']], [np.array([[0.0, 6.0]]), np.array([[0.0, 1.0], [6.0, 1.0]])], [['x'], ['A', 'Chorus']])",
        'observed': "returned {'T-Precision reduced': np.float64(0.0), 'T-Recall reduced': 0.0, 'T-Measure reduced': 0.0, 'T-Precision full': np.float64(0.0), 'T-Recall full': 0.0, 'T-Measure full': 0.0, 'L-Precision': np",
        'cause': 'evaluate() crops / pads the annotations (util.adjust_intervals) BEFORE any validator runs: the fault is cut away or re-labelled instead of rejected'},
    ('hierarchy', 'fault:est_negative_time', 'evaluate'): {
        'call': "mir_eval.hierarchy.evaluate([np.array([[0.0, 6.0]])], [['b']], [np.array([[0.0, 6.0]]), np.array([[-0.5, 1.0], [1.0, 6.0]])], [['x'], ['A', 'Chorus']])",
        'observed': "returned {'T-Precision reduced': np.float64(0.0), 'T-Recall reduced': 0.0, 'T-Measure reduced': 0.0, 'T-Precision full': np.float64(0.0), 'T-Recall full': 0.0, 'T-Measure full': 0.0, 'L-Precision': np",
        'cause': 'evaluate() crops / pads the annotations (util.adjust_intervals) BEFORE any validator runs: the fault is cut away or re-labelled instead of rejected'},
    ('hierarchy', 'fault:est_top_negative_time', 'evaluate'): {
        'call': "mir_eval.hierarchy.evaluate([np.array([[0.0, 6.0]])], [['b']], [np.array([[-0.5, 6.0]]), np.array([[0.0, 1.0], [1.0, 6.0]])], [['x'], ['A', 'Chorus']])",
        'observed': "returned {'T-Precision reduced': np.float64(0.0), 'T-Recall reduced': 0.0, 'T-Measure reduced': 0.0, 'T-Precision full': np.float64(0.0), 'T-Recall full': 0.0, 'T-Measure full': 0.0, 'L-Precision': np",
        'cause': 'evaluate() crops / pads the annotations (util.adjust_intervals) BEFORE any validator runs: the fault is cut away or re-labelled instead of rejected'},
    ('hierarchy', 'fault:est_top_not_starting_at_0', 'evaluate'): {
        'call': "mir_eval.hierarchy.evaluate([np.array([[0.0, 6.0]])], [['b']], [np.array([[0.5, 6.5]]), np.array([[0.5, 1.5], [1.5, 6.5]])], [['x'], ['A', 'Chorus']])",
        'observed': "returned {'T-Precision reduced': np.float64(0.0), 'T-Recall reduced': 0.0, 'T-Measure reduced': 0.0, 'T-Precision full': np.float64(0.0), 'T-Recall full': 0.0, 'T-Measure full': 0.0, 'L-Precision': np",
        'cause': 'evaluate() crops / pads the annotations (util.adjust_intervals) BEFORE any validator runs: the fault is cut away or re-labelled instead of rejected'},
    ('hierarchy', 'fault:est_top_zero_duration', 'evaluate'): {
        'call': "mir_eval.hierarchy.evaluate([np.array([[0.0, 1.0], [1.0, 8.0]])], [['x', 'a']], [np.array([[0.0, 0.0], [0.5, 1.5], [1.5, 6.0], [6.0, 7.5], [7.5, 8.0]]), np.array([[0.0, 8.0]])], [['c', 'c', 'chorus', 'A', 'verse'], ['a']])",
        'observed': "returned {'T-Precision reduced': 0.0, 'T-Recall reduced': np.float64(0.0), 'T-Measure reduced': 0.0, 'T-Precision full': 0.0, 'T-Recall full': np.float64(0.0), 'T-Measure full': 0.0, 'L-Precision': 0.",
        'cause': 'evaluate() crops / pads the annotations (util.adjust_intervals) BEFORE any validator runs: the fault is cut away or re-labelled instead of rejected'},
    ('hierarchy', 'fault:est_top_zero_duration', 'lmeasure'): {
        'call': "mir_eval.hierarchy.lmeasure([np.array([[0.0, 8.0]])], [['b']], [np.array([[0.0, 0.0], [6.0, 8.0]])], [['x', 'x']])",
        'observed': 'returned (np.float64(0.0), 0.0, 0.0)',
        'cause': 'validate_hier_intervals never examines a single-level hierarchy (the top level is only checked against deeper levels)'},
    ('hierarchy', 'fault:est_top_zero_duration', 'tmeasure'): {
        'call': 'mir_eval.hierarchy.tmeasure([np.array([[0.0, 0.5], [0.5, 2.0], [2.0, 6.0]])], [np.array([[0.0, 0.0], [1.5, 6.0]])])',
        'observed': 'returned (np.float64(0.7907647907647907), np.float64(0.501755158311804), np.float64(0.613948454816577))',
        'cause': 'validate_hier_intervals never examines a single-level hierarchy (the top level is only checked against deeper levels)'},
    ('hierarchy', 'fault:est_zero_duration', 'evaluate'): {
        'call': "mir_eval.hierarchy.evaluate([np.array([[0.0, 6.0]])], [['b']], [np.array([[0.0, 6.0]]), np.array([[0.0, 0.0], [1.0, 6.0]])], [['x'], ['A', 'Chorus']])",
        'observed': "returned {'T-Precision reduced': np.float64(0.0), 'T-Recall reduced': 0.0, 'T-Measure reduced': 0.0, 'T-Precision full': np.float64(0.0), 'T-Recall full': 0.0, 'T-Measure full': 0.0, 'L-Precision': np",
        'cause': 'evaluate() crops / pads the annotations (util.adjust_intervals) BEFORE any validator runs: the fault is cut away or re-labelled instead of rejected'},
    ('hierarchy', 'fault:ref_fewer_label_levels', 'evaluate'): {
        'call': "mir_eval.hierarchy.evaluate([np.array([[0.0, 8.0]]), np.array([[0.0, 1.0], [1.0, 3.5], [3.5, 5.5], [5.5, 7.0], [7.0, 8.0]])], [['chorus']], [np.array([[0.0, 2.5], [2.5, 8.0]]), np.array([[0.0, 6.5], [6.5, 8.0]])], [['c', 'c'], ['c', 'A']])",
        'observed': "returned {'T-Precision reduced': np.float64(0.0), 'T-Recall reduced': 0.0, 'T-Measure reduced': 0.0, 'T-Precision full': np.float64(0.0), 'T-Recall full': 0.0, 'T-Measure full': 0.0, 'L-Precision': np",
        'cause': 'evaluate() crops / pads the annotations (util.adjust_intervals) BEFORE any validator runs: the fault is cut away or re-labelled instead of rejected'},
    ('hierarchy', 'fault:ref_fewer_label_levels', 'lmeasure'): {
        'call': "mir_eval.hierarchy.lmeasure([np.array([[0.0, 8.0]]), np.array([[0.0, 1.0], [1.0, 3.5], [3.5, 5.5], [5.5, 7.0], [7.0, 8.0]])], [['chorus']], [np.array([[0.0, 2.5], [2.5, 8.0]]), np.array([[0.0, 6.5], [6.5, 8.0]])], [['c', 'c'], ['c', 'A']])",
        'observed': 'returned (np.float64(0.0), 0.0, 0.0)',
        'cause': 'lmeasure validates intervals with generated labels; the supplied label lists are never compared with the intervals'},
    ('hierarchy', 'fault:ref_fewer_labels', 'evaluate'): {
        'call': "mir_eval.hierarchy.evaluate([np.array([[0.0, 6.0]])], [[]], [np.array([[0.0, 6.0]]), np.array([[0.0, 1.0], [1.0, 6.0]])], [['x'], ['A', 'Chorus']])",
        'observed': "returned {'T-Precision reduced': np.float64(0.0), 'T-Recall reduced': 0.0, 'T-Measure reduced': 0.0, 'T-Precision full': np.float64(0.0), 'T-Recall full': 0.0, 'T-Measure full': 0.0, 'L-Precision': np",
        'cause': 'evaluate() crops / pads the annotations (util.adjust_intervals) BEFORE any validator runs: the fault is cut away or re-labelled instead of rejected'},
    ('hierarchy', 'fault:ref_fewer_labels', 'lmeasure'): {
        'call': "mir_eval.hierarchy.lmeasure([np.array([[0.0, 6.0]])], [[]], [np.array([[0.0, 6.0]]), np.array([[0.0, 1.0], [1.0, 6.0]])], [['x'], ['A', 'Chorus']])",
        'observed': 'returned (np.float64(0.0), 0.0, 0.0)',
        'cause': 'lmeasure validates intervals with generated labels; the supplied label lists are never compared with the intervals'},
    ('hierarchy', 'fault:ref_negative_duration', 'evaluate'): {
        'call': "mir_eval.hierarchy.evaluate([np.array([[0.0, 6.0]]), np.array([[0.0, 0.5], [0.5, 4.5], [4.5, 6.0]]), np.array([[5.0, 0.0], [5.0, 6.0]])], [['verse'], ['Chorus', 'a', 'x'], ['A', 'chorus']], [np.array([[0.0, 4.5], [4.5, 6.0]])], [['verse', 'b']])",
        'observed': "returned {'T-Precision reduced': np.float64(0.666666666666667), 'T-Recall reduced': np.float64(0.5534591194968553), 'T-Measure reduced': np.float64(0.6048109965635741), 'T-Precision full': np.float64(",
        'cause': 'evaluate() crops / pads the annotations (util.adjust_intervals) BEFORE any validator runs: the fault is cut away or re-labelled instead of rejected'},
    ('hierarchy', 'fault:ref_negative_time', 'evaluate'): {
        'call': "mir_eval.hierarchy.evaluate([np.array([[0.0, 8.0]]), np.array([[-0.5, 1.0], [1.0, 3.5], [3.5, 5.5], [5.5, 7.0], [7.0, 8.0]])], [['chorus'], ['a', 'a', 'c', 'A', 'x']], [np.array([[0.0, 2.5], [2.5, 8.0]]), np.array([[0.0, 6.5], [6.5, 8.0]])], [['c', 'c'], ['c', 'A']])",
        'observed': "returned {'T-Precision reduced': np.float64(0.2608414976836028), 'T-Recall reduced': np.float64(0.3390155835117149), 'T-Measure reduced': np.float64(0.29483467083547865), 'T-Precision full': np.float6",
        'cause': 'evaluate() crops / pads the annotations (util.adjust_intervals) BEFORE any validator runs: the fault is cut away or re-labelled instead of rejected'},
    ('hierarchy', 'fault:ref_top_negative_time', 'evaluate'): {
        'call': "mir_eval.hierarchy.evaluate([np.array([[-0.5, 6.0]])], [['b']], [np.array([[0.0, 6.0]]), np.array([[0.0, 1.0], [1.0, 6.0]])], [['x'], ['A', 'Chorus']])",
        'observed': "returned {'T-Precision reduced': np.float64(0.0), 'T-Recall reduced': 0.0, 'T-Measure reduced': 0.0, 'T-Precision full': np.float64(0.0), 'T-Recall full': 0.0, 'T-Measure full': 0.0, 'L-Precision': np",
        'cause': 'evaluate() crops / pads the annotations (util.adjust_intervals) BEFORE any validator runs: the fault is cut away or re-labelled instead of rejected'},
    ('hierarchy', 'fault:ref_top_not_starting_at_0', 'evaluate'): {
        'call': "mir_eval.hierarchy.evaluate([np.array([[0.5, 6.5]])], [['b']], [np.array([[0.0, 6.0]]), np.array([[0.0, 1.0], [1.0, 6.0]])], [['x'], ['A', 'Chorus']])",
        'observed': "returned {'T-Precision reduced': np.float64(0.35741840638262473), 'T-Recall reduced': np.float64(0.7114230225988697), 'T-Measure reduced': np.float64(0.4757968321708841), 'T-Precision full': np.float6",
        'cause': 'evaluate() crops / pads the annotations (util.adjust_intervals) BEFORE any validator runs: the fault is cut away or re-labelled instead of rejected'},
    ('hierarchy', 'fault:ref_top_zero_duration', 'evaluate'): {
        'call': "mir_eval.hierarchy.evaluate([np.array([[0.0, 1.0], [1.0, 1.0]])], [['x', 'a']], [np.array([[0.0, 0.5], [0.5, 1.5], [1.5, 6.0], [6.0, 7.5], [7.5, 8.0]]), np.array([[0.0, 8.0]])], [['c', 'c', 'chorus', 'A', 'verse'], ['a']])",
        'observed': "returned {'T-Precision reduced': 0.0, 'T-Recall reduced': 0.0, 'T-Measure reduced': 0.0, 'T-Precision full': 0.0, 'T-Recall full': 0.0, 'T-Measure full': 0.0, 'L-Precision': 0.0, 'L-Recall': 0.0, 'L-M",
        'cause': 'evaluate() crops / pads the annotations (util.adjust_intervals) BEFORE any validator runs: the fault is cut away or re-labelled instead of rejected'},
    ('hierarchy', 'fault:ref_top_zero_duration', 'lmeasure'): {
        'call': "mir_eval.hierarchy.lmeasure([np.array([[0.0, 0.5], [0.5, 0.5], [2.0, 6.0]])], [['verse', 'x', 'x']], [np.array([[0.0, 1.5], [1.5, 6.0]])], [['Chorus', 'b']])",
        'observed': 'returned (np.float64(0.6165698708071589), np.float64(0.7442366246193994), np.float64(0.6744145931603605))',
        'cause': 'validate_hier_intervals never examines a single-level hierarchy (the top level is only checked against deeper levels)'},
    ('hierarchy', 'fault:ref_top_zero_duration', 'tmeasure'): {
        'call': 'mir_eval.hierarchy.tmeasure([np.array([[0.0, 0.5], [0.5, 0.5], [2.0, 6.0]])], [np.array([[0.0, 1.5], [1.5, 6.0]])])',
        'observed': 'returned (np.float64(0.6165698708071589), np.float64(0.7442366246193994), np.float64(0.6744145931603605))',
        'cause': 'validate_hier_intervals never examines a single-level hierarchy (the top level is only checked against deeper levels)'},
    ('hierarchy', 'fault:ref_zero_duration', 'evaluate'): {
        'call': "mir_eval.hierarchy.evaluate([np.array([[0.0, 0.5], [0.5, 1.5], [1.5, 6.0]]), np.array([[0.0, 0.0], [1.0, 5.0], [5.0, 6.0]])], [['chorus', 'c', 'a'], ['a', 'c', 'c']], [np.array([[0.0, 3.5], [3.5, 6.0]]), np.array([[0.0, 6.0]]), np.array([[0.0, 1.5], [1.5, 5.0], [5.0, 6.0]])], [['b', 'a'], ['x'], ['verse', 'Chorus', 'verse']])",
        'observed': "returned {'T-Precision reduced': np.float64(0.7786288570186878), 'T-Recall reduced': np.float64(0.6162434434583732), 'T-Measure reduced': np.float64(0.6879840224243443), 'T-Precision full': np.float64",
        'cause': 'evaluate() crops / pads the annotations (util.adjust_intervals) BEFORE any validator runs: the fault is cut away or re-labelled instead of rejected'},
    ('melody', 'fault:est_more_freqs_than_times', 'evaluate'): {
        'call': 'mir_eval.melody.evaluate(np.array([0.0, 0.125, 0.25, 0.375, 0.5, 0.625, 0.75, 0.875, 1.0, 1.125, 1.25, 1.375, 1.5, 1.625, 1.75, 1.875]), np.array([880.0, 880.0, 440.0, 220.0, 233.0, 440.0, 233.0, 0.0, 440.0, 0.0, 220.0, 233.0, 0.0, 220.0, 110.0, 220.0]), np.array([0.0, 0.125, 0.25, 0.375, 0.5, 0.625, 0.75, 0.875, 1.0, 1.125, 1.25, 1.375, 1.5, 1.625, 1.75, 1.875]), np.array([220.0, 110.0, 0.0, 110.0, 220.0, 466.0, 880.0, -220.0, -220.0, 0.0, 233.0, -440.0, 233.0, 440.0, -440.0, 220.0, 220.0]))',
        'observed': "returned {'Voicing Recall': np.float64(0.6923076923076923), 'Voicing False Alarm': np.float64(0.3333333333333333), 'Raw Pitch Accuracy': np.float64(0.07692307692307693), 'Raw Chroma Accuracy': np.floa",
        'cause': 'melody.evaluate has no validator for times / lengths / est_voicing / ref_reward; resampling absorbs the fault'},
    ('melody', 'fault:est_time_unsorted', 'evaluate'): {
        'call': 'mir_eval.melody.evaluate(np.array([0.0, 0.25, 0.5, 0.75, 1.0]), np.array([220.0, 220.0, 220.0, 220.0, 0.0]), np.array([1.0, 0.75, 0.5]), np.array([220.0, 220.0, 0.0]))',
        'observed': "returned {'Voicing Recall': np.float64(0.75), 'Voicing False Alarm': np.float64(1.0), 'Raw Pitch Accuracy': np.float64(0.75), 'Raw Chroma Accuracy': np.float64(0.75), 'Overall Accuracy': np.float64(0.",
        'cause': 'melody.evaluate has no validator for times / lengths / est_voicing / ref_reward; resampling absorbs the fault'},
    ('melody', 'fault:est_voicing_above_1', 'voicing_false_alarm'): {
        'call': 'mir_eval.melody.voicing_false_alarm(np.array([1.0, 1.0, 1.0, 1.0, 0.0, 1.0, 0.0, 1.0]), np.array([1.5, 1.0, 0.0, 0.0, 0.0, 0.0, 0.0, 0.0]))',
        'observed': 'returned np.float64(0.0)',
        'cause': 'voicing_recall / voicing_false_alarm never call validate_voicing (only voicing_measures does)'},
    ('melody', 'fault:est_voicing_above_1', 'voicing_recall'): {
        'call': 'mir_eval.melody.voicing_recall(np.array([1.0, 1.0, 1.0, 1.0, 0.0, 1.0, 0.0, 1.0]), np.array([1.5, 1.0, 0.0, 0.0, 0.0, 0.0, 0.0, 0.0]))',
        'observed': 'returned np.float64(0.4166666666666667)',
        'cause': 'voicing_recall / voicing_false_alarm never call validate_voicing (only voicing_measures does)'},
    ('melody', 'fault:est_voicing_kw_above_1', 'evaluate'): {
        'call': 'mir_eval.melody.evaluate(np.array([0.0, 0.25, 0.5]), np.array([0.0, 0.0, 0.0]), np.array([0.0, 0.25, 0.5]), np.array([0.0, 0.0, 0.0]), est_voicing=np.array([1.5, 1.5, 1.5]))',
        'observed': "returned {'Voicing Recall': 1, 'Voicing False Alarm': np.float64(0.0), 'Raw Pitch Accuracy': 0.0, 'Raw Chroma Accuracy': 0.0, 'Overall Accuracy': np.float64(1.0)}",
        'cause': 'melody.evaluate has no validator for times / lengths / est_voicing / ref_reward; resampling absorbs the fault'},
    ('melody', 'fault:est_voicing_kw_negative', 'evaluate'): {
        'call': 'mir_eval.melody.evaluate(np.array([0.0, 0.25, 0.5]), np.array([0.0, 0.0, 0.0]), np.array([0.0, 0.25, 0.5]), np.array([0.0, 0.0, 0.0]), est_voicing=np.array([-0.5, -0.5, -0.5]))',
        'observed': "returned {'Voicing Recall': 1, 'Voicing False Alarm': np.float64(0.0), 'Raw Pitch Accuracy': 0.0, 'Raw Chroma Accuracy': 0.0, 'Overall Accuracy': np.float64(1.0)}",
        'cause': 'melody.evaluate has no validator for times / lengths / est_voicing / ref_reward; resampling absorbs the fault'},
    ('melody', 'fault:est_voicing_kw_wrong_length', 'evaluate'): {
        'call': 'mir_eval.melody.evaluate(np.array([0.0, 0.125, 0.25, 0.375, 0.5, 0.625, 0.75, 0.875]), np.array([440.0, 440.0, 880.0, 440.0, 0.0, 880.0, 0.0, 880.0]), np.array([0.0, 0.0625, 0.125, 0.1875, 0.25]), np.array([233.0, 233.0, 440.0, 880.0, -440.0]), est_voicing=np.array([1.0, 1.0, 1.0, 1.0, 1.0, 1.0]))',
        'observed': 'IndexError: boolean index did not match indexed array along axis 0; size of axis is 6 but size of corresponding boolean axis is 5',
        'cause': 'melody.evaluate has no validator for times / lengths / est_voicing / ref_reward; resampling absorbs the fault'},
    ('melody', 'fault:est_voicing_negative', 'voicing_false_alarm'): {
        'call': 'mir_eval.melody.voicing_false_alarm(np.array([1.0, 1.0, 1.0, 1.0, 0.0, 1.0, 0.0, 1.0]), np.array([1.0, 1.0, 0.0, -0.5, 0.0, 0.0, 0.0, 0.0]))',
        'observed': 'returned np.float64(0.0)',
        'cause': 'voicing_recall / voicing_false_alarm never call validate_voicing (only voicing_measures does)'},
    ('melody', 'fault:est_voicing_negative', 'voicing_recall'): {
        'call': 'mir_eval.melody.voicing_recall(np.array([1.0, 1.0, 1.0, 1.0, 0.0, 1.0, 0.0, 1.0]), np.array([1.0, 1.0, 0.0, -0.5, 0.0, 0.0, 0.0, 0.0]))',
        'observed': 'returned np.float64(0.25)',
        'cause': 'voicing_recall / voicing_false_alarm never call validate_voicing (only voicing_measures does)'},
    ('melody', 'fault:ref_more_times_than_freqs', 'evaluate'): {
        'call': 'mir_eval.melody.evaluate(np.array([0.0, 0.125, 0.25, 0.375, 0.5, 0.625, 0.75, 0.875, 1.0]), np.array([440.0, 440.0, 880.0, 440.0, 0.0, 880.0, 0.0, 880.0]), np.array([0.0, 0.0625, 0.125, 0.1875, 0.25]), np.array([233.0, 233.0, 440.0, 880.0, -440.0]))',
        'observed': "returned {'Voicing Recall': np.float64(0.3333333333333333), 'Voicing False Alarm': np.float64(0.0), 'Raw Pitch Accuracy': np.float64(0.3333333333333333), 'Raw Chroma Accuracy': np.float64(0.8333333333",
        'cause': 'melody.evaluate has no validator for times / lengths / est_voicing / ref_reward; resampling absorbs the fault'},
    ('melody', 'fault:ref_reward_kw_above_1', 'evaluate'): {
        'call': 'mir_eval.melody.evaluate(np.array([0.0, 0.25, 0.5]), np.array([0.0, 0.0, 0.0]), np.array([0.0, 0.25, 0.5]), np.array([0.0, 0.0, 0.0]), ref_reward=np.array([1.5, 1.5, 1.5]))',
        'observed': "returned {'Voicing Recall': 1, 'Voicing False Alarm': np.float64(0.0), 'Raw Pitch Accuracy': 0.0, 'Raw Chroma Accuracy': 0.0, 'Overall Accuracy': np.float64(1.0)}",
        'cause': 'melody.evaluate has no validator for times / lengths / est_voicing / ref_reward; resampling absorbs the fault'},
    ('melody', 'fault:ref_time_unsorted', 'evaluate'): {
        'call': 'mir_eval.melody.evaluate(np.array([0.875, 0.75, 0.625, 0.5, 0.375, 0.25, 0.125, 0.0]), np.array([440.0, 440.0, 880.0, 440.0, 0.0, 880.0, 0.0, 880.0]), np.array([0.0, 0.0625, 0.125, 0.1875, 0.25]), np.array([233.0, 233.0, 440.0, 880.0, -440.0]))',
        'observed': "returned {'Voicing Recall': np.float64(0.2857142857142857), 'Voicing False Alarm': np.float64(0.5), 'Raw Pitch Accuracy': np.float64(0.2857142857142857), 'Raw Chroma Accuracy': np.float64(0.5714285714",
        'cause': 'melody.evaluate has no validator for times / lengths / est_voicing / ref_reward; resampling absorbs the fault'},
    ('melody', 'fault:ref_voicing_above_1', 'voicing_false_alarm'): {
        'call': 'mir_eval.melody.voicing_false_alarm(np.array([1.0, 1.0, 1.0, 1.5, 0.0, 1.0, 0.0, 1.0]), np.array([1.0, 1.0, 0.0, 0.0, 0.0, 0.0, 0.0, 0.0]))',
        'observed': 'returned np.float64(0.0)',
        'cause': 'voicing_recall / voicing_false_alarm never call validate_voicing (only voicing_measures does)'},
    ('melody', 'fault:ref_voicing_above_1', 'voicing_recall'): {
        'call': 'mir_eval.melody.voicing_recall(np.array([1.0, 1.0, 1.0, 1.5, 0.0, 1.0, 0.0, 1.0]), np.array([1.0, 1.0, 0.0, 0.0, 0.0, 0.0, 0.0, 0.0]))',
        'observed': 'returned np.float64(0.3333333333333333)',
        'cause': 'voicing_recall / voicing_false_alarm never call validate_voicing (only voicing_measures does)'},
    ('melody', 'fault:ref_voicing_negative', 'voicing_false_alarm'): {
        'call': 'mir_eval.melody.voicing_false_alarm(np.array([1.0, 1.0, 1.0, 1.0, -0.5, 1.0, 0.0, 1.0]), np.array([1.0, 1.0, 0.0, 0.0, 0.0, 0.0, 0.0, 0.0]))',
        'observed': 'returned np.float64(0.0)',
        'cause': 'voicing_recall / voicing_false_alarm never call validate_voicing (only voicing_measures does)'},
    ('melody', 'fault:ref_voicing_negative', 'voicing_recall'): {
        'call': 'mir_eval.melody.voicing_recall(np.array([1.0, 1.0, 1.0, 1.0, -0.5, 1.0, 0.0, 1.0]), np.array([1.0, 1.0, 0.0, 0.0, 0.0, 0.0, 0.0, 0.0]))',
        'observed': 'returned np.float64(0.3333333333333333)',
        'cause': 'voicing_recall / voicing_false_alarm never call validate_voicing (only voicing_measures does)'},
    ('melody', 'fault:voicing_unequal_est_longer', 'voicing_false_alarm'): {
        'call': 'mir_eval.melody.voicing_false_alarm(np.array([1.0, 1.0]), np.array([1.0, 1.0, 1.0]))',
        'observed': 'returned 0',
        'cause': 'voicing_recall / voicing_false_alarm never call validate_voicing (only voicing_measures does)'},
    ('melody', 'fault:voicing_unequal_est_longer', 'voicing_recall'): {
        'call': 'mir_eval.melody.voicing_recall(np.array([0.0, 0.0]), np.array([1.0, 1.0, 1.0]))',
        'observed': 'returned 1',
        'cause': 'voicing_recall / voicing_false_alarm never call validate_voicing (only voicing_measures does)'},
    ('melody', 'fault:voicing_unequal_est_shorter', 'voicing_false_alarm'): {
        'call': 'mir_eval.melody.voicing_false_alarm(np.array([1.0, 1.0]), np.array([1.0]))',
        'observed': 'returned 0',
        'cause': 'voicing_recall / voicing_false_alarm never call validate_voicing (only voicing_measures does)'},
    ('melody', 'fault:voicing_unequal_est_shorter', 'voicing_recall'): {
        'call': 'mir_eval.melody.voicing_recall(np.array([1.0, 1.0]), np.array([1.0]))',
        'observed': 'returned np.float64(1.0)',
        'cause': 'voicing_recall / voicing_false_alarm never call validate_voicing (only voicing_measures does)'},
    ('melody', 'shape:duplicate_est_times', 'evaluate'): {
        'call': 'mir_eval.melody.evaluate(np.array([0.0, 0.25, 0.5, 0.75]), np.array([220.0, 220.0, 0.0, 0.0]), np.array([0.0, 0.25, 0.25, 0.5]), np.array([220.0, 220.0, 220.0, 0.0]))',
        'observed': 'ValueError: Expect x to not have duplicates',
        'cause': 'scipy interp1d rejects duplicate estimate times (no validator documents strictly increasing times)'},
    ('melody', 'shape:duplicate_est_times', 'preprocess[cv]'): {
        'call': "DERIVE['melody']['cv']([np.array([0.0, 0.25, 0.5, 0.75]), np.array([220.0, 220.0, 0.0, 0.0]), np.array([0.0, 0.25, 0.25, 0.5]), np.array([220.0, 220.0, 220.0, 0.0])])",
        'observed': 'ValueError: Expect x to not have duplicates',
        'cause': 'scipy interp1d rejects duplicate estimate times (no validator documents strictly increasing times)'},
    ('melody', 'shape:duplicate_est_times', 'preprocess[v]'): {
        'call': "DERIVE['melody']['v']([np.array([0.0, 0.25, 0.5, 0.75]), np.array([220.0, 220.0, 0.0, 0.0]), np.array([0.0, 0.25, 0.25, 0.5]), np.array([220.0, 220.0, 220.0, 0.0])])",
        'observed': 'ValueError: Expect x to not have duplicates',
        'cause': 'scipy interp1d rejects duplicate estimate times (no validator documents strictly increasing times)'},
    ('melody', 'shape:empty_both', 'evaluate'): {
        'call': 'mir_eval.melody.evaluate(np.zeros((0,)), np.zeros((0,)), np.zeros((0,)), np.zeros((0,)))',
        'observed': 'IndexError: index 0 is out of bounds for axis 0 with size 0',
        'cause': 'to_cent_voicing reads ref_time[0] / est_time[0]: the empty annotation the measures define a score for cannot pass evaluate()'},
    ('melody', 'shape:empty_both', 'preprocess[cv]'): {
        'call': "DERIVE['melody']['cv']([np.zeros((0,)), np.zeros((0,)), np.zeros((0,)), np.zeros((0,))])",
        'observed': 'IndexError: index 0 is out of bounds for axis 0 with size 0',
        'cause': 'to_cent_voicing reads ref_time[0] / est_time[0]: the empty annotation the measures define a score for cannot pass evaluate()'},
    ('melody', 'shape:empty_both', 'preprocess[v]'): {
        'call': "DERIVE['melody']['v']([np.zeros((0,)), np.zeros((0,)), np.zeros((0,)), np.zeros((0,))])",
        'observed': 'IndexError: index 0 is out of bounds for axis 0 with size 0',
        'cause': 'to_cent_voicing reads ref_time[0] / est_time[0]: the empty annotation the measures define a score for cannot pass evaluate()'},
    ('melody', 'shape:empty_est', 'evaluate'): {
        'call': 'mir_eval.melody.evaluate(np.array([0.0, 0.25, 0.5]), np.array([220.0, 220.0, 0.0]), np.zeros((0,)), np.zeros((0,)))',
        'observed': 'IndexError: index 0 is out of bounds for axis 0 with size 0',
        'cause': 'to_cent_voicing reads ref_time[0] / est_time[0]: the empty annotation the measures define a score for cannot pass evaluate()'},
    ('melody', 'shape:empty_est', 'preprocess[cv]'): {
        'call': "DERIVE['melody']['cv']([np.array([0.0, 0.25, 0.5]), np.array([220.0, 220.0, 0.0]), np.zeros((0,)), np.zeros((0,))])",
        'observed': 'IndexError: index 0 is out of bounds for axis 0 with size 0',
        'cause': 'to_cent_voicing reads ref_time[0] / est_time[0]: the empty annotation the measures define a score for cannot pass evaluate()'},
    ('melody', 'shape:empty_est', 'preprocess[v]'): {
        'call': "DERIVE['melody']['v']([np.array([0.0, 0.25, 0.5]), np.array([220.0, 220.0, 0.0]), np.zeros((0,)), np.zeros((0,))])",
        'observed': 'IndexError: index 0 is out of bounds for axis 0 with size 0',
        'cause': 'to_cent_voicing reads ref_time[0] / est_time[0]: the empty annotation the measures define a score for cannot pass evaluate()'},
    ('melody', 'shape:empty_ref', 'evaluate'): {
        'call': 'mir_eval.melody.evaluate(np.zeros((0,)), np.zeros((0,)), np.array([0.0, 0.25, 0.5]), np.array([220.0, 220.0, 0.0]))',
        'observed': 'IndexError: index 0 is out of bounds for axis 0 with size 0',
        'cause': 'to_cent_voicing reads ref_time[0] / est_time[0]: the empty annotation the measures define a score for cannot pass evaluate()'},
    ('melody', 'shape:empty_ref', 'preprocess[cv]'): {
        'call': "DERIVE['melody']['cv']([np.zeros((0,)), np.zeros((0,)), np.array([0.0, 0.25, 0.5]), np.array([220.0, 220.0, 0.0])])",
        'observed': 'IndexError: index 0 is out of bounds for axis 0 with size 0',
        'cause': 'to_cent_voicing reads ref_time[0] / est_time[0]: the empty annotation the measures define a score for cannot pass evaluate()'},
    ('melody', 'shape:empty_ref', 'preprocess[v]'): {
        'call': "DERIVE['melody']['v']([np.zeros((0,)), np.zeros((0,)), np.array([0.0, 0.25, 0.5]), np.array([220.0, 220.0, 0.0])])",
        'observed': 'IndexError: index 0 is out of bounds for axis 0 with size 0',
        'cause': 'to_cent_voicing reads ref_time[0] / est_time[0]: the empty annotation the measures define a score for cannot pass evaluate()'},
    ('multipitch', 'fault:est_freq_negative', 'evaluate'): {
        'call': 'mir_eval.multipitch.evaluate(np.array([0.0, 0.25]), [np.array([110.0, 440.0]), np.zeros((0,))], np.array([0.0, 0.25]), [np.array([-220.0]), np.zeros((0,))])',
        'observed': "returned {'Precision': np.float64(0.0), 'Recall': np.float64(0.0), 'Accuracy': np.float64(0.0), 'Substitution Error': np.float64(0.5), 'Miss Error': np.float64(0.5), 'False Alarm Error': np.float64(0.",
        'cause': 'C18-negative-frequencies: util.validate_frequencies(allow_negatives=False) bounds |f| only'},
    ('multipitch', 'fault:est_freq_negative', 'metrics'): {
        'call': 'mir_eval.multipitch.metrics(np.array([0.0, 0.25]), [np.array([110.0, 440.0]), np.zeros((0,))], np.array([0.0, 0.25]), [np.array([-220.0]), np.zeros((0,))])',
        'observed': 'returned (np.float64(0.0), np.float64(0.0), np.float64(0.0), np.float64(0.5), np.float64(0.5), np.float64(0.0), np.float64(1.0), np.float64(0.0), np.float64(0.0), np.float64(0.0), np.float64(0.5), np.',
        'cause': 'C18-negative-frequencies: util.validate_frequencies(allow_negatives=False) bounds |f| only'},
    ('multipitch', 'fault:ref_freq_negative', 'evaluate'): {
        'call': 'mir_eval.multipitch.evaluate(np.array([0.0, 0.25]), [np.array([110.0, 440.0, -220.0]), np.zeros((0,))], np.array([0.0, 0.25]), [np.zeros((0,)), np.zeros((0,))])',
        'observed': "returned {'Precision': 0.0, 'Recall': np.float64(0.0), 'Accuracy': np.float64(0.0), 'Substitution Error': np.float64(0.0), 'Miss Error': np.float64(1.0), 'False Alarm Error': np.float64(0.0), 'Total E",
        'cause': 'C18-negative-frequencies: util.validate_frequencies(allow_negatives=False) bounds |f| only'},
    ('multipitch', 'fault:ref_freq_negative', 'metrics'): {
        'call': 'mir_eval.multipitch.metrics(np.array([0.0, 0.25]), [np.array([110.0, 440.0, -220.0]), np.zeros((0,))], np.array([0.0, 0.25]), [np.zeros((0,)), np.zeros((0,))])',
        'observed': 'returned (0.0, np.float64(0.0), np.float64(0.0), np.float64(0.0), np.float64(1.0), np.float64(0.0), np.float64(1.0), 0.0, np.float64(0.0), np.float64(0.0), np.float64(0.0), np.float64(1.0), np.float64',
        'cause': 'C18-negative-frequencies: util.validate_frequencies(allow_negatives=False) bounds |f| only'},
    ('segment', 'fault:est_1d', 'evaluate'): {
        'call': "mir_eval.segment.evaluate(np.array([[0.0, 8.0]]), ['a'], np.array([0.0, 4.5, 4.5, 8.0]), ['chorus', 'Chorus'])",
        'observed': 'IndexError: too many indices for array: array is 1-dimensional, but 2 were indexed',
        'cause': 'evaluate() preprocesses (util.adjust_intervals / _align_intervals index intervals[:, 1] and labels) BEFORE util.validate_intervals runs'},
    ('segment', 'fault:est_3d', 'evaluate'): {
        'call': "mir_eval.segment.evaluate(np.array([[0.0, 8.0]]), ['A'], np.array([[[0.0, 8.0]]]), ['A'])",
        'observed': 'IndexError: index 1 is out of bounds for axis 1 with size 1',
        'cause': 'evaluate() preprocesses (util.adjust_intervals / _align_intervals index intervals[:, 1] and labels) BEFORE util.validate_intervals runs'},
    ('segment', 'fault:est_fewer_labels', 'evaluate'): {
        'call': "mir_eval.segment.evaluate(np.array([[0.0, 1.5], [1.5, 7.5], [7.5, 8.0]]), ['b', 'b', 'c'], np.array([[0.0, 9.0], [9.0, 10.0]]), ['b'])",
        'observed': "returned {'Precision@0.5': 1.0, 'Recall@0.5': 0.5, 'F-measure@0.5': 0.6666666666666666, 'Precision@3.0': 1.0, 'Recall@3.0': 0.5, 'F-measure@3.0': 0.6666666666666666, 'Ref-to-est deviation': np.float64",
        'cause': 'evaluate() crops / pads the annotations (util.adjust_intervals) BEFORE any validator runs: the fault is cut away or re-labelled instead of rejected'},
    ('segment', 'fault:est_more_labels', 'evaluate'): {
        'call': "mir_eval.segment.evaluate(np.array([[0.0, 1.5], [1.5, 7.5], [7.5, 8.0]]), ['b', 'b', 'c'], np.array([[0.0, 9.0], [9.0, 10.0]]), ['b', 'A', 'z'])",
        'observed': "returned {'Precision@0.5': 1.0, 'Recall@0.5': 0.5, 'F-measure@0.5': 0.6666666666666666, 'Precision@3.0': 1.0, 'Recall@3.0': 0.5, 'F-measure@3.0': 0.6666666666666666, 'Ref-to-est deviation': np.float64",
        'cause': 'evaluate() crops / pads the annotations (util.adjust_intervals) BEFORE any validator runs: the fault is cut away or re-labelled instead of rejected'},
    ('segment', 'fault:est_n_by_1', 'evaluate'): {
        'call': "mir_eval.segment.evaluate(np.array([[0.0, 8.0]]), ['a'], np.array([[0.0], [4.5]]), ['chorus', 'Chorus'])",
        'observed': 'IndexError: index 1 is out of bounds for axis 1 with size 1',
        'cause': 'evaluate() preprocesses (util.adjust_intervals / _align_intervals index intervals[:, 1] and labels) BEFORE util.validate_intervals runs'},
    ('segment', 'fault:est_n_by_3', 'evaluate'): {
        'call': "mir_eval.segment.evaluate(np.array([[0.0, 2.0], [2.0, 4.0]]), ['a', 'b'], np.zeros((0, 3)), [])",
        'observed': "returned {'Precision@0.5': 1.0, 'Recall@0.5': 0.6666666666666666, 'F-measure@0.5': 0.8, 'Precision@3.0': 1.0, 'Recall@3.0': 0.6666666666666666, 'F-measure@3.0': 0.8, 'Ref-to-est deviation': np.float64",
        'cause': 'evaluate() crops / pads the annotations (util.adjust_intervals) BEFORE any validator runs: the fault is cut away or re-labelled instead of rejected'},
    ('segment', 'fault:est_negative_duration', 'evaluate'): {
        'call': "mir_eval.segment.evaluate(np.array([[0.0, 8.0]]), ['a'], np.array([[0.0, 4.5], [8.0, 4.5]]), ['chorus', 'Chorus'])",
        'observed': "returned {'Precision@0.5': 0.6666666666666666, 'Recall@0.5': 1.0, 'F-measure@0.5': 0.8, 'Precision@3.0': 0.6666666666666666, 'Recall@3.0': 1.0, 'F-measure@3.0': 0.8, 'Ref-to-est deviation': np.float64",
        'cause': 'evaluate() crops / pads the annotations (util.adjust_intervals) BEFORE any validator runs: the fault is cut away or re-labelled instead of rejected'},
    ('segment', 'fault:est_negative_time', 'evaluate'): {
        'call': "mir_eval.segment.evaluate(np.array([[0.0, 8.0]]), ['a'], np.array([[-0.5, 4.5], [4.5, 8.0]]), ['chorus', 'Chorus'])",
        'observed': "returned {'Precision@0.5': 0.6666666666666666, 'Recall@0.5': 1.0, 'F-measure@0.5': 0.8, 'Precision@3.0': 0.6666666666666666, 'Recall@3.0': 1.0, 'F-measure@3.0': 0.8, 'Ref-to-est deviation': np.float64",
        'cause': 'evaluate() crops / pads the annotations (util.adjust_intervals) BEFORE any validator runs: the fault is cut away or re-labelled instead of rejected'},
    ('segment', 'fault:est_zero_duration', 'evaluate'): {
        'call': "mir_eval.segment.evaluate(np.array([[0.0, 2.0], [2.0, 4.0]]), ['a', 'a'], np.array([[0.0, 0.0], [0.5, 1.0], [1.0, 4.0]]), ['A', 'b', 'Chorus'])",
        'observed': "returned {'Precision@0.5': 0.5, 'Recall@0.5': 0.6666666666666666, 'F-measure@0.5': 0.5714285714285715, 'Precision@3.0': 0.75, 'Recall@3.0': 1.0, 'F-measure@3.0': 0.8571428571428571, 'Ref-to-est deviat",
        'cause': 'evaluate() crops / pads the annotations (util.adjust_intervals) BEFORE any validator runs: the fault is cut away or re-labelled instead of rejected'},
    ('segment', 'fault:ref_1d', 'evaluate'): {
        'call': "mir_eval.segment.evaluate(np.array([0.0, 8.0]), ['a'], np.array([[0.0, 4.5], [4.5, 8.0]]), ['chorus', 'Chorus'])",
        'observed': 'IndexError: too many indices for array: array is 1-dimensional, but 2 were indexed',
        'cause': 'evaluate() preprocesses (util.adjust_intervals / _align_intervals index intervals[:, 1] and labels) BEFORE util.validate_intervals runs'},
    ('segment', 'fault:ref_3d', 'evaluate'): {
        'call': "mir_eval.segment.evaluate(np.array([[[0.0, 10.0]]]), ['b'], np.array([[0.0, 10.0]]), ['c'])",
        'observed': 'IndexError: index 1 is out of bounds for axis 1 with size 1',
        'cause': 'evaluate() preprocesses (util.adjust_intervals / _align_intervals index intervals[:, 1] and labels) BEFORE util.validate_intervals runs'},
    ('segment', 'fault:ref_n_by_1', 'evaluate'): {
        'call': "mir_eval.segment.evaluate(np.array([[0.0]]), ['a'], np.array([[0.0, 4.5], [4.5, 8.0]]), ['chorus', 'Chorus'])",
        'observed': 'IndexError: index 1 is out of bounds for axis 1 with size 1',
        'cause': 'evaluate() preprocesses (util.adjust_intervals / _align_intervals index intervals[:, 1] and labels) BEFORE util.validate_intervals runs'},
    ('segment', 'fault:ref_negative_duration', 'evaluate'): {
        'call': "mir_eval.segment.evaluate(np.array([[1.5, 0.0], [1.5, 2.0], [2.0, 4.0]]), ['Chorus', 'c', 'verse'], np.array([[0.0, 5.0], [5.0, 6.0]]), ['verse', 'c'])",
        'observed': "returned {'Precision@0.5': 1.0, 'Recall@0.5': 0.5, 'F-measure@0.5': 0.6666666666666666, 'Precision@3.0': 1.0, 'Recall@3.0': 0.5, 'F-measure@3.0': 0.6666666666666666, 'Ref-to-est deviation': np.float64",
        'cause': 'evaluate() crops / pads the annotations (util.adjust_intervals) BEFORE any validator runs: the fault is cut away or re-labelled instead of rejected'},
    ('segment', 'fault:ref_negative_time', 'evaluate'): {
        'call': "mir_eval.segment.evaluate(np.array([[-0.5, 8.0]]), ['a'], np.array([[0.0, 4.5], [4.5, 8.0]]), ['chorus', 'Chorus'])",
        'observed': "returned {'Precision@0.5': 0.6666666666666666, 'Recall@0.5': 1.0, 'F-measure@0.5': 0.8, 'Precision@3.0': 0.6666666666666666, 'Recall@3.0': 1.0, 'F-measure@3.0': 0.8, 'Ref-to-est deviation': np.float64",
        'cause': 'evaluate() crops / pads the annotations (util.adjust_intervals) BEFORE any validator runs: the fault is cut away or re-labelled instead of rejected'},
    ('segment', 'fault:ref_zero_duration', 'evaluate'): {
        'call': "mir_eval.segment.evaluate(np.array([[0.0, 0.0], [3.5, 10.0]]), ['b', 'Chorus'], np.array([[0.0, 10.0]]), ['chorus'])",
        'observed': "returned {'Precision@0.5': 1.0, 'Recall@0.5': 0.6666666666666666, 'F-measure@0.5': 0.8, 'Precision@3.0': 1.0, 'Recall@3.0': 0.6666666666666666, 'F-measure@3.0': 0.8, 'Ref-to-est deviation': np.float64",
        'cause': 'evaluate() crops / pads the annotations (util.adjust_intervals) BEFORE any validator runs: the fault is cut away or re-labelled instead of rejected'},
    ('segment', 'shape:empty_both', 'evaluate'): {
        'call': 'mir_eval.segment.evaluate(np.zeros((0, 2)), [], np.zeros((0, 2)), [])',
        'observed': "ValueError: Supplied intervals are empty, can't append new intervals",
        'cause': 'segment.evaluate calls util.adjust_intervals on the empty reference (t_max=None): ValueError although the metrics define scores for empty annotations'},
    ('segment', 'shape:empty_ref', 'evaluate'): {
        'call': "mir_eval.segment.evaluate(np.zeros((0, 2)), [], np.array([[0.0, 2.0], [2.0, 4.0]]), ['a', 'b'])",
        'observed': "ValueError: Supplied intervals are empty, can't append new intervals",
        'cause': 'segment.evaluate calls util.adjust_intervals on the empty reference (t_max=None): ValueError although the metrics define scores for empty annotations'},
    ('tempo', 'fault:weight_nan', 'detection'): {
        'call': 'mir_eval.tempo.detection(np.array([60.0, 96.0]), np.nan, np.array([30.0, 30.0]))',
        'observed': 'returned (np.float64(nan), False, False)',
        'cause': 'reference_weight < 0 or > 1 is False for NaN'},
    ('tempo', 'fault:weight_nan', 'evaluate'): {
        'call': 'mir_eval.tempo.evaluate(np.array([60.0, 96.0]), np.nan, np.array([30.0, 30.0]))',
        'observed': "returned {'P-score': np.float64(nan), 'One-correct': False, 'Both-correct': False}",
        'cause': 'reference_weight < 0 or > 1 is False for NaN'},
}


def _known_key(f):
    fn = f['function'].split('.', 1)[1]
    for (m, k, fnp), v in KNOWN.items():
        if m != f['module']:
            continue
        if not (k == f['kind'] or (k.endswith('*') and f['kind'].startswith(k[:-1]))):
            continue
        if not (fnp == fn or fnp == '*' or (fnp.endswith('*') and fn.startswith(fnp[:-1]))):
            continue
        return (m, k, fnp)
    return None


def is_known(f):
    return _known_key(f) is not None


def search(rng, n, include_known=False, modules=None, collapse=True):
    """All degenerate shapes + n random valid inputs per module through check_valid and check_faults.
    collapse=True keeps one finding per (module, kind, function)."""
    out = []
    seen = set()

    def add(fs):
        for f in fs:
            if not include_known and is_known(f):
                continue
            key = (f['module'], f['kind'], f['function'])
            if collapse and key in seen:
                continue
            seen.add(key)
            out.append(f)
    for m in (modules or MODULES):
        add(check_direct(m))
        for sname, mk in sorted(SHAPES.get(m, {}).items()):
            add(check_valid(m, mk(), shape=sname))
        k = n if m != 'separation' else max(1, n // 20)
        for _ in range(k):
            args = random_valid(m, rng)
            add(check_valid(m, args))
            add(check_faults(m, args, rng))
        for sname, mk in sorted(SHAPES.get(m, {}).items()):
            if m == 'separation' and sname not in ('single_source', 'short_signal'):
                continue
            a = mk()
            if not check_valid(m, a, shape=sname, entries=[e for e in ENTRY[m] if e[0] == 'evaluate']):
                add(check_faults(m, a, rng))
    return out


if __name__ == '__main__':
    import json
    import sys
    n = int(sys.argv[1]) if len(sys.argv) > 1 else 20
    mods = sys.argv[2].split(',') if len(sys.argv) > 2 else None
    fs = search(random.Random(0), n, include_known='--all' in sys.argv, modules=mods)
    for f in fs:
        print(json.dumps({k: f[k] for k in ('module', 'kind', 'function', 'observed', 'call')}, default=str))
    print(len(fs), 'findings')
