"""C15 oracle on the implementation: snapshot purity and repeatability of EVERY public function of every task module,
of util and of separation.

For a task, valid evaluate() arguments come from harness/gen_inputs.TASKS; the arguments of the individual metric
functions and helpers are derived from them by parameter name (with the intermediate values evaluate() itself would
compute: adjusted / merged intervals, cent / voicing arrays, matchings ...). Optional arrays and lists (est_voicing,
ref_reward, labels, weights ...) are passed explicitly, because an object can only be damaged if it is handed over.

  (a) 'does not modify its arguments': every argument object (arrays, lists, nested lists, dicts, and a dict passed as
      **kw) is deep-snapshotted bit for bit (dtype, shape, bytes) before the call and compared after it - also when the
      call raises;
  (b) 'repeatable: bit-identical results': the call is repeated with the same arguments, then again after calls of
      other task modules in random order; the three results (or exceptions) must be bit-identical.

Findings are dicts {'function','relation','input','observed','why'} (see harness/oracles/chord.py); `input` carries the
task and the seed from which gen_inputs regenerates the arguments, besides a rendering of the arguments.
No verdict of "holds" rests on this file (DESIGN.md 4.3): it searches for a concrete failing call."""
import hashlib
import importlib
import inspect
import random
import warnings

import numpy as np

from harness import gen_inputs as G

REL_ARGS = 'does not modify its arguments'
REL_REP = 'repeatable: bit-identical results'
TASK_MODULES = sorted(G.TASKS)
MODULES = TASK_MODULES + ['util']
SKIP = {('util', 'deprecated')}                      # a decorator factory, not an evaluation function
SLOW = {'separation'}


def finding(function, relation, inp, observed, why):
    return {'function': function, 'relation': relation, 'input': inp, 'observed': observed, 'why': why}


# ------------------------------------------------------------------------------------------------ snapshots
def snap(x):
    """deep, bit-exact, hashable-free description of an argument object"""
    if isinstance(x, np.ndarray):
        if x.dtype == object:
            return ('objarr', x.shape, [snap(v) for v in x.ravel().tolist()])
        return ('arr', str(x.dtype), x.shape, np.ascontiguousarray(x).tobytes())
    if isinstance(x, dict):
        return ('dict', [(repr(k), snap(v)) for k, v in x.items()])
    if isinstance(x, list):
        return ('list', [snap(v) for v in x])
    if isinstance(x, tuple):
        return ('tuple', [snap(v) for v in x])
    if isinstance(x, (set, frozenset)):
        return ('set', sorted(repr(snap(v)) for v in x))
    if isinstance(x, (np.floating, float)):
        return ('float', float(x).hex() if x == x else 'nan')
    if callable(x):
        return ('callable', getattr(x, '__name__', '?'))
    return ('val', type(x).__name__, repr(x))


def same_result(a, b):
    """bit-identical results (NaN equals NaN)"""
    if isinstance(a, np.ndarray) or isinstance(b, np.ndarray):
        if not (isinstance(a, np.ndarray) and isinstance(b, np.ndarray)) or a.dtype != b.dtype or a.shape != b.shape:
            return False
        if a.dtype == object:
            return all(same_result(u, v) for u, v in zip(a.ravel().tolist(), b.ravel().tolist()))
        if np.ascontiguousarray(a).tobytes() == np.ascontiguousarray(b).tobytes():
            return True
        try:
            return bool(np.array_equal(a, b, equal_nan=True)) and bool(np.array_equal(np.signbit(a), np.signbit(b)))
        except TypeError:
            return False
    if isinstance(a, dict) and isinstance(b, dict):
        return list(a.keys()) == list(b.keys()) and all(same_result(a[k], b[k]) for k in a)
    if isinstance(a, (list, tuple)) and isinstance(b, (list, tuple)):
        return type(a) is type(b) and len(a) == len(b) and all(same_result(u, v) for u, v in zip(a, b))
    if isinstance(a, (float, np.floating)) and isinstance(b, (float, np.floating)):
        return type(a) is type(b) and (repr(a) == repr(b))
    if type(a) is not type(b):
        return False
    try:
        return bool(a == b)
    except Exception:  # noqa
        return repr(a) == repr(b)


def render(x, depth=0):
    """JSON-able rendering of an argument (large arrays abbreviated: shape, head, digest)"""
    if isinstance(x, np.ndarray):
        if x.size <= 64 and x.dtype != object:
            return {'array': x.tolist(), 'dtype': str(x.dtype)}
        if x.dtype == object:
            return {'objarray': [render(v, depth + 1) for v in x.ravel().tolist()[:16]]}
        return {'array_shape': list(x.shape), 'dtype': str(x.dtype), 'head': x.ravel()[:6].tolist(),
                'sha1': hashlib.sha1(np.ascontiguousarray(x).tobytes()).hexdigest()[:12]}
    if isinstance(x, dict):
        return {str(k): render(v, depth + 1) for k, v in x.items()}
    if isinstance(x, (list, tuple)):
        return [render(v, depth + 1) for v in x[:40]]
    if isinstance(x, (np.floating, np.integer)):
        return x.item()
    if callable(x):
        return 'function ' + getattr(x, '__name__', '?')
    return x


def diff_path(a, b, path='arg'):
    """where two snapshots differ"""
    if a == b:
        return None
    if a[0] != b[0]:
        return path + ': kind %s -> %s' % (a[0], b[0])
    if a[0] in ('list', 'tuple'):
        if len(a[1]) != len(b[1]):
            return path + ': length %d -> %d' % (len(a[1]), len(b[1]))
        for i, (u, v) in enumerate(zip(a[1], b[1])):
            d = diff_path(u, v, '%s[%d]' % (path, i))
            if d:
                return d
    if a[0] == 'dict':
        ka, kb = [k for k, _ in a[1]], [k for k, _ in b[1]]
        if ka != kb:
            return path + ': keys %s -> %s' % (ka, kb)
        for (k, u), (_, v) in zip(a[1], b[1]):
            d = diff_path(u, v, '%s[%s]' % (path, k))
            if d:
                return d
    if a[0] == 'arr':
        if a[1:3] != b[1:3]:
            return path + ': dtype/shape %s%s -> %s%s' % (a[1], a[2], b[1], b[2])
        x, y = np.frombuffer(a[3], dtype=a[1]), np.frombuffer(b[3], dtype=b[1])
        idx = np.flatnonzero(~((x == y) | ((x != x) & (y != y)))) if x.dtype.kind == 'f' else np.flatnonzero(x != y)
        i = int(idx[0]) if len(idx) else 0
        return path + ': flat cell %d: %r -> %r (%d cells differ)' % (i, x[i].item(), y[i].item(), len(idx))
    return path + ': %r -> %r' % (a, b)


# ------------------------------------------------------------------------------------------------ calling
def call(fn, args, kwargs):
    with warnings.catch_warnings():
        warnings.simplefilter('ignore')
        try:
            return ('ok', fn(*args, **kwargs))
        except Exception as e:  # noqa
            return ('exc', (type(e).__name__, str(e)[:200]))


def same_outcome(a, b):
    if a[0] != b[0]:
        return False
    return a[1] == b[1] if a[0] == 'exc' else same_result(a[1], b[1])


def check_call(name, fn, args, kwargs, meta, interleave=None):
    """(a) and (b) on one call. args: list; kwargs: dict passed as **kwargs. Returns a finding or None."""
    before_a, before_k = [snap(a) for a in args], snap(kwargs)
    inp = dict(meta)
    inp['args'] = [render(a) for a in args]
    inp['kwargs'] = render(kwargs)
    r1 = call(fn, args, kwargs)
    for i, (b, a) in enumerate(zip(before_a, [snap(a) for a in args])):
        if a != b:
            return finding(name, REL_ARGS, inp, {'argument': i, 'change': diff_path(b, a, 'args[%d]' % i), 'after': render(args[i]),
                                                 'outcome': r1[0] if r1[0] == 'ok' else r1[1]},
                           'an object passed as argument differs after the call (deep bitwise comparison)')
    if snap(kwargs) != before_k:
        return finding(name, REL_ARGS, inp, {'argument': '**kwargs', 'change': diff_path(before_k, snap(kwargs), 'kwargs')},
                       'an object passed by keyword (or the dict unpacked with **) differs after the call')
    r2 = call(fn, args, kwargs)
    if not same_outcome(r1, r2):
        return finding(name, REL_REP, inp, {'first': render_outcome(r1), 'second': render_outcome(r2)},
                       'the same call, repeated immediately with the same argument objects, gives a different result')
    if [snap(a) for a in args] != before_a or snap(kwargs) != before_k:
        return finding(name, REL_ARGS, inp, {'call': 'second'}, 'an argument differs after the second call')
    if interleave is not None:
        others = interleave()
        r3 = call(fn, args, kwargs)
        if not same_outcome(r1, r3):
            return finding(name, REL_REP, inp, {'first': render_outcome(r1), 'after other calls': render_outcome(r3), 'interleaved': others},
                           'the result depends on calls of other functions made in between')
        if [snap(a) for a in args] != before_a:
            return finding(name, REL_ARGS, inp, {'call': 'third (or an interleaved call of another module)', 'interleaved': others},
                           'an argument differs after the interleaved calls')
    return None


def render_outcome(r):
    return {'raised': list(r[1])} if r[0] == 'exc' else render(r[1])


# ------------------------------------------------------------------------------------------------ argument pools
def _quiet(f, *a, **k):
    with warnings.catch_warnings():
        warnings.simplefilter('ignore')
        return f(*a, **k)


def pool_for(task, a, rng):
    """name -> value for the parameters of the public functions of one module; `special` overrides per function"""
    import mir_eval
    from mir_eval import util
    p, special = {}, {}
    if task == 'alignment':
        p.update(reference_timestamps=a[0], estimated_timestamps=a[1], duration=float(max(a[0].max(), a[1].max()) + 1.0))
    elif task == 'beat':
        p.update(reference_beats=a[0], estimated_beats=a[1], beats=a[0])
    elif task == 'onset':
        p.update(reference_onsets=a[0], estimated_onsets=a[1])
    elif task == 'tempo':
        p.update(reference_tempi=a[0], reference_weight=a[1], estimated_tempi=a[2], tempi=a[0])
    elif task == 'key':
        p.update(reference_key=a[0], estimated_key=a[1], key=a[0])
    elif task == 'pattern':
        p.update(ref_patterns=a[0], est_patterns=a[1], reference_patterns=a[0], estimated_patterns=a[1])
    elif task == 'separation':
        p.update(reference_sources=a[0], estimated_sources=a[1])
        for f in ('bss_eval_sources_framewise', 'bss_eval_images_framewise'):
            special[f] = {'window': 1024, 'hop': 512}
    elif task == 'hierarchy':
        p.update(ref_intervals_hier=a[0], ref_labels_hier=a[1], est_intervals_hier=a[2], est_labels_hier=a[3],
                 reference_intervals_hier=a[0], reference_labels_hier=a[1], estimated_intervals_hier=a[2], estimated_labels_hier=a[3],
                 intervals_hier=a[0], frame_size=0.5, window=4.0)
    elif task in ('segment', 'chord'):
        ri, rl, ei, el = a
        p.update(ref_intervals=ri, ref_labels=rl, est_intervals=ei, est_labels=el, trim=False, frame_size=0.25)
        try:
            fill = {'start_label': 'N', 'end_label': 'N'} if task == 'chord' else {}
            ari, arl = _quiet(util.adjust_intervals, ri, labels=list(rl), t_min=0.0, **fill)
            aei, ael = _quiet(util.adjust_intervals, ei, labels=list(el), t_min=0.0, t_max=float(ari.max()), **fill)
            p.update(reference_intervals=ari, estimated_intervals=aei)
            if task == 'segment':
                p.update(reference_labels=arl, estimated_labels=ael)
            else:
                iv, ml, nl = _quiet(util.merge_labeled_intervals, ari, arl, aei, ael)
                p.update(reference_labels=ml, estimated_labels=nl, intervals=ari, labels=arl)
                comp = _quiet(mir_eval.chord.majmin, ml, nl)
                p.update(comparisons=comp, weights=util.intervals_to_durations(iv))
        except Exception:  # noqa: the derived names stay unbound
            pass
        if task == 'chord':
            lab = rng.choice(G.CHORDS)
            p.update(chord_label=lab, chord_labels=list(rl), quality='min7', scale_degree='b7', pitch_class='F#',
                     bitmap=np.array([1, 0, 0, 0, 1, 0, 0, 1, 0, 0, 0, 0]), bitmaps=np.array([[1, 0, 0, 0, 1, 0, 0, 1, 0, 0, 0, 0]] * 3),
                     roots=np.array([0, 5, -1]), extensions={'b7', '9'})
            special['join'] = {'chord_root': 'C', 'quality': 'maj', 'extensions': ['b7', '9'], 'bass': '3'}
            special['rotate_bitmap_to_root'] = {'chord_root': 7}
    elif task == 'melody':
        rt, rf, et, ef = a
        ev = np.array([rng.choice([0.0, 0.5, 1.0, 1.0]) for _ in et])
        rr = np.array([rng.choice([0.5, 1.0, 1.0]) for _ in rt])
        p.update(ref_time=rt, ref_freq=rf, est_time=et, est_freq=ef, est_voicing=ev, ref_reward=rr, frequencies=rf,
                 voicing=np.array([rng.choice([0.0, 0.5, 1.0, 1.0]) for _ in rf]), freq_hz=rf, times=rt,
                 times_new=np.arange(0, float(rt.max()) + 1e-9, 0.0625), hop=0.0625, end_time=float(rt.max()))
        try:
            rv, rc, ev2, ec = _quiet(mir_eval.melody.to_cent_voicing, rt, rf, et, ef, ev.copy(), rr.copy())
            for f in ('overall_accuracy', 'raw_chroma_accuracy', 'raw_pitch_accuracy', 'validate', 'validate_voicing', 'voicing_false_alarm',
                      'voicing_measures', 'voicing_recall'):
                special[f] = {'ref_voicing': rv, 'ref_cent': rc, 'est_voicing': ev2, 'est_cent': ec}
        except Exception:  # noqa
            pass
    elif task == 'multipitch':
        rt, rf, et, ef = a
        M = mir_eval.multipitch
        p.update(ref_time=rt, ref_freqs=rf, est_time=et, est_freqs=ef, times=et, frequencies=ef, target_times=rt)
        try:
            rm = M.frequencies_to_midi(rf)
            em = M.frequencies_to_midi(M.resample_multipitch(et, ef, rt))
            p.update(frequencies_midi=rm)
            special['compute_num_true_positives'] = {'ref_freqs': rm, 'est_freqs': em}
            tp = M.compute_num_true_positives(rm, em)
            for f in ('compute_accuracy', 'compute_err_score'):
                special[f] = {'true_positives': tp, 'n_ref': M.compute_num_freqs(rm), 'n_est': M.compute_num_freqs(em)}
        except Exception:  # noqa
            pass
    elif task == 'transcription':
        p.update(ref_intervals=a[0], ref_pitches=a[1], est_intervals=a[2], est_pitches=a[3])
        try:
            p.update(matching=_quiet(mir_eval.transcription.match_notes, a[0], a[1], a[2], a[3]))
        except Exception:  # noqa
            pass
    elif task == 'transcription_velocity':
        p.update(ref_intervals=a[0], ref_pitches=a[1], ref_velocities=a[2], est_intervals=a[3], est_pitches=a[4], est_velocities=a[5])
    return p, special


def pool_util(rng):
    ri, rl, ei, el = G.segment(rng)
    ref, est = G.onset(rng)
    from mir_eval import util
    p = dict(intervals=ri, labels=rl, events=util.intervals_to_boundaries(ri), boundaries=util.intervals_to_boundaries(ri),
             t_min=rng.choice([None, 0.0, 0.5, 1.0]), t_max=rng.choice([None, 3.0, 12.0]),
             precision=rng.choice([0.0, 0.5, 1.0]), recall=rng.choice([0.0, 0.25, 1.0]), items=list(rl),
             freqs=np.array([220.0, 440.0, 466.1637615180899]), midi=np.array([57.0, 69.0, 70.0]),
             time_points=np.arange(0.0, float(ri.max()) + 0.5, 0.25), flist1=['a/x.lab', 'a/y.lab'], flist2=['b/y.txt', 'b/z.txt'],
             ref=ref, est=est, window=0.05, frequencies=np.array([110.0, 220.0, 440.0]), max_freq=5000.0, min_freq=20.0)
    p['function'] = util.f_measure
    special = {}
    try:
        ari, arl = _quiet(util.adjust_intervals, ri, labels=list(rl), t_min=0.0)
        aei, ael = _quiet(util.adjust_intervals, ei, labels=list(el), t_min=0.0, t_max=float(ari.max()))
        special['merge_labeled_intervals'] = {'x_intervals': ari, 'x_labels': arl, 'y_intervals': aei, 'y_labels': ael}
    except Exception:  # noqa
        pass
    special['adjust_events'] = {'labels': ['e%d' % i for i in range(len(p['events']))]}
    return p, special


KWARGS = {
    'alignment': [{}, {'window': 0.5}], 'beat': [{}, {'f_measure_threshold': 0.1, 'bins': 21}], 'chord': [{}],
    'hierarchy': [{'frame_size': 0.5, 'window': 4.0}], 'key': [{}], 'melody': [{}, {'cent_tolerance': 25.0, 'hop': 0.0625}],
    'multipitch': [{}, {'window': 1.0}], 'onset': [{}, {'window': 0.1}], 'pattern': [{}, {'thres': 0.6, 'n': 3, 'tol': 1e-3}],
    'segment': [{}, {'window': 1.0, 'frame_size': 0.25, 'beta': 2.0, 'trim': True}], 'separation': [{}],
    'tempo': [{}, {'tol': 0.1}], 'transcription': [{}, {'offset_ratio': 0.25, 'onset_tolerance': 0.1}],
    'transcription_velocity': [{}, {'offset_ratio': 0.25, 'velocity_tolerance': 0.2}],
}


def public_functions(modname):
    mod = importlib.import_module('mir_eval.' + modname)
    out = []
    for n, f in inspect.getmembers(mod, inspect.isfunction):
        if f.__module__ == mod.__name__ and not n.startswith('_') and (modname, n) not in SKIP:
            out.append((n, f))
    return out


def bind(fn, fname, pool, special, rng):
    """-> (args list, kwargs dict) or the name of a required parameter that could not be bound"""
    over = special.get(fname, {})
    sig = inspect.signature(fn)
    args, kw = [], {}
    for name, prm in sig.parameters.items():
        if prm.kind == prm.VAR_POSITIONAL:
            continue
        if prm.kind == prm.VAR_KEYWORD:
            continue
        if name in over:
            val = over[name]
        elif name in pool and (prm.default is prm.empty or name in OPTIONAL_ALWAYS or rng.random() < 0.7):
            val = pool[name]
        elif prm.default is prm.empty:
            return name
        else:
            continue
        if prm.default is prm.empty and not kw:
            args.append(val)
        else:
            kw[name] = val
    return args, kw


OPTIONAL_ALWAYS = {'est_voicing', 'ref_reward', 'labels', 'voicing', 'duration'}


# ------------------------------------------------------------------------------------------------ sweeps
def task_calls(task, seed, rng):
    """all calls for one generated input of one task: [(qualified name, fn, args, kwargs-as-dict-for-**)]"""
    a = G.TASKS[task](random.Random(seed))
    pool, special = pool_for(task, a, rng)
    calls, unbound = [], []
    for n, f in public_functions(task):
        if n == 'evaluate':
            kw = dict(rng.choice(KWARGS[task]))
            args = list(a)
            if task == 'melody':
                kw.update(est_voicing=pool['est_voicing'], ref_reward=pool['ref_reward'])
            calls.append(('%s.evaluate' % task, f, args, kw))
            continue
        b = bind(f, n, pool, special, rng)
        if isinstance(b, str):
            unbound.append('%s.%s(%s)' % (task, n, b))
            continue
        calls.append(('%s.%s' % (task, n), f, b[0], b[1]))
    return calls, unbound


def util_calls(seed, rng):
    from mir_eval import util
    pool, special = pool_util(random.Random(seed))
    calls, unbound = [], []
    for n, f in public_functions('util'):
        if n == 'filter_kwargs':
            calls.append(('util.filter_kwargs', f, [util.f_measure, 0.5, 0.25], {'beta': 2.0, 'unused': [1, 2]}))
            continue
        b = bind(f, n, pool, special, rng)
        if isinstance(b, str):
            unbound.append('util.%s(%s)' % (n, b))
            continue
        calls.append(('util.' + n, f, b[0], b[1]))
    return calls, unbound


def interleaver(rng, exclude):
    """calls evaluate() of up to three other (fast) task modules, in random order, on fresh inputs"""
    def run():
        names = [t for t in TASK_MODULES if t != exclude and t not in SLOW]
        rng.shuffle(names)
        done = []
        for t in names[:rng.choice([1, 2, 3])]:
            s = rng.randrange(1 << 30)
            mod = importlib.import_module('mir_eval.' + t)
            call(mod.evaluate, list(G.TASKS[t](random.Random(s))), {})
            done.append('%s.evaluate(seed %d)' % (t, s))
        return done
    return run


def sweep(rng, n, modules=None, first_only=False):
    """n generated inputs per module (fewer for separation); every public function on each. -> list of findings"""
    out = []
    for m in (modules or MODULES):
        k = max(1, n // 8) if m in SLOW else n
        for _ in range(k):
            seed = rng.randrange(1 << 30)
            calls, _unbound = util_calls(seed, rng) if m == 'util' else task_calls(m, seed, rng)
            for name, f, args, kw in calls:
                fd = check_call(name, f, args, kw, {'module': m, 'seed': seed}, interleave=interleaver(rng, m))
                if fd:
                    out.append(fd)
                    if first_only:
                        return out
    return out


def search(rng, n):
    return sweep(rng, n)


def coverage(rng=None):
    """which public functions get called, which cannot be bound (for the report)"""
    rng = rng or random.Random(0)
    called, unbound = set(), set()
    for m in MODULES:
        for _ in range(6):
            seed = rng.randrange(1 << 30)
            calls, ub = util_calls(seed, rng) if m == 'util' else task_calls(m, seed, rng)
            called.update(c[0] for c in calls)
            unbound.update(ub)
    unbound = {u for u in unbound if u.split('(')[0] not in called}
    return sorted(called), sorted(unbound)
