"""C03 oracle: interpret the documented bundle (Model/EvalSpec.v, printed by Coq) against the real metric functions and compare
with what the real evaluate() returns (key order, scalar-ness, values)."""
import importlib
import inspect
import math
import re

import numpy as np
from lib import core

MODULES = ['alignment', 'beat', 'chord', 'hierarchy', 'key', 'melody', 'multipitch', 'onset', 'pattern', 'segment',
           'separation', 'tempo', 'transcription', 'transcription_velocity']

_TOK = re.compile(r'\s*(?:("(?:[^"]|"")*")|([A-Za-z_][A-Za-z_0-9.\']*)|(-?\d+)|([()\[\];,]))')


def parse_term(text):
    """Parse Coq's printed constructor terms: C a b, (..), [a; b], (a, b), "str", 12."""
    toks = []
    pos = 0
    text = text.strip()
    while pos < len(text):
        m = _TOK.match(text, pos)
        if not m:
            raise ValueError('cannot tokenise at %r' % text[pos:pos + 40])
        pos = m.end()
        if m.group(1) is not None:
            toks.append(('s', m.group(1)[1:-1].replace('""', '"')))
        elif m.group(2) is not None:
            toks.append(('i', m.group(2)))
        elif m.group(3) is not None:
            toks.append(('n', int(m.group(3))))
        else:
            toks.append(('p', m.group(4)))
    i = [0]

    def peek():
        return toks[i[0]] if i[0] < len(toks) else None

    def eat():
        t = toks[i[0]]
        i[0] += 1
        return t

    def atom():
        t = eat()
        if t[0] == 's':
            return t[1]
        if t[0] == 'n':
            return t[1]
        if t[0] == 'i':
            return (t[1],)
        if t == ('p', '('):
            first = app()
            items = [first]
            while peek() == ('p', ','):
                eat()
                items.append(app())
            assert eat() == ('p', ')')
            return first if len(items) == 1 else ('tuple',) + tuple(items)
        if t == ('p', '['):
            items = []
            if peek() != ('p', ']'):
                items.append(app())
                while peek() == ('p', ';'):
                    eat()
                    items.append(app())
            assert eat() == ('p', ']')
            return items
        raise ValueError('unexpected token %r' % (t,))

    def app():
        head = atom()
        if isinstance(head, tuple) and len(head) == 1 and head[0] != 'tuple':
            args = []
            while peek() is not None and peek() not in (('p', ')'), ('p', ']'), ('p', ';'), ('p', ',')):
                args.append(atom())
            return (head[0],) + tuple(args)
        return head
    r = app()
    assert i[0] == len(toks), 'trailing tokens'
    return r


_specs = {}


def load_specs():
    if _specs:
        return _specs
    res, log = core.coq_eval(['ME.Model.EvalLang', 'ME.Model.EvalSpec'], ['%s_spec' % m for m in MODULES], scope='string_scope')
    if res is None:
        raise RuntimeError('cannot evaluate the specs: ' + log[-400:])
    for m, r in zip(MODULES, res):
        _specs[m] = parse_term(r)
    return _specs


def const_val(c):
    if c == ('CNone',):
        return None
    if c[0] == 'CBool':
        return c[1] == ('true',)
    if c[0] == 'CNum':
        return c[1] / c[2] if c[2] != 1 else float(c[1])
    if c[0] == 'CStr':
        return c[1]
    raise ValueError(c)


class Interp:
    def __init__(self, modname, inputs, kwargs):
        self.mod = importlib.import_module('mir_eval.' + modname)
        self.inputs = inputs
        self.kw = dict(kwargs)
        self.cache = {}

    def fn(self, name):
        obj = self.mod
        if name == 'min':
            return min
        for part in name.split('.'):
            obj = getattr(obj, part)
        return obj

    def kws(self, s):
        """-> (present, value)"""
        if s[0] == 'KBase':
            return (s[1] in self.kw, self.kw.get(s[1]))
        if s[0] == 'KConst':
            return (True, const_val(s[1]))
        if s[0] == 'KDefault':
            return (True, self.kw[s[1]] if s[1] in self.kw else const_val(s[2]))
        raise ValueError(s)

    def ev(self, v):
        key = repr(v)
        if key in self.cache:
            return self.cache[key]
        t = v[0]
        if t == 'VInput':
            r = self.inputs[v[1]]
        elif t == 'VGlobal':
            r = getattr(self.mod, v[1])
        elif t == 'VConst':
            r = const_val(v[1])
        elif t == 'VProj':
            r = self.ev(v[3])[v[1]]
        elif t == 'VMethod':
            r = getattr(self.ev(v[2]), v[1])(*[self.ev(a) for a in v[3]])
        elif t == 'VAttr':
            r = getattr(self.ev(v[2]), v[1])
        elif t == 'VCall':
            f = self.fn(v[1])
            args = [self.ev(a) for a in v[2]]
            mode = v[4][0]
            kw = {}
            if mode != 'PNone':
                # the caller's own keywords reach the callee when it declares them (PDeclared) / all of them (PAll)
                sig = inspect.signature(f)
                names = [p.name for p in sig.parameters.values() if p.kind in (p.POSITIONAL_ONLY, p.POSITIONAL_OR_KEYWORD)]
                for k, val in self.kw.items():
                    if mode == 'PAll' or k in names:
                        kw[k] = val
            for item in v[3]:
                name, kv = item[1], item[2]
                if kv[0] == 'KwExpr':
                    kw[name] = self.ev(kv[1])
                else:
                    present, val = self.kws(kv[1])
                    if present:
                        kw[name] = val
                    else:
                        kw.pop(name, None)
            r = f(*args, **kw)
        else:
            raise ValueError(v)
        self.cache[key] = r
        return r



def same(a, b):
    if isinstance(a, (list, tuple)) or isinstance(b, (list, tuple)):
        return isinstance(a, (list, tuple)) and isinstance(b, (list, tuple)) and len(a) == len(b) and all(same(x, y) for x, y in zip(a, b))
    try:
        fa, fb = float(a), float(b)
    except Exception:  # noqa
        return a == b
    return (math.isnan(fa) and math.isnan(fb)) or fa == fb


def is_scalar(x):
    return isinstance(x, (int, float, bool, np.bool_, np.integer, np.floating)) or (isinstance(x, np.ndarray) and x.ndim == 0)


def check(modname, args, kwargs):
    """Run the real evaluate and the interpreted documented bundle; returns a finding or None.
    Exceptions raised by evaluate() itself are outside C03 (they belong to C14)."""
    import warnings
    mod = importlib.import_module('mir_eval.' + modname)
    params = [p for p in inspect.signature(mod.evaluate).parameters.values() if p.kind == p.POSITIONAL_OR_KEYWORD]
    with warnings.catch_warnings():
        warnings.simplefilter('ignore')
        try:
            got = mod.evaluate(*args, **dict(kwargs))
        except Exception:  # noqa
            return None
        inputs = {p.name: (args[i] if i < len(args) else p.default) for i, p in enumerate(params)}
        spec = load_specs()[modname]
        keys = list(got.keys())
        cands = [p for p in spec if [e[1] for e in p[2]] == keys]
        if not cands:
            return {'function': modname + '.evaluate', 'relation': 'fixed, documented set of metric names in the documented order',
                    'input': describe(args, kwargs), 'observed': keys, 'why': 'no documented path has this key list: %s' % [[e[1] for e in p[2]] for p in spec]}
        if modname != 'separation':
            for k, v in got.items():
                if not is_scalar(v):
                    return {'function': modname + '.evaluate', 'relation': 'values are real scalars', 'input': describe(args, kwargs),
                            'observed': [k, repr(v)[:100]], 'why': 'not a scalar'}
        last = None
        for path in cands:
            it = Interp(modname, inputs, kwargs)
            bad = None
            try:
                for e in path[2]:
                    want = it.ev(e[2])
                    if not same(got[e[1]], want):
                        bad = {'function': modname + '.evaluate', 'relation': 'each value equals the documented metric call',
                               'input': describe(args, kwargs), 'observed': [e[1], repr(got[e[1]])[:80]],
                               'why': 'documented call gives %s' % repr(want)[:80]}
                        break
            except Exception as ex:  # noqa
                bad = {'function': modname + '.evaluate', 'relation': 'each value equals the documented metric call',
                       'input': describe(args, kwargs), 'observed': 'evaluate() returned', 'why': 'the documented call raised %s: %s' % (type(ex).__name__, str(ex)[:100])}
            if bad is None:
                return None
            last = bad
        return last


def describe(args, kwargs):
    def d(x):
        if isinstance(x, np.ndarray):
            return x.tolist() if x.size <= 64 else 'array%s' % (x.shape,)
        if isinstance(x, (list, tuple)):
            return [d(y) for y in x]
        return x
    return {'args': [d(a) for a in args], 'kwargs': dict(kwargs)}


# keyword probes per module: parameters of the underlying metric functions with in-range values, plus unrelated ones
PROBES = {
    'beat': [{}, {'f_measure_threshold': 0.125}, {'min_beat_time': 2.0}, {'p_score_threshold': 0.25, 'bins': 21}, {'cemgil_sigma': 0.0625, 'goto_threshold': 0.25},
             {'continuity_phase_threshold': 0.25, 'continuity_period_threshold': 0.25}, {'unrelated': 3}],
    'onset': [{}, {'window': 0.125}, {'unrelated': 1}],
    'segment': [{}, {'trim': True}, {'frame_size': 0.25}, {'beta': 2.0}, {'beta': 0.5}, {'window': 7.0}, {'marginal': True}, {'unrelated': 0}],
    'pattern': [{}, {'n': 1}, {'tol': 0.5}, {'similarity_metric': 'cardinality_score'}, {'thres': 0.25}, {'thresh': 0.1}, {'unrelated': 0}],
    'transcription': [{}, {'offset_ratio': None}, {'offset_ratio': 0.5}, {'onset_tolerance': 0.125, 'strict': True}, {'pitch_tolerance': 25.0},
                      {'offset_min_tolerance': 0.25, 'beta': 2.0}, {'beta': 0.5}, {'onset_tolerance': 0.125, 'offset_min_tolerance': 0.03125}, {'unrelated': 0}],
    'transcription_velocity': [{}, {'offset_ratio': None}, {'velocity_tolerance': 0.25}, {'onset_tolerance': 0.125, 'strict': True}, {'unrelated': 0}],
    'hierarchy': [{}, {'frame_size': 0.5}, {'window': 4.0}, {'beta': 2.0}, {'beta': 0.5}, {'transitive': False}, {'unrelated': 0}],
    'melody': [{}, {'cent_tolerance': 25.0}, {'hop': 0.0625}, {'kind': 'linear'}, {'base_frequency': 20.0}, {'unrelated': 0}],
    'multipitch': [{}, {'window': 0.25}, {'unrelated': 0}],
    'tempo': [{}, {'tol': 0.04}, {'unrelated': 0}],
    'key': [{}, {'unrelated': 0}],
    'chord': [{}, {'unrelated': 0}],
    'alignment': [{}, {'window': 0.25}, {'unrelated': 0}],
    'separation': [{}],
}
