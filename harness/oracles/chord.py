"""Property oracles on the implementation for the chord properties (C09-C12): they state the property directly on
mir_eval's API. Used only to search for a concrete failing input once a proof obligation or a correspondence no
longer checks (DESIGN.md 4.3); no verdict of "holds" rests on them."""
import re
from lib import core

# the documented Harte syntax, assembled independently of chord.CHORD_RE
_ACC = r'(?:b*|#*)'
_DEG = _ACC + r'(?:1[0-3]?|[2-9])'
_ITEM = r'\*?' + _DEG
_LIST = r'\(' + _ITEM + r'(?:,' + _ITEM + r')*\)'
_SHORT = ['maj', 'min', 'dim', 'aug', '1', '5', 'sus2', 'sus4', 'maj6', 'min6', '7', 'maj7', 'min7', 'dim7', 'hdim7', 'minmaj7',
          'aug7', '9', 'maj9', 'min9', '11', 'maj11', 'min11', '13', 'maj13', 'min13']
HARTE = re.compile(r'(?:[NX]|[A-G]' + _ACC + r'(?::(?:(?:' + '|'.join(sorted(_SHORT, key=len, reverse=True)) + r')(?:' + _LIST + r')?|' + _LIST + r'))?(?:/' + _DEG + r')?)\Z')

DEGREE_SEMITONE = {'1': 0, '2': 2, '3': 4, '4': 5, '5': 7, '6': 9, '7': 11, '8': 12, '9': 14, '10': 16, '11': 17, '12': 19, '13': 21}
QUALITY_DEGREES = {
    'maj': '1 3 5', 'min': '1 b3 5', 'aug': '1 3 #5', 'dim': '1 b3 b5', 'sus4': '1 4 5', 'sus2': '1 2 5', '7': '1 3 5 b7',
    'maj7': '1 3 5 7', 'min7': '1 b3 5 b7', 'minmaj7': '1 b3 5 7', 'maj6': '1 3 5 6', 'min6': '1 b3 5 6', 'dim7': '1 b3 b5 bb7',
    'hdim7': '1 b3 b5 b7', 'maj9': '1 3 5 7 9', 'min9': '1 b3 5 b7 9', '9': '1 3 5 b7 9', 'b9': '1 3 5 b7 b9', '#9': '1 3 5 b7 #9',
    'min11': '1 b3 5 b7 9 11', '11': '1 3 5 b7 9 11', '#11': '1 3 5 b7 9 #11', 'maj13': '1 3 5 7 9 11 13',
    'min13': '1 b3 5 b7 9 11 13', '13': '1 3 5 b7 9 11 13', 'b13': '1 3 5 b7 9 11 b13', '1': '1', '5': '1 5', '': ''}


def deg_semitone(d):
    acc = d.rstrip('0123456789')
    return DEGREE_SEMITONE[d[len(acc):]] + acc.count('#') - acc.count('b')


def documented_bitmap(quality):
    bm = [0] * 12
    for d in QUALITY_DEGREES[quality].split():
        s = deg_semitone(d)
        if s < 12:
            bm[s % 12] = 1
    return bm


def finding(function, relation, inp, observed, why):
    return {'function': function, 'relation': relation, 'input': inp, 'observed': observed, 'why': why}


def check_label(C, label):
    """All C10 clauses on one string. Returns a finding dict or None."""
    acc = bool(HARTE.match(label))
    try:
        C.validate_chord_label(label)
        v = True
    except C.InvalidChordException:
        v = False
    except Exception as e:  # noqa
        return finding('chord.validate_chord_label', 'raises only InvalidChordException', label, type(e).__name__, 'other exception class')
    if v != acc:
        return finding('chord.validate_chord_label', 'acceptance coincides with the Harte syntax', label, v,
                       'validate accepts=%s, documented grammar accepts=%s' % (v, acc))
    encs = {}
    # strict_bass_intervals must not depend on earlier (lenient) calls: strict, lenient, strict again
    def _enc(red, strict):
        try:
            e = C.encode(label, red, strict)
            return (int(e[0]), [int(x) for x in e[1]], int(e[2]))
        except C.InvalidChordException:
            return 'InvalidChordException'
        except Exception as ex:  # noqa
            return type(ex).__name__
    for red in (False, True):
        first = _enc(red, True)
        _enc(red, False)
        again = _enc(red, True)
        if first != again:
            return finding('chord.encode', 'strict_bass_intervals: the result does not depend on earlier calls', [label, red], [first, again],
                           'encode(label, %s, True) before and after a non-strict call' % red)
    for red in (False, True):
        try:
            parts = C.split(label, red)
        except C.InvalidChordException:
            parts = None
        except Exception as e:  # noqa
            return finding('chord.split', 'raises only InvalidChordException', [label, red], type(e).__name__, 'other exception class')
        for strict in (False, True):
            try:
                e = C.encode(label, red, strict)
                encs[(red, strict)] = (int(e[0]), [int(x) for x in e[1]], int(e[2]))
            except C.InvalidChordException:
                encs[(red, strict)] = None
            except Exception as ex:  # noqa
                return finding('chord.encode', 'raises only InvalidChordException', [label, red, strict], type(ex).__name__, 'other exception class')
            e = encs[(red, strict)]
            if e is None:
                continue
            if label == 'N':
                ok = e == (-1, [0] * 12, -1)
            elif label == 'X':
                ok = e == (-1, [-1] * 12, -1)
            else:
                ok = 0 <= e[0] < 12 and 0 <= e[2] < 12 and len(e[1]) == 12 and all(x in (0, 1) for x in e[1]) and e[1][e[2]] == 1
            if not ok:
                return finding('chord.encode', 'sound encoding (root/bass in 0..11, 0/1 bitmap containing the bass; sentinels)',
                               [label, red, strict], e, 'malformed encoding')
        if encs[(red, True)] is not None and encs[(red, True)] != encs[(red, False)]:
            return finding('chord.encode', 'strict_bass_intervals only rejects', [label, red], [encs[(red, True)], encs[(red, False)]], 'differs')
        if parts is not None and label not in ('N', 'X') and encs[(red, False)] is not None:
            try:
                j = C.join(*parts)
                e2 = C.encode(j, red, False)
                e2 = (int(e2[0]), [int(x) for x in e2[1]], int(e2[2]))
            except Exception as ex:  # noqa
                return finding('chord.join', 'join(split(label)) has the identical encoding', [label, red], type(ex).__name__, 'raised')
            if e2 != encs[(red, False)]:
                return finding('chord.join', 'join(split(label)) has the identical encoding', [label, red], [j, e2, encs[(red, False)]], 'differs')
    return None


def _enc_label(C, label, red):
    try:
        e = C.encode(label, red, False)
        return (int(e[0]), [int(x) for x in e[1]], int(e[2]))
    except Exception as ex:  # noqa
        return type(ex).__name__


def check_quality(C, q):
    """Shorthand q encodes to its documented interval content (on root C)."""
    try:
        e = C.encode('C:' + q if q else 'C:(1)', False, False)
    except Exception as ex:  # noqa
        return None
    want = documented_bitmap(q)
    want[0] = 1
    got = [int(x) for x in e[1]]
    if got != want:
        return finding('chord.encode', 'quality shorthands as documented', 'C:' + q, got, 'documented bitmap %s' % want)
    return None


RULES = ['thirds', 'thirds_inv', 'triads', 'triads_inv', 'tetrads', 'tetrads_inv', 'root', 'mirex', 'majmin', 'majmin_inv',
         'sevenths', 'sevenths_inv']
IMPLIES = [('tetrads_inv', 'tetrads'), ('tetrads', 'triads'), ('triads', 'thirds'), ('thirds', 'root'), ('triads_inv', 'triads'),
           ('thirds_inv', 'thirds'), ('majmin_inv', 'majmin'), ('sevenths_inv', 'sevenths'), ('majmin', 'triads'), ('sevenths', 'tetrads')]


def cmp_vector(C, r, e):
    out = {}
    for name in RULES:
        out[name] = float(getattr(C, name)([r], [e])[0])
    return out


def check_pair(C, r, e, others=()):
    """All C11 clauses on one pair of valid, encodable labels (others: further estimates for the ref-only clause)."""
    try:
        v = cmp_vector(C, r, e)
    except Exception:  # noqa  (invalid / unencodable labels are outside C11)
        return None
    for name, x in v.items():
        if x not in (1.0, 0.0, -1.0):
            return finding('chord.' + name, 'returns 1, 0 or -1', [r, e], x, 'other value')
    for a, b in IMPLIES:
        if v[a] == 1.0 and v[b] != 1.0:
            return finding('chord.' + a, '%s = 1 implies %s = 1' % (a, b), [r, e], [v[a], v[b]], 'implication broken')
    if v['tetrads'] == 1.0 and v['mirex'] == 0.0:
        return finding('chord.mirex', 'a tetrads match is never a mirex mismatch', [r, e], v['mirex'], '')
    if r == 'X' and any(x != -1.0 for x in v.values()):
        return finding('chord.*', 'X is always ignored', [r, e], v, '')
    for o in others:
        try:
            w = cmp_vector(C, r, o)
        except Exception:  # noqa
            continue
        for name in RULES:
            if (v[name] == -1.0) != (w[name] == -1.0):
                return finding('chord.' + name, 'whether a pair is ignored depends on the reference alone', [r, e, o], [v[name], w[name]], '')
    try:
        s = cmp_vector(C, r, r)
    except Exception:  # noqa
        return None
    for name, x in s.items():
        if x == 0.0:
            return finding('chord.' + name, 'a label compared with itself never gives 0', [r, r], x, '')
    # vocabularies
    try:
        rt, bm, bs = C.encode(r)
    except Exception:  # noqa
        return None
    bm = [int(x) for x in bm]
    mm = bm[:8] in ([1, 0, 0, 0, 1, 0, 0, 1], [1, 0, 0, 1, 0, 0, 0, 1]) or (rt < 0 and not any(bm))
    sv = bm in [documented_bitmap(q) for q in ('maj', 'min', 'maj7', '7', 'min7', '')]
    tone = bs < 0 or bm[bs] != 0
    exp = {'majmin': not mm, 'sevenths': not sv, 'majmin_inv': (not mm) or not tone, 'sevenths_inv': (not sv) or not tone}
    for name, ign in exp.items():
        if (v[name] == -1.0) != ign:
            return finding('chord.' + name, 'documented vocabulary of ' + name, [r, e], v[name], 'expected ignored=%s' % ign)
    return None
