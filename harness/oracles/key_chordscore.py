"""Property oracles on the implementation for chord.weighted_accuracy, transposition / respelling of chord label pairs
(C09) and key.weighted_score. They state the properties directly on mir_eval's API and are used only to search for a
concrete failing input once a proof obligation or a correspondence no longer checks; no verdict of "holds" rests on
them. Every function returns None or a finding dict {'function','relation','input','observed','why'}."""
import math
import re

TOL = 1e-9
RULES = ['thirds', 'thirds_inv', 'triads', 'triads_inv', 'tetrads', 'tetrads_inv', 'root', 'mirex', 'majmin', 'majmin_inv',
         'sevenths', 'sevenths_inv']


def finding(function, relation, inp, observed, why):
    return {'function': function, 'relation': relation, 'input': inp, 'observed': observed, 'why': why}


def _call(fn, *a):
    import warnings
    try:
        with warnings.catch_warnings():
            warnings.simplefilter('ignore')
            v = fn(*a)
        return ('ok', v)
    except Exception as e:  # noqa
        return ('exc', type(e).__name__)


def _same(a, b):
    if a[0] != b[0]:
        return False
    if a[0] == 'exc':
        return a[1] == b[1]
    x, y = float(a[1]), float(b[1])
    if math.isnan(x) or math.isnan(y):
        return math.isnan(x) and math.isnan(y)
    return abs(x - y) <= TOL


# ------------------------------------------------------------------------------------------------------------------
# A. chord.weighted_accuracy
# ------------------------------------------------------------------------------------------------------------------

def _wa(C, c, w):
    import numpy as np
    return _call(C.weighted_accuracy, np.array(c, dtype=float), np.array(w, dtype=float))


def check_wa_scale(C, c, w, k):
    """k > 0: scaling all weights by k changes nothing (same score, same exception, same nan)."""
    a, b = _wa(C, c, w), _wa(C, c, [k * x for x in w])
    if not _same(a, b):
        return finding('chord.weighted_accuracy', 'invariant under scaling all weights by k > 0', [c, w, k], [a, b], 'differs')
    return None


def check_wa_split(C, c, w, i, a):
    """Replacing row i (c_i, w_i) by (c_i, a), (c_i, w_i - a) with 0 <= a <= w_i changes nothing."""
    if not (0 <= i < min(len(c), len(w))) or not (0 <= a <= w[i]):
        return None
    c2 = c[:i] + [c[i], c[i]] + c[i + 1:]
    w2 = w[:i] + [a, w[i] - a] + w[i + 1:]
    x, y = _wa(C, c, w), _wa(C, c2, w2)
    if not _same(x, y):
        return finding('chord.weighted_accuracy', 'splitting a row into two rows with the same comparison and the weights adding up',
                       [c, w, i, a], [x, y], 'differs')
    return None


def check_wa_ignored(C, c, w, i, b):
    """Changing the weight of an ignored (-1) row to b >= 0 changes nothing, unless it makes the total weight zero / nonzero."""
    if not (0 <= i < min(len(c), len(w))) or c[i] >= 0 or b < 0 or w[i] < 0:
        return None
    w2 = w[:i] + [b] + w[i + 1:]
    if (sum(w) == 0) != (sum(w2) == 0):
        return None
    x, y = _wa(C, c, w), _wa(C, c, w2)
    if not _same(x, y):
        return finding('chord.weighted_accuracy', 'the weight of an ignored row does not matter', [c, w, i, b], [x, y], 'differs')
    return None


def check_wa_value(C, c, w):
    """Range, all-one, all-zero and the weighted mean itself, for comparisons in {1, 0, -1}."""
    if len(c) != len(w) or any(x < 0 for x in w) or any(x not in (1, 0, -1) for x in c):
        return None
    r = _wa(C, c, w)
    if r[0] != 'ok':
        return finding('chord.weighted_accuracy', 'valid input does not raise', [c, w], r, 'raised')
    s = float(r[1])
    den = sum(y for x, y in zip(c, w) if x >= 0)
    num = sum(x * y for x, y in zip(c, w) if x >= 0)
    if den == 0:
        # documented: 0 with a warning; the code returns nan when an ignored row has weight (see report)
        if sum(w) > 0 and any(x >= 0 for x in c):
            return None if math.isnan(s) else finding('chord.weighted_accuracy', 'comparable rows of total weight 0 (model: nan)', [c, w], s, '')
        return None if s == 0 else finding('chord.weighted_accuracy', 'no weight / nothing comparable gives 0', [c, w], s, '')
    if not (0 - TOL <= s <= 1 + TOL):
        return finding('chord.weighted_accuracy', 'score in [0, 1]', [c, w], s, 'out of range')
    if abs(s - num / den) > TOL:
        return finding('chord.weighted_accuracy', 'score is the weighted mean over comparable rows', [c, w], s, 'expected %r' % (num / den))
    return None


# ------------------------------------------------------------------------------------------------------------------
# B. transposition / respelling of chord label pairs
# ------------------------------------------------------------------------------------------------------------------
LETTER = {'C': 0, 'D': 2, 'E': 4, 'F': 5, 'G': 7, 'A': 9, 'B': 11}
ROOT_RE = re.compile(r'^([A-G])(b+|#+|)(.*)$', re.S)
SPELLINGS = {}
for _l, _s in LETTER.items():
    for _n in range(0, 4):
        SPELLINGS.setdefault((_s + _n) % 12, []).append(_l + '#' * _n)
        if _n:
            SPELLINGS.setdefault((_s - _n) % 12, []).append(_l + 'b' * _n)


def root_semitone(rt):
    return (LETTER[rt[0]] + rt.count('#') - rt[1:].count('b')) % 12


def transpose_label(label, k, pick=0):
    """Transpose the root of a Harte label by k semitones, choosing the pick-th spelling; N / X unchanged."""
    if label in ('N', 'X'):
        return label
    m = ROOT_RE.match(label)
    if not m:
        return None
    sp = SPELLINGS[(root_semitone(m.group(1) + m.group(2)) + k) % 12]
    return sp[pick % len(sp)] + m.group(3)


def check_pitch_class(C, rt):
    """pitch_class_to_semitone = letter + #sharps - #flats mod 12."""
    r = _call(C.pitch_class_to_semitone, rt)
    want = root_semitone(rt)
    if r[0] != 'ok' or int(r[1]) != want:
        return finding('chord.pitch_class_to_semitone', 'letter + sharps - flats mod 12', rt, r, 'expected %d' % want)
    return None


def check_transpose_pair(C, r, e, k, pick_r=0, pick_e=0):
    """All 12 rules give the same result on (r, e) and on both labels transposed by k (any spelling)."""
    r2, e2 = transpose_label(r, k, pick_r), transpose_label(e, k, pick_e)
    if r2 is None or e2 is None:
        return None
    for name in RULES:
        f = getattr(C, name)
        a = _call(lambda: float(f([r], [e])[0]))
        b = _call(lambda: float(f([r2], [e2])[0]))
        if not _same(a, b):
            return finding('chord.' + name, 'invariant under transposing / respelling reference and estimate together',
                           [r, e, k, r2, e2], [a, b], 'differs')
    ea, eb = _call(C.encode, r), _call(C.encode, r2)
    if ea[0] == 'ok' and eb[0] == 'ok' and r not in ('N', 'X'):
        if (int(ea[1][0]) + k) % 12 != int(eb[1][0]) or list(ea[1][1]) != list(eb[1][1]) or int(ea[1][2]) != int(eb[1][2]):
            return finding('chord.encode', 'transposing the root by k adds k to the encoded root only', [r, r2, k],
                           [[int(ea[1][0]), int(ea[1][2])], [int(eb[1][0]), int(eb[1][2])]], 'differs')
    return None


# ------------------------------------------------------------------------------------------------------------------
# C. key.weighted_score
# ------------------------------------------------------------------------------------------------------------------
KEY_LETTER = {'c': 0, 'd': 2, 'e': 4, 'f': 5, 'g': 7, 'a': 9, 'b': 11}
SCORES = (1.0, 0.5, 0.3, 0.2, 0.0)


def key_tonics(K):
    return [k for k, v in K.KEY_TO_SEMITONE.items() if v is not None]


def tonic_semitone(t):
    """independent of KEY_TO_SEMITONE: letter + sharps - flats"""
    t = t.lower()
    return (KEY_LETTER[t[0]] + t[1:].count('#') - t[1:].count('b')) % 12


def documented_score(d, rm, em):
    """The docstring's table for modes major / minor; d = (estimate - reference) mod 12."""
    if d == 0 and rm == em:
        return 1.0
    if d == 7 and rm == em:
        return 0.5
    if rm == 'major' and em == 'minor' and d == 9:
        return 0.3
    if rm == 'minor' and em == 'major' and d == 3:
        return 0.3
    if rm != em and d == 0:
        return 0.2
    return 0.0


def check_key_table(K):
    """Every tonic name has the semitone its spelling says."""
    for t, v in K.KEY_TO_SEMITONE.items():
        if v is not None and v != tonic_semitone(t):
            return finding('key.KEY_TO_SEMITONE', 'name -> letter + accidentals', t, v, 'expected %d' % tonic_semitone(t))
    return None


def check_key_pair(K, r, e):
    """r, e = (tonic, mode) with mode in major/minor/other. Self, value set, documented table (major/minor),
    enharmonic names, joint transposition."""
    (rt, rm), (et, em) = r, e
    rs, es = rt + ' ' + rm, et + ' ' + em
    a = _call(K.weighted_score, rs, es)
    if a[0] != 'ok':
        return finding('key.weighted_score', 'valid keys do not raise', [rs, es], a, 'raised')
    s = float(a[1])
    if s not in SCORES:
        return finding('key.weighted_score', 'score in {1, .5, .3, .2, 0}', [rs, es], s, '')
    b = _call(K.weighted_score, rs, rs)
    if b != ('ok', 1.0):
        return finding('key.weighted_score', 'a key scores 1 with itself', [rs, rs], b, '')
    d = (tonic_semitone(et) - tonic_semitone(rt)) % 12
    if rm != 'other' and em != 'other' and s != documented_score(d, rm, em):
        return finding('key.weighted_score', 'documented relationship table', [rs, es], s, 'expected %r' % documented_score(d, rm, em))
    ts = key_tonics(K)
    for k in range(12):
        for rt2 in ts:
            if tonic_semitone(rt2) != (tonic_semitone(rt) + k) % 12:
                continue
            for et2 in ts:
                if tonic_semitone(et2) != (tonic_semitone(et) + k) % 12:
                    continue
                for f in (str, str.upper, str.capitalize):
                    c = _call(K.weighted_score, f(rt2) + ' ' + rm, f(et2) + ' ' + em)
                    if not _same(a, c):
                        return finding('key.weighted_score', 'invariant under joint transposition / enharmonic respelling / case of tonic',
                                       [rs, es, f(rt2) + ' ' + rm, f(et2) + ' ' + em], [a, c], 'differs')
    return None


def check_key_other(K, r, e):
    """The documented table extended in the obvious way to 'other' (an unknown mode is related to nothing except by identity
    and fifth...). Reports where the code departs from: relative relation needs major<->minor exactly."""
    (rt, rm), (et, em) = r, e
    if 'other' not in (rm, em):
        return None
    a = _call(K.weighted_score, rt + ' ' + rm, et + ' ' + em)
    d = (tonic_semitone(et) - tonic_semitone(rt)) % 12
    if a[0] == 'ok' and float(a[1]) == 0.3:
        return finding('key.weighted_score', "0.3 is for relative major/minor pairs only", [rt + ' ' + rm, et + ' ' + em], a[1],
                       "mode 'other' is neither the relative minor nor the relative major (d=%d)" % d)
    return None


# ------------------------------------------------------------------------------------------------------------------
def sweep(rng, n=300):
    """Self-test on the installed mir_eval: returns the list of findings (expected: only the check_key_other ones)."""
    from mir_eval import chord as C, key as K
    out = []

    def add(f):
        if f is not None:
            out.append(f)
    add(check_key_table(K))
    ts = key_tonics(K)
    for _ in range(n):
        m = rng.randint(0, 8)
        c = [float(rng.choice([1, 1, 0, -1])) for _ in range(m)]
        w = [rng.choice([0.0, 1.0, 0.5, 2.25, 3.0, rng.randint(0, 640) / 64.0]) for _ in range(m)]
        add(check_wa_scale(C, c, w, rng.choice([0.5, 2.0, 4.0, 0.125, 3.0])))
        add(check_wa_value(C, c, w))
        if m:
            i = rng.randrange(m)
            add(check_wa_split(C, c, w, i, rng.choice([0.0, w[i], w[i] / 2, w[i] / 4])))
            add(check_wa_ignored(C, c, w, i, rng.choice([0.0, 1.0, 7.5])))
    roots = [l + a for l in 'ABCDEFG' for a in ('', '#', 'b', '##', 'bb')]
    tails = ['', ':maj', ':min', ':7', ':maj7', ':min7', ':dim', ':aug', ':sus4', ':maj/3', ':min/b3', ':7/b7', ':maj(9)', ':min7(*5)',
             ':(1,5)', ':hdim7', ':maj6', ':9', ':maj/5', ':min(*b3)', ':1', ':5', '/2']
    for rt in roots:
        add(check_pitch_class(C, rt))
    for _ in range(n):
        r = rng.choice(['N', 'X'] + [rng.choice(roots) + rng.choice(tails) for _ in range(8)])
        e = rng.choice(['N', 'X'] + [rng.choice(roots) + rng.choice(tails) for _ in range(8)])
        if rng.random() < 0.4 and r not in ('N', 'X') and e not in ('N', 'X'):
            e = ROOT_RE.match(r).group(1) + ROOT_RE.match(r).group(2) + ROOT_RE.match(e).group(3)
        add(check_transpose_pair(C, r, e, rng.randrange(12), rng.randrange(6), rng.randrange(6)))
    for _ in range(max(20, n // 5)):
        r = (rng.choice(ts), rng.choice(['major', 'minor', 'other']))
        e = (rng.choice(ts), rng.choice(['major', 'minor', 'other']))
        add(check_key_pair(K, r, e))
        add(check_key_other(K, r, e))
    return out


if __name__ == '__main__':
    import json
    import random
    import sys
    fs = sweep(random.Random(0), int(sys.argv[1]) if len(sys.argv) > 1 else 300)
    kinds = {}
    for f in fs:
        kinds.setdefault((f['function'], f['relation']), []).append(f)
    for k, v in kinds.items():
        print(len(v), k, json.dumps(v[0]['input']), v[0]['observed'])
    print('findings:', len(fs))
