"""Property oracles on the implementation for C18 (multipitch): they state the properties directly on mir_eval's API.
Used only to search for a concrete failing input once a proof obligation or a correspondence no longer checks
(DESIGN.md 4.3); no verdict of "holds" rests on them.

Every check_* returns None or a finding dict {'function','relation','input','observed','why'}.
`search(rng, n)` runs all of them on generated inputs and returns the list of findings (deduplicated by relation).

Known on the unmodified tree (see Proofs/MultipitchProps.v):
  * negative frequencies pass `validate`; they become nan MIDI values; util._fast_hit_windows pairs nan with nan, the
    chroma (distance based) matching does not -> check_metrics(..., allow_negative=True) reports 'chroma TP >= raw TP'.
  * `metrics` decides "same time base" with np.allclose, so a late time base that is off by a constant up to
    1e-8 + 1e-5*t is not resampled -> check_metrics(..., strict_timebase=True) reports it.
"""
import warnings
from fractions import Fraction

import numpy as np

TOL = 1e-9
NAMES = ['precision', 'recall', 'accuracy', 'e_sub', 'e_miss', 'e_fa', 'e_tot']


def finding(function, relation, inp, observed, why):
    return {'function': function, 'relation': relation, 'input': inp, 'observed': observed, 'why': why}


def _arr(l):
    return np.array(l, dtype=float)


def _call(fn, *a, **k):
    with warnings.catch_warnings():
        warnings.simplefilter('ignore')
        return fn(*a, **k)


def nearest_frames(times, freqs, targets):
    """Independent statement of the resampling rule, in exact arithmetic: the frame of the nearest source time, the
    earlier one at an exact midpoint; the empty frame outside [first, last] or without source times."""
    ts = [Fraction(t) for t in times]
    out = []
    for t in targets:
        t = Fraction(t)
        if not ts or t < ts[0] or t > ts[-1]:
            out.append([])
            continue
        best = 0
        for i in range(1, len(ts)):
            if abs(ts[i] - t) < abs(ts[best] - t):
                best = i
        out.append(list(freqs[best]))
    return out


def check_resample(mp, times, freqs, targets):
    """resample_multipitch == nearest source frame (strictly increasing `times`)."""
    inp = {'times': list(times), 'freqs': [list(f) for f in freqs], 'targets': list(targets)}
    try:
        got = _call(mp.resample_multipitch, _arr(times), [_arr(f) for f in freqs], _arr(targets))
    except Exception as e:  # noqa
        return finding('multipitch.resample_multipitch', 'does not raise on well-formed input', inp, type(e).__name__, str(e)[:200])
    got = [[float(x) for x in f] for f in got]
    if len(got) != len(targets):
        return finding('multipitch.resample_multipitch', 'one output frame per target time', inp, got, 'length %d != %d' % (len(got), len(targets)))
    exp = nearest_frames(times, freqs, targets)
    for k, (g, e) in enumerate(zip(got, exp)):
        if g != e:
            return finding('multipitch.resample_multipitch', 'target gets the frame of the nearest source time (earlier one on ties), empty outside the range',
                           inp, got, 'target %r: got %r, nearest-frame rule gives %r' % (targets[k], g, e))
    return None


def check_tp(mp, ref_midi, est_midi, window=0.5, shift=0.25, octaves=(1, -2)):
    """Per-frame relations of compute_num_true_positives on MIDI frames (no nan): bounds, raw <= chroma, symmetry,
    monotone in the window, invariance under a common shift and (chroma) under whole octaves."""
    inp = {'ref_midi': [list(f) for f in ref_midi], 'est_midi': [list(f) for f in est_midi], 'window': window}
    R = [_arr(f) for f in ref_midi]
    E = [_arr(f) for f in est_midi]
    ch = lambda fs: mp.midi_to_chroma(fs)
    fn = 'multipitch.compute_num_true_positives'
    raw = [int(x) for x in _call(mp.compute_num_true_positives, R, E, window=window)]
    chroma = [int(x) for x in _call(mp.compute_num_true_positives, ch(R), ch(E), window=window, chroma=True)]
    for k in range(min(len(R), len(E))):
        m = min(len(R[k]), len(E[k]))
        if not (0 <= raw[k] <= m and 0 <= chroma[k] <= m):
            return finding(fn, '0 <= TP <= min(#ref, #est) per frame', inp, {'raw': raw, 'chroma': chroma}, 'frame %d' % k)
        if chroma[k] < raw[k]:
            return finding(fn, 'chroma TP >= raw TP per frame', inp, {'raw': raw, 'chroma': chroma}, 'frame %d' % k)
    if len(R) == len(E):
        raw_s = [int(x) for x in _call(mp.compute_num_true_positives, E, R, window=window)]
        chr_s = [int(x) for x in _call(mp.compute_num_true_positives, ch(E), ch(R), window=window, chroma=True)]
        if raw_s != raw or chr_s != chroma:
            return finding(fn, 'TP(ref, est) == TP(est, ref)', inp, {'raw': raw, 'raw_swapped': raw_s, 'chroma': chroma, 'chroma_swapped': chr_s}, '')
    for w2 in (window * 2, window + 0.25):
        raw2 = [int(x) for x in _call(mp.compute_num_true_positives, R, E, window=w2)]
        chr2 = [int(x) for x in _call(mp.compute_num_true_positives, ch(R), ch(E), window=w2, chroma=True)]
        if any(a > b for a, b in zip(raw, raw2)) or any(a > b for a, b in zip(chroma, chr2)):
            return finding(fn, 'widening window never lowers TP', inp, {'w': window, 'w2': w2, 'raw': raw, 'raw2': raw2, 'chroma': chroma, 'chroma2': chr2}, '')
    Rs = [f + shift for f in R]
    Es = [f + shift for f in E]
    raw3 = [int(x) for x in _call(mp.compute_num_true_positives, Rs, Es, window=window)]
    chr3 = [int(x) for x in _call(mp.compute_num_true_positives, ch(Rs), ch(Es), window=window, chroma=True)]
    if raw3 != raw or chr3 != chroma:
        return finding(fn, 'adding the same amount to all MIDI values leaves TP unchanged', inp, {'shift': shift, 'raw': raw, 'raw_shifted': raw3, 'chroma': chroma, 'chroma_shifted': chr3}, '')
    for k in octaves:
        Eo = [f + 12.0 * k for f in E]
        chr4 = [int(x) for x in _call(mp.compute_num_true_positives, ch(R), ch(Eo), window=window, chroma=True)]
        if chr4 != chroma:
            return finding(fn, 'chroma TP unchanged by whole octaves', inp, {'octaves': k, 'chroma': chroma, 'chroma_shifted': chr4}, '')
    return None


def _scores_relations(fn, inp, sc):
    for base, tag in ((0, 'raw'), (7, 'chroma')):
        p, r, a, s, m, f, t = sc[base:base + 7]
        if abs(t - (s + m + f)) > TOL:
            return finding(fn, 'E_tot == E_sub + E_miss + E_fa (%s)' % tag, inp, sc, '%r vs %r' % (t, s + m + f))
        for name, v in zip(NAMES, (p, r, a, s, m, f, t)):
            if not v >= -1e-15:
                return finding(fn, '%s >= 0 (%s)' % (name, tag), inp, sc, repr(v))
        if a > min(p, r) + 1e-12:
            return finding(fn, 'accuracy <= min(precision, recall) (%s)' % tag, inp, sc, '%r > min(%r, %r)' % (a, p, r))
        if p > 1 + 1e-12 or r > 1 + 1e-12:
            return finding(fn, 'precision, recall <= 1 (%s)' % tag, inp, sc, '')
    return None


def check_metrics(mp, ref_time, ref_freqs, est_time, est_freqs, window=None, strict_timebase=False):
    """All C18 relations on one call of multipitch.metrics (input must pass validate)."""
    fn = 'multipitch.metrics'
    inp = {'ref_time': list(ref_time), 'ref_freqs': [list(f) for f in ref_freqs], 'est_time': list(est_time),
           'est_freqs': [list(f) for f in est_freqs], 'window': window}
    kw = {} if window is None else {'window': window}
    w = 0.5 if window is None else window
    rt, et = _arr(ref_time), _arr(est_time)
    RF, EF = [_arr(f) for f in ref_freqs], [_arr(f) for f in est_freqs]
    try:
        sc = [float(x) for x in _call(mp.metrics, rt, RF, et, EF, **kw)]
    except Exception as e:  # noqa
        return finding(fn, 'does not raise on valid input', inp, type(e).__name__, str(e)[:200])
    if len(sc) != 14:
        return finding(fn, 'returns 14 scores', inp, sc, '')
    f = _scores_relations(fn, inp, sc)
    if f:
        return f
    # the documented pipeline, re-assembled from the module's own pieces and the independent nearest-frame rule
    same = list(ref_time) == list(est_time) if strict_timebase else (len(ref_time) == len(est_time) and bool(np.allclose(et, rt)))
    est_used = [list(x) for x in est_freqs] if same else nearest_frames(est_time, est_freqs, ref_time)
    EU = [_arr(x) for x in est_used]
    if len(EU) != len(RF):
        return finding(fn, 'estimate and reference have the same number of frames after resampling', inp, len(EU), '')
    rm, em = _call(mp.frequencies_to_midi, RF), _call(mp.frequencies_to_midi, EU)
    nr, ne = np.array([len(x) for x in RF]), np.array([len(x) for x in EU])
    tp = _call(mp.compute_num_true_positives, rm, em, window=w)
    tpc = _call(mp.compute_num_true_positives, mp.midi_to_chroma(rm), mp.midi_to_chroma(em), window=w, chroma=True)
    for k in range(len(RF)):
        if not (tp[k] <= min(nr[k], ne[k]) and tpc[k] <= min(nr[k], ne[k])):
            return finding(fn, 'TP <= min(#ref, #est) per frame', inp, {'tp': list(map(int, tp)), 'tpc': list(map(int, tpc))}, 'frame %d' % k)
        if tpc[k] < tp[k]:
            return finding(fn, 'chroma TP >= raw TP per frame', inp, {'tp': list(map(int, tp)), 'tpc': list(map(int, tpc))}, 'frame %d' % k)
    exp = []
    for t in (tp, tpc):
        T, NR, NE = float(t.sum()), float(nr.sum()), float(ne.sum())
        den = NR + NE - T
        exp += [T / NE if NE > 0 else 0.0, T / NR if NR > 0 else 0.0, T / den if den > 0 else 0.0]
        if NR == 0:
            exp += [0.0, 0.0, 0.0, 0.0]
        else:
            exp += [float((np.minimum(nr, ne) - t).sum()) / NR, float(np.maximum(nr - ne, 0).sum()) / NR,
                    float(np.maximum(ne - nr, 0).sum()) / NR, float((np.maximum(nr, ne) - t).sum()) / NR]
    if any(abs(a - b) > TOL for a, b in zip(sc, exp)):
        rel = 'the estimate is resampled to the nearest estimate frame iff its time base differs; scores follow the definitions'
        return finding(fn, rel, inp, sc, 'expected %r (time bases %s)' % (exp, 'equal' if same else 'differ'))
    # swapping reference and estimate on a common time base
    if list(ref_time) == list(est_time):
        sw = [float(x) for x in _call(mp.metrics, et, EF, rt, RF, **kw)]
        for b in (0, 7):
            if abs(sc[b] - sw[b + 1]) > TOL or abs(sc[b + 1] - sw[b]) > TOL or abs(sc[b + 2] - sw[b + 2]) > TOL:
                return finding(fn, 'swapping ref/est exchanges precision and recall and keeps accuracy', inp, {'scores': sc, 'swapped': sw}, '')
    return None


# ---------------------------------------------------------------------------------------------- search
def _rand_case(rng, negative=False, late=False):
    k = rng.randint(1, 5)
    den = rng.choice([4, 16, 64])
    hop = rng.randint(1, 20)
    start = rng.randint(1700 * den, 1900 * den) if late else rng.randint(0, 200)
    ref_time = [(start + hop * i) / den for i in range(k)]
    mode = rng.random()
    if mode < 0.4:
        est_time = list(ref_time)
    elif mode < 0.6:
        est_time = [t + hop / (2.0 * den) for t in ref_time]
    elif mode < 0.8:
        est_time = [t + 1.0 / 64 for t in ref_time]
    else:
        m = rng.randint(1, 6)
        est_time = sorted(set((start + rng.randint(-hop, hop * k)) / den for _ in range(m)))
    notes = lambda: [440.0 * 2.0 ** ((rng.randint(30, 100) + rng.choice([0, 0, 0.2, -0.3, 0.45, 0.55]) - 69) / 12.0) for _ in range(rng.randint(0, 4))]
    ref_freqs = [notes() for _ in ref_time]
    est_freqs = []
    for i in range(len(est_time)):
        base = ref_freqs[min(i, k - 1)]
        fr = [f * rng.choice([1, 1, 1, 2, 0.5, 2.0 ** (0.4 / 12), 2.0 ** (0.7 / 12)]) for f in base if rng.random() < 0.8]
        fr += notes()[:1]
        est_freqs.append([f for f in fr if 20.5 <= f <= 4990])
    ref_freqs = [[f for f in fr if 20.5 <= f <= 4990] for fr in ref_freqs]
    if negative:
        ref_freqs[0].append(-100.0)
        est_freqs[0].append(-250.0)
    return ref_time, ref_freqs, est_time, est_freqs


def search(rng, n=300, include_known=False):
    """Run every oracle on n generated inputs; returns the findings (at most one per relation)."""
    from mir_eval import multipitch as mp
    found = {}

    def note(f):
        if f and f['relation'] not in found:
            found[f['relation']] = f
    for i in range(n):
        case = _rand_case(rng)
        note(check_metrics(mp, *case, window=rng.choice([None, None, 0.3, 1.0])))
        if include_known:
            note(check_metrics(mp, *_rand_case(rng, negative=True)))
            note(check_metrics(mp, *_rand_case(rng, late=True), strict_timebase=True))
        # resampling on a strictly increasing lattice time base with forced midpoints / out-of-range targets
        k = rng.randint(1, 6)
        ts, cur = [], rng.randint(0, 50)
        for _ in range(k):
            ts.append(cur / 16.0)
            cur += rng.randint(1, 12)
        tg = [rng.randint(-8, cur + 8) / 16.0 for _ in range(6)]
        tg += [(a + b) / 2 for a, b in zip(ts, ts[1:])] + [ts[0], ts[-1], ts[0] - 1 / 16.0, ts[-1] + 1 / 16.0]
        note(check_resample(mp, ts, [[float(j + 1)] * (j % 3) for j in range(k)], tg))
        # per-frame relations on lattice MIDI values, pairs exactly on the window
        w = rng.choice([0.5, 0.25, 1.0])
        R, E = [], []
        for _ in range(rng.randint(1, 3)):
            r = [rng.randint(80, 400) / 4.0 for _ in range(rng.randint(0, 4))]
            e = [x + rng.choice([w, -w, w + 0.25, 12 + w, -12, 0, 0.25]) for x in r if rng.random() < 0.8] + [rng.randint(80, 400) / 4.0]
            R.append(r)
            E.append(e)
        note(check_tp(mp, R, E, window=w))
    return list(found.values())
