"""Property oracles on the implementation for mir_eval.pattern, mir_eval.alignment and mir_eval.tempo (the properties proved
about ME.Model.Pattern / Alignment / Tempo in Proofs/PatternProps.v, AlignmentProps.v, TempoProps.v). They state the
properties directly on mir_eval's API and are used only to search for a concrete failing input once a proof obligation or
a correspondence no longer checks; no verdict of "holds" rests on them. Every function returns None or a finding dict
{'function','relation','input','observed','why'}.

Patterns: list of patterns; pattern = list of occurrences; occurrence = list of (onset, midi) tuples.
Known findings on the unchanged tree (reported by sweep()):
  * pattern.standard_FPR precision (and F) above 1: two reference patterns that are translations of each other, one estimate;
  * an occurrence with a repeated note: the perfect estimate scores < 1 (|set| / len);
  * tempo.detection with a zero reference tempo: the perfect estimate scores weight or 1 - weight, not 1."""
import math
from fractions import Fraction

TOL = 1e-9


def finding(function, relation, inp, observed, why):
    return {'function': function, 'relation': relation, 'input': inp, 'observed': observed, 'why': why}


def _call(fn, *a, **kw):
    import warnings
    try:
        with warnings.catch_warnings():
            warnings.simplefilter('ignore')
            v = fn(*a, **kw)
        return ('ok', v)
    except Exception as e:  # noqa
        return ('exc', type(e).__name__)


def _vec(r):
    if r[0] != 'ok':
        return r
    v = r[1]
    try:
        return ('ok', [float(x) for x in v])
    except TypeError:
        return ('ok', [float(v)])


def _same(a, b):
    a, b = _vec(a), _vec(b)
    if a[0] != b[0]:
        return False
    if a[0] == 'exc':
        return a[1] == b[1]
    return len(a[1]) == len(b[1]) and all(abs(x - y) <= TOL for x, y in zip(a[1], b[1]))


def _in01(x):
    return -TOL <= x <= 1 + TOL


# ------------------------------------------------------------------------------------------------------------------
# A. pattern
# ------------------------------------------------------------------------------------------------------------------

def _pat_metrics(P, thres, n):
    return [('establishment_FPR', lambda r, e: P.establishment_FPR(r, e)),
            ('occurrence_FPR', lambda r, e: P.occurrence_FPR(r, e, thres=thres)),
            ('three_layer_FPR', lambda r, e: P.three_layer_FPR(r, e))]


def check_pattern_range(P, ref, est, thres=0.75, n=5, tol=1e-5):
    """C01: establishment / occurrence / three-layer F, P, R and the first-n scores lie in [0, 1]; standard_FPR recall
    lies in [0, 1]; standard_FPR precision and F SHOULD (known finding: they do not)."""
    for name, fn in _pat_metrics(P, thres, n):
        r = _vec(_call(fn, ref, est))
        if r[0] == 'ok' and not all(_in01(x) for x in r[1]):
            return finding('pattern.' + name, 'F, P, R in [0, 1]', [ref, est, thres], r[1], 'out of range')
    for name in ('first_n_three_layer_P', 'first_n_target_proportion_R'):
        r = _vec(_call(getattr(P, name), ref, est, n=n))
        if r[0] == 'ok' and not _in01(r[1][0]):
            return finding('pattern.' + name, 'score in [0, 1]', [ref, est, n], r[1], 'out of range')
    r = _vec(_call(P.standard_FPR, ref, est, tol=tol))
    if r[0] == 'ok':
        if not _in01(r[1][2]):
            return finding('pattern.standard_FPR', 'recall in [0, 1]', [ref, est, tol], r[1], 'out of range')
        if not (_in01(r[1][0]) and _in01(r[1][1])):
            return finding('pattern.standard_FPR', 'F, P in [0, 1]', [ref, est, tol], r[1],
                           'several reference patterns match the same estimated pattern: hits exceed the number of estimates')
    return None


def check_pattern_swap(P, ref, est, thres=0.75):
    """C06: swapping reference and estimate exchanges P and R and keeps F (same exception class otherwise)."""
    for name, fn in _pat_metrics(P, thres, 5):
        a, b = _vec(_call(fn, ref, est)), _vec(_call(fn, est, ref))
        if a[0] == 'ok' and b[0] == 'ok':
            b = ('ok', [b[1][0], b[1][2], b[1][1]])
        if not _same(a, b):
            return finding('pattern.' + name, 'swap of reference and estimate exchanges P and R', [ref, est, thres], [a, b], 'differs')
    return None


def _has_dup(ps):
    return any(len(set(tuple(x) for x in o)) != len(o) for p in ps for o in p)


def _wellformed(ps):
    return len(ps) > 0 and all(len(p) > 0 and all(len(o) > 0 for o in p) for p in ps)


def check_pattern_self(P, ref, thres=0.75, tol=1e-5):
    """C02: est = ref scores F = P = R = 1 (non-empty occurrences; thres <= 1; tol > 0). Known finding: not with a repeated note."""
    if not _wellformed(ref) or thres > 1 or tol <= 0:
        return None
    fns = _pat_metrics(P, thres, 5) + [('standard_FPR', lambda r, e: P.standard_FPR(r, e, tol=tol))]
    for name, fn in fns:
        r = _vec(_call(fn, ref, ref))
        if r != ('ok', [1.0, 1.0, 1.0]) and not (r[0] == 'ok' and all(abs(x - 1) <= TOL for x in r[1])):
            why = 'an occurrence repeats a note: |set| < len' if _has_dup(ref) and name != 'standard_FPR' else ''
            return finding('pattern.' + name, 'a perfect estimate scores 1', [ref, thres], r, why)
    for name in ('first_n_three_layer_P', 'first_n_target_proportion_R'):
        r = _vec(_call(getattr(P, name), ref, ref, n=len(ref)))
        if not (r[0] == 'ok' and abs(r[1][0] - 1) <= TOL):
            return finding('pattern.' + name, 'a perfect estimate with <= n patterns scores 1', [ref, len(ref)], r,
                           'an occurrence repeats a note' if _has_dup(ref) else '')
    return None


def shift_patterns(ps, d):
    return [[[(x[0] + d, x[1]) for x in o] for o in p] for p in ps]


def check_pattern_shift(P, ref, est, d, thres=0.75, tol=1e-5):
    """C08: the same onset offset (exactly representable) on reference and estimate changes nothing."""
    r2, e2 = shift_patterns(ref, d), shift_patterns(est, d)
    fns = _pat_metrics(P, thres, 5) + [('standard_FPR', lambda r, e: P.standard_FPR(r, e, tol=tol))]
    for name, fn in fns:
        a, b = _call(fn, ref, est), _call(fn, r2, e2)
        if not _same(a, b):
            return finding('pattern.' + name, 'invariant under a common onset offset', [ref, est, d], [_vec(a), _vec(b)], 'differs')
    return None


def check_pattern_ref_perm(P, ref, est, perm, thres=0.75, tol=1e-5):
    """C08: permuting the reference pattern list changes nothing."""
    if sorted(perm) != list(range(len(ref))):
        return None
    r2 = [ref[i] for i in perm]
    fns = _pat_metrics(P, thres, 5) + [('standard_FPR', lambda r, e: P.standard_FPR(r, e, tol=tol))]
    for name, fn in fns:
        a, b = _call(fn, ref, est), _call(fn, r2, est)
        if not _same(a, b):
            return finding('pattern.' + name, 'invariant under permuting the reference patterns', [ref, est, perm], [_vec(a), _vec(b)], 'differs')
    return None


def _F(p, r):
    return Fraction(0) if p == 0 and r == 0 else 2 * p * r / (p + r)


def _mean(l):
    return sum(l, Fraction(0)) / len(l)


def _inter(a, b):
    return len(set(tuple(map(Fraction, x)) for x in a) & set(tuple(map(Fraction, x)) for x in b))


def collins(ref, est, thres):
    """Independent exact evaluation (Fractions) of the establishment, occurrence and three-layer definitions."""
    card = lambda a, b: Fraction(_inter(a, b), max(len(a), len(b)))
    sm = lambda p, q: [[card(a, b) for b in q] for a in p]
    cols = lambda m: [max(row[j] for row in m) for j in range(len(m[0]))]
    rows = lambda m: [max(row) for row in m]
    S = [[max(max(row) for row in sm(p, q)) for q in est] for p in ref]
    pe, re_ = _mean(cols(S)), _mean(rows(S))
    rel = [(i, j) for i in range(len(ref)) for j in range(len(est)) if S[i][j] >= Fraction(thres)]
    if rel:
        OP = {(i, j): _mean(cols(sm(ref[i], est[j]))) for i, j in rel}
        OR = {(i, j): _mean(rows(sm(ref[i], est[j]))) for i, j in rel}
        po = _mean([max(OP.get((i, j), Fraction(0)) for i, _ in rel) for _, j in rel])
        ro = _mean([max(OR.get((i, j), Fraction(0)) for _, j in rel) for i, _ in rel])
    else:
        po = ro = Fraction(0)
    f1 = lambda a, b: _F(Fraction(_inter(a, b), len(a)), Fraction(_inter(a, b), len(b)))

    def f2(p, q):
        m = [[f1(a, b) for b in q] for a in p]
        return _F(_mean(cols(m)), _mean(rows(m)))
    M = [[f2(p, q) for q in est] for p in ref]
    p3, r3 = _mean(cols(M)), _mean(rows(M))
    return [[_F(pe, re_), pe, re_], [_F(po, ro), po, ro], [_F(p3, r3), p3, r3]]


def check_pattern_def(P, ref, est, thres=0.75):
    """C04: establishment / occurrence / three-layer scores equal Collins' definitions (well-formed, non-empty occurrences)."""
    if not _wellformed(ref) or not _wellformed(est):
        return None
    want = collins(ref, est, thres)
    for (name, fn), w in zip(_pat_metrics(P, thres, 5), want):
        r = _vec(_call(fn, ref, est))
        if r[0] != 'ok' or any(abs(x - float(y)) > TOL for x, y in zip(r[1], w)):
            return finding('pattern.' + name, "equals Collins' definition", [ref, est, thres], r, 'expected %r' % [float(y) for y in w])
    return None


def check_first_n(P, ref, est, n):
    """first-n metrics are the three-layer precision / establishment recall on estimated_patterns[:n] (n >= 0)."""
    if n < 0:
        return None
    a = _vec(_call(P.first_n_three_layer_P, ref, est, n=n))
    b = _vec(_call(P.three_layer_FPR, ref, est[:n]))
    c = _vec(_call(P.first_n_target_proportion_R, ref, est, n=n))
    d = _vec(_call(P.establishment_FPR, ref, est[:n]))
    if a[0] == 'ok' and b[0] == 'ok' and abs(a[1][0] - b[1][1]) > TOL:
        return finding('pattern.first_n_three_layer_P', 'three-layer precision of the first n estimates', [ref, est, n], [a, b], 'differs')
    if c[0] == 'ok' and d[0] == 'ok' and abs(c[1][0] - d[1][2]) > TOL:
        return finding('pattern.first_n_target_proportion_R', 'establishment recall of the first n estimates', [ref, est, n], [c, d], 'differs')
    return None


# ------------------------------------------------------------------------------------------------------------------
# B. alignment
# ------------------------------------------------------------------------------------------------------------------

def _arr(l):
    import numpy as np
    return np.array(l, dtype=float)


def check_alignment(A, ref, est, window, window2, duration):
    """C01 ranges, C04 definitions (exact Fractions), C07 window monotonicity."""
    r, e = _arr(ref), _arr(est)
    ae = _call(A.absolute_error, r, e)
    if ae[0] != 'ok':
        return None
    n = len(ref)
    dev = sorted(abs(Fraction(a) - Fraction(b)) for a, b in zip(ref, est))
    med = dev[n // 2] if n % 2 else (dev[n // 2 - 1] + dev[n // 2]) / 2
    mean = sum(dev, Fraction(0)) / n
    mae, aae = float(ae[1][0]), float(ae[1][1])
    if mae < 0 or aae < 0:
        return finding('alignment.absolute_error', 'errors are non-negative', [ref, est], [mae, aae], '')
    if abs(mae - float(med)) > TOL or abs(aae - float(mean)) > TOL:
        return finding('alignment.absolute_error', 'median / mean absolute deviation', [ref, est], [mae, aae], 'expected %r' % [float(med), float(mean)])
    pcs = []
    for w in (window, window2):
        pc = _call(A.percentage_correct, r, e, window=w)
        want = Fraction(sum(1 for d in dev if d <= Fraction(w)), n)
        if pc[0] != 'ok' or not _in01(float(pc[1])) or abs(float(pc[1]) - float(want)) > TOL:
            return finding('alignment.percentage_correct', 'fraction of deviations <= window, in [0, 1]', [ref, est, w], pc, 'expected %r' % float(want))
        pcs.append(float(pc[1]))
    if (window <= window2 and pcs[0] > pcs[1] + TOL) or (window2 <= window and pcs[1] > pcs[0] + TOL):
        return finding('alignment.percentage_correct', 'monotone in window', [ref, est, window, window2], pcs, '')
    ov = lambda R, E: sum((max(min(R[i + 1], E[i + 1]) - max(R[i], E[i]), Fraction(0)) for i in range(len(R) - 1)), Fraction(0))
    R, E = [Fraction(x) for x in ref], [Fraction(x) for x in est]
    p0 = _call(A.percentage_correct_segments, r, e)
    if R[-1] - R[0] > 0:
        want = ov(R, E) / (R[-1] - R[0])
        if p0[0] != 'ok' or not _in01(float(p0[1])) or abs(float(p0[1]) - float(want)) > TOL:
            return finding('alignment.percentage_correct_segments', 'MIREX mode: overlap / (last - first reference), in [0, 1]',
                           [ref, est], p0, 'expected %r' % float(want))
    elif p0 != ('exc', 'ValueError'):
        return finding('alignment.percentage_correct_segments', 'identical reference timestamps are rejected', [ref, est], p0, '')
    if duration is not None and duration > 0 and duration >= max(ref + est):
        d = Fraction(duration)
        want = ov([Fraction(0)] + R + [d], [Fraction(0)] + E + [d]) / d
        p1 = _call(A.percentage_correct_segments, r, e, duration=duration)
        if p1[0] != 'ok' or not _in01(float(p1[1])) or abs(float(p1[1]) - float(want)) > TOL:
            return finding('alignment.percentage_correct_segments', 'duration mode: overlap of (0,t1),...,(tN,duration) / duration, in [0, 1]',
                           [ref, est, duration], p1, 'expected %r' % float(want))
    return None


def check_alignment_self(A, ref, window, duration):
    """C02: est = ref gives errors 0 and pc = pcs = 1."""
    r = _arr(ref)
    if _call(A.validate, r, r)[0] != 'ok' or window < 0:
        return None
    ae = _call(A.absolute_error, r, r)
    if ae[0] != 'ok' or float(ae[1][0]) != 0 or float(ae[1][1]) != 0:
        return finding('alignment.absolute_error', 'perfect estimate has zero error', [ref], ae, '')
    pc = _call(A.percentage_correct, r, r, window=window)
    if pc[0] != 'ok' or float(pc[1]) != 1:
        return finding('alignment.percentage_correct', 'perfect estimate scores 1', [ref, window], pc, '')
    if ref[-1] > ref[0]:
        p0 = _call(A.percentage_correct_segments, r, r)
        if p0[0] != 'ok' or abs(float(p0[1]) - 1) > TOL:
            return finding('alignment.percentage_correct_segments', 'perfect estimate scores 1 (MIREX mode)', [ref], p0, '')
    if duration is not None and duration > 0 and duration >= max(ref):
        p1 = _call(A.percentage_correct_segments, r, r, duration=duration)
        if p1[0] != 'ok' or abs(float(p1[1]) - 1) > TOL:
            return finding('alignment.percentage_correct_segments', 'perfect estimate scores 1 (duration mode)', [ref, duration], p1, '')
    return None


def check_pcs_shift(A, ref, est, s):
    """C08: adding s >= 0 (exactly representable) to all timestamps leaves MIREX-mode PCS, errors and pc unchanged."""
    if s < 0:
        return None
    r, e = _arr(ref), _arr(est)
    r2, e2 = _arr([x + s for x in ref]), _arr([x + s for x in est])
    for name, kw in (('percentage_correct_segments', {}), ('absolute_error', {}), ('percentage_correct', {'window': 0.25})):
        a, b = _call(getattr(A, name), r, e, **kw), _call(getattr(A, name), r2, e2, **kw)
        if not _same(a, b):
            return finding('alignment.' + name, 'invariant under shifting all timestamps', [ref, est, s], [_vec(a), _vec(b)], 'differs')
    return None


# ------------------------------------------------------------------------------------------------------------------
# C. tempo
# ------------------------------------------------------------------------------------------------------------------

def _hit(r, es, tol):
    r = Fraction(r)
    return r > 0 and any(abs(Fraction(e) - r) <= Fraction(tol) * r for e in es)


def _inexact_boundary(ref, est, tol):
    for r in ref:
        if r > 0:
            for e in est:
                exact = abs(Fraction(r) - Fraction(e)) / Fraction(r)
                if Fraction(abs(r - e) / r) != exact and abs(exact - Fraction(tol)) < Fraction(1, 10 ** 9):
                    return True
    return False


def check_tempo(T, ref, w, est, tol, tol2):
    """C01 (flags are bools, P-score in [0, 1] and = w*hit0 + (1-w)*hit1), C04 (MIREX definition), C07 (both => one,
    monotone in tol), C08 (order of the estimates)."""
    import numpy as np
    r, e = np.array(ref, dtype=float), np.array(est, dtype=float)
    a = _call(T.detection, r, w, e, tol)
    b = _call(T.detection, r, w, e[::-1].copy(), tol)
    if a[0] != b[0] or (a[0] == 'exc' and a[1] != b[1]) or (a[0] == 'ok' and (float(a[1][0]) != float(b[1][0]) or a[1][1:] != b[1][1:])):
        return finding('tempo.detection', 'symmetric in the two estimated tempi', [ref, w, est, tol], [a, b], 'differs')
    if a[0] != 'ok' or _inexact_boundary(ref, est, tol) or _inexact_boundary(ref, est, tol2):
        return None
    p, one, both = a[1]
    if not (isinstance(one, bool) and isinstance(both, bool)):
        return finding('tempo.detection', 'one_correct / both_correct are bools', [ref, w, est, tol], [type(one).__name__, type(both).__name__], '')
    h = [_hit(x, est, tol) for x in ref]
    want = Fraction(w) * h[0] + (1 - Fraction(w)) * h[1]
    if abs(float(p) - float(want)) > TOL or one != (h[0] or h[1]) or both != (h[0] and h[1]):
        return finding('tempo.detection', 'MIREX definition: P = w*hit0 + (1-w)*hit1, |est - ref| <= tol*ref', [ref, w, est, tol],
                       [float(p), one, both], 'expected %r' % [float(want), h[0] or h[1], h[0] and h[1]])
    if not _in01(float(p)):
        return finding('tempo.detection', 'P-score in [0, 1]', [ref, w, est, tol], float(p), '')
    if both and not one:
        return finding('tempo.detection', 'both-correct implies one-correct', [ref, w, est, tol], [one, both], '')
    lo, hi = min(tol, tol2), max(tol, tol2)
    x, y = _call(T.detection, r, w, e, lo), _call(T.detection, r, w, e, hi)
    if x[0] == 'ok' and y[0] == 'ok':
        if float(x[1][0]) > float(y[1][0]) + TOL or (x[1][1] and not y[1][1]) or (x[1][2] and not y[1][2]):
            return finding('tempo.detection', 'monotone in tol', [ref, w, est, lo, hi], [x[1], y[1]], '')
    return None


def check_tempo_self(T, ref, w, tol):
    """C02: est = ref scores (1, True, True). Known finding: not when one reference tempo is 0."""
    import numpy as np
    r = np.array(ref, dtype=float)
    a = _call(T.detection, r, w, r.copy(), tol)
    if a[0] != 'ok':
        return None
    if abs(float(a[1][0]) - 1) > TOL or not a[1][1] or not a[1][2]:
        return finding('tempo.detection', 'a perfect estimate scores (1, True, True)', [ref, w, ref, tol], [float(a[1][0]), a[1][1], a[1][2]],
                       'a zero reference tempo is never hit' if 0 in ref else '')
    return None


# ------------------------------------------------------------------------------------------------------------------
def _rand_occ(rng):
    t = float(rng.randint(0, 8))
    out = []
    for _ in range(rng.choice([1, 2, 3, 4])):
        out.append((t, rng.randint(60, 66)))
        t += rng.choice([1.0, 2.0, 0.5, 0.25])
    return out


def _rand_patterns(rng):
    ps = []
    for _ in range(rng.choice([1, 2, 3])):
        proto = _rand_occ(rng)
        occs = [proto]
        for _ in range(rng.choice([0, 1, 2])):
            d = float(rng.randint(4, 12))
            o = [(a + d, b) for a, b in proto]
            if rng.random() < 0.4 and len(o) > 1:
                o.pop(rng.randrange(len(o)))
            occs.append(o)
        ps.append(occs)
    return ps


def _perturb(rng, ps):
    out = []
    for p in ps:
        q = []
        for o in p:
            o = list(o)
            r = rng.random()
            if r < 0.3 and len(o) > 1:
                o.pop(rng.randrange(len(o)))
            elif r < 0.5:
                i = rng.randrange(len(o))
                o[i] = (o[i][0], o[i][1] + 1)
            q.append(o)
        out.append(q)
    if rng.random() < 0.3:
        out = out[:max(1, len(out) - 1)]
    if rng.random() < 0.3:
        out.append([_rand_occ(rng)])
    return out


def sweep(rng, n=200):
    """Self-test on the installed mir_eval: returns the list of findings (expected: only the three known kinds)."""
    from mir_eval import pattern as P, alignment as A, tempo as T
    out = []

    def add(f):
        if f is not None:
            out.append(f)
    Aocc = [(0.0, 60), (1.0, 62), (2.0, 64)]
    Bocc = [(10.0, 60), (11.0, 62), (12.0, 64)]
    add(check_pattern_range(P, [[Aocc], [Bocc]], [[Aocc]]))
    add(check_pattern_self(P, [[[(1.0, 60), (1.0, 60)]]]))
    add(check_tempo_self(T, [0.0, 120.0], 0.5, 0.08))
    for _ in range(n):
        ref = _rand_patterns(rng)
        est = rng.choice([_perturb(rng, ref), _rand_patterns(rng), shift_patterns(ref, float(rng.randint(1, 9)))])
        thres = rng.choice([0.5, 0.75, 0.25, 1.0])
        add(check_pattern_range(P, ref, est, thres, rng.choice([1, 2, 5])))
        add(check_pattern_swap(P, ref, est, thres))
        add(check_pattern_self(P, ref, thres))
        add(check_pattern_shift(P, ref, est, float(rng.randint(-3, 20)) / 4.0, thres))
        perm = list(range(len(ref)))
        rng.shuffle(perm)
        add(check_pattern_ref_perm(P, ref, est, perm, thres))
        add(check_pattern_def(P, ref, est, thres))
        add(check_first_n(P, ref, est, rng.choice([0, 1, 2, 5])))
        k = rng.randint(1, 8)
        t, rf = 0.25 * rng.randint(0, 20), []
        for _ in range(k):
            rf.append(t)
            t += 0.25 * rng.randint(0, 12)
        es = sorted(max(0.0, x + 0.25 * rng.randint(-4, 4)) for x in rf)
        w1, w2 = rng.choice([0.0, 0.25, 0.5, 0.3]), rng.choice([0.25, 0.5, 1.0])
        dur = max(rf + es) + rng.choice([0.0, 0.25, 3.0])
        add(check_alignment(A, rf, es, w1, w2, dur))
        add(check_alignment_self(A, rf, w1, dur))
        add(check_pcs_shift(A, rf, es, 0.25 * rng.randint(0, 40)))
        tref = [rng.choice([0.0, 64.0, 128.0, 60.0, 90.5]), rng.choice([64.0, 128.0, 120.0, 77.0])]
        test = [rng.choice([tref[0], tref[1], 60.0, 68.0, 136.0, 0.0, 0.5 * rng.randint(0, 400)]) for _ in range(2)]
        tw = rng.choice([0.0, 0.25, 0.5, 1.0, rng.randint(0, 64) / 64.0])
        add(check_tempo(T, tref, tw, test, rng.choice([0.0, 0.0625, 0.08, 0.125]), rng.choice([0.08, 0.25, 1.0])))
        if 0.0 not in tref:
            add(check_tempo_self(T, tref, tw, rng.choice([0.0, 0.08])))
    return out


if __name__ == '__main__':
    import json
    import random
    import sys
    fs = sweep(random.Random(0), int(sys.argv[1]) if len(sys.argv) > 1 else 200)
    kinds = {}
    for f in fs:
        kinds.setdefault((f['function'], f['relation']), []).append(f)
    for k, v in kinds.items():
        print(len(v), k, json.dumps(v[0]['input']), v[0]['observed'], v[0]['why'])
    print('findings:', len(fs))
